#!/usr/bin/env python3
"""keep_seeded.py <mutants-root> <results.log> <confirm.log> <worktree>  — copy confirmed mutants to /verif/seeded/<id>/
with patch.diff, demo/, notes.md and meta.json (what it breaks / needs is in notes.md written by the fresh agent;
meta.json adds what we ran and what the check reported)."""
import json, os, re, shutil, sys
root, reslog, conflog, wt = sys.argv[1:5]
res = {}
cur = None
for line in open(reslog):
    m = re.match(r"== (\S+?):?( .*)?$", line.strip())
    if m and line.startswith("=="):
        cur = m.group(1); res[cur] = []
        if m.group(2): res[cur].append(m.group(2).strip())
    elif cur: res[cur].append(line.rstrip())
conf = {}
cur = None
for line in open(conflog):
    if line.startswith("== "): cur = line.split()[1]; conf[cur] = []
    elif cur: conf[cur].append(line.strip())
rows = []
for mid in sorted(res):
    d = os.path.join(root, mid)
    if not os.path.isdir(d): continue
    confirmed = "CONFIRMED" in conf.get(mid, [])
    if not confirmed:
        print("skip (not confirmed):", mid); continue
    out = f"/verif/seeded/{mid}"
    os.makedirs(out + "/demo", exist_ok=True)
    shutil.copy(d + "/patch.diff", out)
    for f in os.listdir(d):
        if f in ("patch.diff",) or f.endswith(".log") or f == "Cargo.lock" or f == "target": continue
        src = os.path.join(d, f)
        if os.path.isfile(src): shutil.copy(src, out + "/demo/" + f)
    lines = res[mid]
    viol = [l for l in lines if l.startswith("VIOLATION")]
    nofail = any("no-failing-input-found" in l for l in viol)
    first = next((l.strip() for l in lines if "failing input:" in l), "")
    caught = bool(viol)
    notes = open(d + "/notes.md").read() if os.path.exists(d + "/notes.md") else ""
    meta = {
        "id": mid, "breaks": mid.split("-")[0],
        "what_and_needs": "see demo/notes.md (written by the fresh sub-agent that produced the change)",
        "summary": notes.strip().splitlines()[0:6],
        "source": f"fresh sub-agent given only the property text and a scratch worktree ({wt})",
        "confirmed": conf.get(mid, []),
        "ran": f"git -C /repo apply seeded/{mid}/patch.diff; tools/check {mid.split('-')[0]} quick; git -C /repo apply -R seeded/{mid}/patch.diff",
        "check_result": "caught" + (" (no-failing-input-found)" if nofail else " with a concrete failing input") if caught else "MISSED",
        "check_output": lines[:8],
        "demo_note": f"demo/ is a tiny crate with path dependencies into the scratch worktree it was written against ({wt}); re-create a worktree there to re-run it",
    }
    json.dump(meta, open(out + "/meta.json", "w"), indent=1)
    rows.append((mid, meta["check_result"], first[:160]))
for r in rows: print("|", " | ".join(r), "|")
