#!/bin/bash
# thorough sweep, 3 properties at a time; summary in out/run_thorough.log
cd /verif; mkdir -p out; : > out/run_thorough.log
ls props/C*.json | xargs -n1 basename | sed 's/.json//' | xargs -P 3 -I{} bash -c 's=$(date +%s); tools/check {} thorough > out/run_thorough.{}.out 2>&1; rc=$?; echo "{} rc=$rc $(( $(date +%s) - s ))s $(grep -E "VIOLATION|infrastructure" out/run_thorough.{}.out | head -1 | cut -c1-160)" >> out/run_thorough.log'
echo ALLDONE >> out/run_thorough.log
