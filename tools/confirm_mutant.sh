#!/bin/bash
# confirm_mutant.sh <worktree> <mutant-dir> <pkgspec>...   (run by the integrator, not by checks)
# Confirms in a scratch worktree that a seeded change (a) applies and compiles, (b) keeps the
# existing tests of the touched packages green, (c) makes its demonstration fail, and that the
# demonstration passes without the change. Prints one summary line per step.
wt=$1; md=$2; shift 2
export CARGO_NET_OFFLINE=true
cd "$wt" || exit 2
git checkout -q -- . && git apply "$md/patch.diff" || { echo "APPLY-FAILED"; exit 1; }
ok=1
for p in "$@"; do
  if cargo test -q -p "$p" --offline >"$md/test-$(echo $p | tr '@/' '__').log" 2>&1; then echo "tests $p: pass (with change)"; else echo "tests $p: FAIL (with change)"; ok=0; fi
done
if CARGO_TARGET_DIR="$wt/target/mutant-demos" cargo test -q --offline --manifest-path "$md/Cargo.toml" >"$md/demo-with.log" 2>&1; then echo "demo with change: PASSES (unexpected)"; ok=0; else echo "demo with change: fails (expected)"; fi
git checkout -q -- .
if CARGO_TARGET_DIR="$wt/target/mutant-demos" cargo test -q --offline --manifest-path "$md/Cargo.toml" >"$md/demo-without.log" 2>&1; then echo "demo without change: passes (expected)"; else echo "demo without change: FAILS (unexpected)"; ok=0; fi
[ $ok = 1 ] && echo "CONFIRMED" || echo "NOT-CONFIRMED"
