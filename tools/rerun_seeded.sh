#!/bin/bash
# rerun_seeded.sh <id>...  — re-run the property checks against seeded changes (after strengthening a check)
# and record the new result in seeded/<id>/meta.json (keeps the first-run result as history).
root=$(mktemp -d /tmp/mut-rerun.XXXX)
for id in "$@"; do mkdir -p $root/$id; cp /verif/seeded/$id/patch.diff $root/$id/; done
/verif/tools/run_mutants.sh $root $root/results.log
python3 - "$root" "$@" <<'PY'
import json,re,sys
root=sys.argv[1]
s=open(root+"/results.log").read()
for mid in sys.argv[2:]:
    m=re.search(r"== %s:?(.*?)(?=\n== |\nDONE|$)"%re.escape(mid), s, re.S)
    lines=[l for l in (m.group(1) if m else "").splitlines() if l.strip()]
    p=f"/verif/seeded/{mid}/meta.json"; d=json.load(open(p))
    viol=[l for l in lines if l.startswith("VIOLATION")]
    res="MISSED" if not viol else ("caught (no-failing-input-found)" if any("no-failing-input-found" in l for l in viol) else "caught with a concrete failing input")
    if "first_run_result" not in d:
        d["first_run_result"]=d.get("check_result"); d["first_run_output"]=d.get("check_output")
    d["check_result"]=res+" (after the check was strengthened; first run: %s)"%d["first_run_result"]
    d["check_output"]=lines[:8]
    json.dump(d,open(p,"w"),indent=1)
    print(mid,"->",res)
PY
rm -rf $root
