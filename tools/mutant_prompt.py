#!/usr/bin/env python3
"""mutant_prompt.py <worktree> <outdir> <Cxx> [<Cxx> ...]  -> prints a prompt for a fresh mutation agent
(only the property texts + a scratch worktree; nothing from /verif)"""
import json, os, sys
wt, out, ids = sys.argv[1], sys.argv[2], sys.argv[3:]
props = {json.loads(l)["id"]: json.loads(l) for l in open("/verif/properties.jsonl")}
N=int(os.environ.get("N","2"))
NWORD={1:"ONE",2:"TWO different,",3:"THREE different,"}[N]; PL="" if N==1 else "s"; NS=",".join(str(i) for i in range(int(os.environ.get("START","1")), int(os.environ.get("START","1"))+N))
DIFF="Make the changes for a property different in kind and location." if N>1 else "Prefer a change in a part of the relevant code that looks least exercised by ordinary use (error paths, rarely used options, state re-use across calls, concurrency, boundary sizes)."
print(f"""You are testing how robust a Rust codebase's guarantees are. You have your own scratch git worktree of the gitoxide repository at {wt} (a pure-Rust implementation of git, a cargo workspace of ~60 crates; builds offline with `cargo build/test --offline`; there is no network). Work ONLY inside {wt} and {out} (and /tmp for scratch files). Do not read or touch /repo, and you must not read anything under /verif.

Below are {len(ids)} semantic properties the code base is supposed to satisfy. For EACH property produce {NWORD} realistic code change{PL} (each a separate small patch against the worktree's HEAD) that BREAK that property while the code still compiles and the existing test suites of the touched crates still pass (run them: `cargo test -p <crate>@<version> --offline` — several crate names are ambiguous without `@version`; integration tests of crate X often live in a separate package `X-tests`, run that too). The changes should look like plausible refactoring slips or "optimisations", and should need something SPECIFIC to manifest — a particular interleaving, a crash or fault at a particular point, a multi-step sequence of operations, an unusual input, or two cooperating sites that each look fine alone — not something ordinary use would expose at once. {DIFF}

For each change deliver, under {out}/<property-id>-<n>/ (n = {NS}):
  - patch.diff: `git diff` of the change against HEAD (apply-able with `git apply` at the repo root);
  - a demonstration: a tiny cargo crate (Cargo.toml + lib.rs/demo.rs with `#[test]`s, path dependencies into {wt}, its own copy of {wt}/Cargo.lock) whose tests FAIL with the change applied and PASS without it; it must be runnable as `CARGO_TARGET_DIR={wt}/target/mutant-demos cargo test --offline --manifest-path {out}/<id>-<n>/Cargo.toml`;
  - notes.md: what the change breaks, what it needs in order to manifest, the packages whose existing tests you ran with the change applied (exact `-p` specs) and their result lines.
Between mutants reset the worktree with `git -C {wt} checkout -- .` so each patch is independent; leave the worktree clean when you finish; keep build output inside {wt}/target. The machine is shared and busy: run one cargo command at a time. Reply with a short table: id, file, one-line description, trigger, packages tested.
""")
for i in ids:
    p = props[i]
    print(f"--- Property {i}: {p['title']}\nStatement: {p['statement']}\nQuantified over: {p['quantifier']['text']}\nWhy tests miss it: {p['why_tests_cant']}\nRelevant code: {', '.join(p['anchors']['files'])}\nMechanisms: {'; '.join(m['name']+' ('+m.get('where','')+')' for m in p['anchors']['mechanism'])}\n")
