#!/bin/bash
# run_mutants.sh <mutants-root> <logfile>   — for each <root>/<Cxx>-<n>/patch.diff: apply to /repo, run the
# property's quick check, reverse-apply (never `checkout`, other edits may be in flight). Integrator tool.
root=$1; log=$2; : > "$log"
for d in "$root"/C*-*/; do
  id=$(basename "$d"); prop=${id%%-*}
  [ -f "$d/patch.diff" ] || continue
  if ! git -C /repo apply --check "$d/patch.diff" 2>/dev/null; then echo "== $id: PATCH-DOES-NOT-APPLY" >> "$log"; continue; fi
  git -C /repo apply "$d/patch.diff"
  echo "== $id" >> "$log"
  (cd /verif && timeout 1500 tools/check $prop quick > "$d/check.out" 2>&1; grep -E "VIOLATION|failing input|broken|infrastructure" "$d/check.out" | head -7; grep -E "\] V " "$d/check.out" | tail -1; echo "known-findings printed: $(grep -c KNOWN-FINDING "$d/check.out")") >> "$log"
  git -C /repo apply -R "$d/patch.diff" || echo "!! REVERSE FAILED for $id" >> "$log"
done
echo DONE >> "$log"
