#!/bin/bash
# run_mutants.sh <mutants-root> <logfile>   — for each <root>/<Cxx>-<n>/patch.diff: apply to /repo, run the
# property's quick check, reverse-apply (never `checkout`, other edits may be in flight). Integrator tool.
root=$1; log=$2; : > "$log"
for d in "$root"/C*-*/; do
  id=$(basename "$d"); prop=${id%%-*}
  [ -f "$d/patch.diff" ] || continue
  if ! git -C /repo apply --check "$d/patch.diff" 2>/dev/null; then echo "== $id: PATCH-DOES-NOT-APPLY" >> "$log"; continue; fi
  git -C /repo apply "$d/patch.diff"
  echo "== $id" >> "$log"
  (cd /verif && timeout 1500 tools/check $prop quick 2>&1 | grep -E "VIOLATION|KNOWN-FINDING|failing input|broken|infrastructure|\] V " | head -8) >> "$log"
  git -C /repo apply -R "$d/patch.diff" || echo "!! REVERSE FAILED for $id" >> "$log"
done
echo DONE >> "$log"
