#!/usr/bin/env python3
"""print a Lean `Bytes` literal for an ASCII string: tools/bytes.py 'tree ' -> [116, 114, 101, 101, 32]
(string literals do not reduce in Lean's kernel, so models spell constants as byte lists)"""
import sys
for s in sys.argv[1:]:
    print(f"-- {s!r}\n[" + ", ".join(str(b) for b in s.encode()) + "]")
