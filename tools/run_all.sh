#!/bin/bash
# run_all.sh [tier]  — run every claimed check sequentially on the current tree; summary in out/run_all.log
tier=${1:-quick}
cd /verif; mkdir -p out; : > out/run_all.log
for f in props/C*.json; do id=$(basename $f .json)
  s=$(date +%s); tools/check $id $tier > out/run_all.$id.out 2>&1; rc=$?
  echo "$id rc=$rc $(( $(date +%s) - s ))s $(grep -c KNOWN-FINDING out/run_all.$id.out) known $(grep -E 'VIOLATION|infrastructure' out/run_all.$id.out | head -1 | cut -c1-160)" >> out/run_all.log
done
echo ALLDONE >> out/run_all.log
