#!/usr/bin/env python3
"""print the statements (not proofs) of the theorems of Props files: tools/thms.py C05 C42"""
import re, sys
for pid in sys.argv[1:]:
    src = open(f"/verif/lean/GixModel/Props/{pid}.lean").read()
    print(f"==== {pid}")
    for m in re.finditer(r"^(theorem|def \w+_full)\b(.*?)(:= by|:=\n|:= )", src, re.S | re.M):
        stmt = " ".join((m.group(1) + m.group(2)).split())
        print(" ", stmt[:420])
