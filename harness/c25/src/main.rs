//! C25 — index files written by gitoxide round-trip and are valid for git.
//!
//! Op (one line, replayed by the Lean driver `drv_C25`):
//!   write <opts> <sparse> <tree> <n> <entry>*n     `File::write_to` on a state built through the public API
//!       opts   three digits: tree_cache, end_of_index_entry, skip_hash
//!       tree   `-` or, recursively, `T <namehex> <idhex> <num_entries|-1> <nchildren> <child>…`
//!       entry  ctimeS ctimeN mtimeS mtimeN dev ino uid gid size mode(hex) idhex flags(hex) pathhex
//!   observation: `v=<version> <hex of the written file>`
//!
//! Oracle on the real code (independent of the Lean model): the written file is read back with `State::from_bytes`
//! (thread limits 1 and 4) and must give the same state minus `REMOVE`d entries (stat, id, mode, path, persisted flags,
//! tree, sparse marker, version); the trailing hash must be the SHA-1 of the rest; the REAL git must list exactly the
//! kept entries (`git ls-files --stage --debug -z`), accept the checksum (`git fsck` does verify it) and keep the cache
//! tree when it rewrites the index (`git update-index --force-write-index`).
use bstr::ByteSlice;
use gix_index::{decode, entry, extension, State};
use hcommon::*;
use std::path::Path;

#[derive(Debug, PartialEq, Eq, Clone)]
struct GitEntry {
    mode: u32,
    id: String,
    stage: u32,
    path: Vec<u8>,
    ctime: (u32, u32),
    mtime: (u32, u32),
    dev: u32,
    ino: u32,
    uid: u32,
    gid: u32,
    size: u32,
    flags: u32,
}

fn git_with_index(dir: &Path, index: &Path, args: &[&str], stdin: Option<&[u8]>) -> GitOut {
    use std::io::Write;
    use std::process::Stdio;
    let mut c = git_cmd(dir);
    c.env("GIT_INDEX_FILE", index)
        .args(args)
        .stdin(if stdin.is_some() { Stdio::piped() } else { Stdio::null() })
        .stdout(Stdio::piped())
        .stderr(Stdio::piped());
    let mut child = c.spawn().expect("spawn git");
    if let Some(data) = stdin {
        let mut si = child.stdin.take().expect("stdin");
        let _ = si.write_all(data);
    }
    let out = child.wait_with_output().expect("wait git");
    GitOut {
        ok: out.status.success(),
        code: out.status.code().unwrap_or(-1),
        stdout: out.stdout,
        stderr: out.stderr,
    }
}

fn parse_debug_listing(out: &[u8]) -> Option<Vec<GitEntry>> {
    let mut es = Vec::new();
    let mut i = 0;
    while i < out.len() {
        let tab = i + out[i..].iter().position(|b| *b == b'\t')?;
        let head = std::str::from_utf8(&out[i..tab]).ok()?;
        let mut it = head.split(' ');
        let mode = u32::from_str_radix(it.next()?, 8).ok()?;
        let id = it.next()?.to_string();
        let stage: u32 = it.next()?.parse().ok()?;
        let nul = tab + 1 + out[tab + 1..].iter().position(|b| *b == 0)?;
        let path = out[tab + 1..nul].to_vec();
        i = nul + 1;
        let mut nums: Vec<u32> = Vec::new();
        let mut flags = 0;
        for line_no in 0..5 {
            let nl = i + out[i..].iter().position(|b| *b == b'\n')?;
            let line = std::str::from_utf8(&out[i..nl]).ok()?;
            i = nl + 1;
            for (k, tok) in line
                .split(|c: char| c == ' ' || c == '\t' || c == ':')
                .filter(|t| !t.is_empty())
                .enumerate()
            {
                if tok.chars().next().map_or(false, |c| c.is_ascii_hexdigit()) && !tok.chars().any(|c| c.is_ascii_alphabetic() && !c.is_ascii_hexdigit()) {
                    // numbers only; the last line's second number is hex
                    if line_no == 4 && k == 3 {
                        flags = u32::from_str_radix(tok, 16).ok()?;
                    } else if tok.chars().all(|c| c.is_ascii_digit()) {
                        nums.push(tok.parse().ok()?);
                    }
                }
            }
        }
        if nums.len() != 9 {
            return None;
        }
        es.push(GitEntry {
            mode,
            id,
            stage,
            path,
            ctime: (nums[0], nums[1]),
            mtime: (nums[2], nums[3]),
            dev: nums[4],
            ino: nums[5],
            uid: nums[6],
            gid: nums[7],
            size: nums[8],
            flags,
        });
    }
    Some(es)
}

/// the flag bits that are stored on disk: stage, extended, assume-valid, intent-to-add, skip-worktree
const PERSISTED_FLAGS: u32 = 0xF000 | 1 << 29 | 1 << 30;

fn gix_entries(state: &State) -> Vec<GitEntry> {
    state
        .entries()
        .iter()
        .map(|e| GitEntry {
            mode: e.mode.bits(),
            id: e.id.to_string(),
            stage: e.flags.stage_raw(),
            path: e.path(state).to_vec(),
            ctime: (e.stat.ctime.secs, e.stat.ctime.nsecs),
            mtime: (e.stat.mtime.secs, e.stat.mtime.nsecs),
            dev: e.stat.dev,
            ino: e.stat.ino,
            uid: e.stat.uid,
            gid: e.stat.gid,
            size: e.stat.size,
            flags: e.flags.bits(),
        })
        .collect()
}


fn be32(n: u32) -> [u8; 4] {
    n.to_be_bytes()
}

// ---------------------------------------------------------------------------------------------------------------
// state description (what the op line carries)
// ---------------------------------------------------------------------------------------------------------------

#[derive(Clone, Debug, PartialEq, Eq)]
struct TreeD {
    name: Vec<u8>,
    id: [u8; 20],
    num: Option<u32>,
    children: Vec<TreeD>,
}

#[derive(Clone, Debug)]
struct EntryD {
    stat: [u32; 9], // ctimeS ctimeN mtimeS mtimeN dev ino uid gid size
    mode: u32,
    id: [u8; 20],
    flags: u32,
    path: Vec<u8>,
}

#[derive(Clone, Debug)]
struct StateD {
    opts: [bool; 3],
    sparse: bool,
    tree: Option<TreeD>,
    entries: Vec<EntryD>,
}

fn tree_tokens(t: &TreeD, out: &mut Vec<String>) {
    out.push("T".into());
    out.push(hex(&t.name));
    out.push(hex(&t.id));
    out.push(t.num.map_or("-1".to_string(), |n| n.to_string()));
    out.push(t.children.len().to_string());
    for c in &t.children {
        tree_tokens(c, out);
    }
}

fn op_of(s: &StateD) -> String {
    let mut t: Vec<String> = vec!["write".into()];
    t.push(s.opts.iter().map(|b| if *b { '1' } else { '0' }).collect());
    t.push(if s.sparse { "1" } else { "0" }.into());
    match &s.tree {
        None => t.push("-".into()),
        Some(tr) => tree_tokens(tr, &mut t),
    }
    t.push(s.entries.len().to_string());
    for e in &s.entries {
        for v in e.stat {
            t.push(v.to_string());
        }
        t.push(format!("{:x}", e.mode));
        t.push(hex(&e.id));
        t.push(format!("{:x}", e.flags));
        t.push(hex(&e.path));
    }
    t.join(" ")
}

fn parse_tree(tok: &mut std::slice::Iter<'_, &str>) -> Option<TreeD> {
    if *tok.next()? != "T" {
        return None;
    }
    let name = unhex(tok.next()?)?;
    let id: [u8; 20] = unhex(tok.next()?)?.try_into().ok()?;
    let num = match *tok.next()? {
        "-1" => None,
        n => Some(n.parse().ok()?),
    };
    let nc: usize = tok.next()?.parse().ok()?;
    let mut children = Vec::new();
    for _ in 0..nc {
        children.push(parse_tree(tok)?);
    }
    Some(TreeD { name, id, num, children })
}

fn parse_op(op: &str) -> Option<StateD> {
    let toks: Vec<&str> = op.split(' ').collect();
    let mut it = toks.iter();
    if *it.next()? != "write" {
        return None;
    }
    let o: Vec<bool> = it.next()?.chars().map(|c| c == '1').collect();
    if o.len() != 3 {
        return None;
    }
    let sparse = *it.next()? == "1";
    let tree = if it.clone().next() == Some(&"-") {
        it.next();
        None
    } else {
        Some(parse_tree(&mut it)?)
    };
    let n: usize = it.next()?.parse().ok()?;
    let mut entries = Vec::new();
    for _ in 0..n {
        let mut stat = [0u32; 9];
        for s in stat.iter_mut() {
            *s = it.next()?.parse().ok()?;
        }
        let mode = u32::from_str_radix(it.next()?, 16).ok()?;
        let id: [u8; 20] = unhex(it.next()?)?.try_into().ok()?;
        let flags = u32::from_str_radix(it.next()?, 16).ok()?;
        let path = unhex(it.next()?)?;
        entries.push(EntryD { stat, mode, id, flags, path });
    }
    Some(StateD { opts: [o[0], o[1], o[2]], sparse, tree, entries })
}

fn tree_payload(t: &TreeD, out: &mut Vec<u8>) {
    out.extend_from_slice(&t.name);
    out.push(0);
    match t.num {
        Some(n) => out.extend_from_slice(n.to_string().as_bytes()),
        None => out.extend_from_slice(b"-1"),
    }
    out.push(b' ');
    out.extend_from_slice(t.children.len().to_string().as_bytes());
    out.push(b'\n');
    if t.num.is_some() {
        out.extend_from_slice(&t.id);
    }
    for c in &t.children {
        tree_payload(c, out);
    }
}

fn to_tree_d(t: &extension::Tree) -> TreeD {
    TreeD {
        name: t.name.to_vec(),
        id: t.id.as_bytes().try_into().expect("sha1"),
        num: t.num_entries,
        children: t.children.iter().map(to_tree_d).collect(),
    }
}

/// Build the real `State` through the public API. The tree and the sparse marker can only come from decoding, so they
/// are decoded from a minimal hand-made index without entries; the entries are pushed with `dangerously_push_entry`.
/// Returns the state and its description as it really is (the decoder sorts tree children by name and resets the id of
/// invalidated nodes).
fn build(s: &StateD) -> Option<(State, StateD)> {
    let mut state = if s.tree.is_some() || s.sparse {
        let mut v = b"DIRC".to_vec();
        v.extend_from_slice(&be32(2));
        v.extend_from_slice(&be32(0));
        if let Some(t) = &s.tree {
            let mut p = Vec::new();
            tree_payload(t, &mut p);
            v.extend_from_slice(b"TREE");
            v.extend_from_slice(&be32(p.len() as u32));
            v.extend_from_slice(&p);
        }
        if s.sparse {
            v.extend_from_slice(b"sdir");
            v.extend_from_slice(&be32(0));
        }
        v.extend_from_slice(&[0x55; 20]);
        State::from_bytes(&v, filetime::FileTime::from_unix_time(0, 0), gix_hash::Kind::Sha1, Default::default()).ok()?.0
    } else {
        State::new(gix_hash::Kind::Sha1)
    };
    for e in &s.entries {
        state.dangerously_push_entry(
            entry::Stat {
                ctime: entry::stat::Time { secs: e.stat[0], nsecs: e.stat[1] },
                mtime: entry::stat::Time { secs: e.stat[2], nsecs: e.stat[3] },
                dev: e.stat[4],
                ino: e.stat[5],
                uid: e.stat[6],
                gid: e.stat[7],
                size: e.stat[8],
            },
            gix_hash::ObjectId::from_bytes_or_panic(&e.id),
            entry::Flags::from_bits_retain(e.flags),
            entry::Mode::from_bits_retain(e.mode),
            e.path.as_bstr(),
        );
    }
    let mut real = s.clone();
    real.tree = state.tree().map(to_tree_d);
    real.sparse = state.is_sparse();
    if s.tree.is_some() && real.tree.is_none() {
        return None; // the tree description was not decodable (duplicate names): not a state
    }
    Some((state, real))
}

fn write_real(state: &State, opts: [bool; 3]) -> Result<std::io::Result<(gix_index::Version, Vec<u8>)>, String> {
    let file = gix_index::File::from_state(state.clone(), "/nonexistent/index");
    let options = gix_index::write::Options {
        extensions: match (opts[0], opts[1]) {
            (true, true) => gix_index::write::Extensions::All,
            (false, false) => gix_index::write::Extensions::None,
            (t, e) => gix_index::write::Extensions::Given { tree_cache: t, end_of_index_entry: e },
        },
        skip_hash: opts[2],
    };
    catch(|| {
        let mut out = Vec::new();
        file.write_to(&mut out, options).map(|(v, _)| (v, out))
    })
}

const PERSISTED: u32 = 0xF000 | 1 << 29 | 1 << 30;
const REMOVE: u32 = 1 << 17;
const EXTENDED: u32 = 1 << 14;

fn in_domain_flags(f: u32) -> bool {
    // only storable bits, and EXTENDED whenever an extended flag is set (git derives that bit on write, gitoxide
    // expects the caller to set it: without it the extended flags are silently not written)
    f & !PERSISTED == 0 && (f & (3 << 29) == 0 || f & EXTENDED != 0)
}

fn run_case(rep: &mut Report, s: &StateD, scratch: &Path, git_round: bool) {
    let (state, real) = match build(s) {
        Some(x) => x,
        None => {
            rep.bucket("state:not-buildable");
            return;
        }
    };
    let op = op_of(&real);
    let written = write_real(&state, real.opts);
    let (version, bytes) = match &written {
        Err(_) => {
            rep.case(&op, "panic", true);
            rep.oracle_failure(&format!("write-panics n={}", real.entries.len()), "File::write_to panicked", &op);
            return;
        }
        Ok(Err(_)) => {
            rep.case(&op, "err", true);
            return;
        }
        Ok(Ok((v, b))) => (*v as u8, b),
    };
    rep.case(&op, &format!("v={} {}", version, hex(bytes)), true);

    // ---- the property on the real code --------------------------------------------------------------------
    let kept: Vec<&EntryD> = real.entries.iter().filter(|e| e.flags & REMOVE == 0).collect();
    let max_len = kept.iter().map(|e| e.path.len()).max().unwrap_or(0);
    let lens = if max_len >= 4095 { "long" } else { "short" };
    rep.bucket(&format!("written v{version} paths={lens}"));
    let domain_flags = kept.iter().all(|e| in_domain_flags(e.flags));
    let dir_entry = kept.iter().any(|e| e.mode == 0o040000);
    let domain_sparse = !dir_entry || real.sparse;
    let want_version = if real.entries.iter().any(|e| e.flags & EXTENDED != 0) { 3 } else { 2 };
    if version != want_version {
        rep.oracle_failure(&format!("version v{version} expected v{want_version}"), "version does not follow the EXTENDED flag", &op);
    }
    // checksum
    if !real.opts[2] {
        let n = bytes.len() - 20;
        let mut h = gix_features::hash::hasher(gix_hash::Kind::Sha1);
        h.update(&bytes[..n]);
        rep.oracle_checked();
        if h.digest() != bytes[n..] {
            rep.oracle_failure(&format!("checksum n={}", kept.len()), "trailing hash is not the SHA-1 of the file", &op);
        }
    }
    // end-of-index entry: present exactly when asked for (and there is something to point at), its offset is the end
    // of the entries and its hash covers the (signature, size) pairs of the extensions before it
    {
        let has_exts = (real.opts[0] && real.tree.is_some()) || real.sparse;
        let want_eoie = real.opts[1] && has_exts && !real.entries.is_empty();
        let n = bytes.len();
        let tail = if n >= 52 { &bytes[n - 52..n - 20] } else { &[][..] };
        let is_eoie = tail.len() == 32 && &tail[..4] == b"EOIE" && tail[4..8] == [0, 0, 0, 24];
        rep.oracle_checked();
        if is_eoie != want_eoie {
            rep.oracle_failure(&format!("eoie-presence want={want_eoie}"), "EOIE extension present/absent against the options", &op);
        } else if is_eoie {
            let offset = u32::from_be_bytes([tail[8], tail[9], tail[10], tail[11]]) as usize;
            let mut h = gix_features::hash::hasher(gix_hash::Kind::Sha1);
            let mut at = offset;
            let end = n - 52;
            let mut ok = offset >= 12 && offset <= end;
            while ok && at < end {
                if at + 8 > end {
                    ok = false;
                    break;
                }
                h.update(&bytes[at..at + 8]);
                let size = u32::from_be_bytes([bytes[at + 4], bytes[at + 5], bytes[at + 6], bytes[at + 7]]) as usize;
                at += 8 + size;
            }
            // the entries must end exactly at `offset`: re-parse them independently (62/64 bytes + path + padding)
            let mut pos = 12;
            for _ in 0..kept.len() {
                if pos + 62 > n {
                    ok = false;
                    break;
                }
                let flags = u16::from_be_bytes([bytes[pos + 60], bytes[pos + 61]]);
                let fixed = if flags & 0x4000 != 0 { 64 } else { 62 };
                let plen = bytes[pos + fixed..].iter().position(|b| *b == 0).unwrap_or(0);
                pos += (fixed + plen + 8) & !7;
            }
            rep.bucket("oracle:eoie-checked");
            if !ok || at != end || h.digest() != tail[12..32] || pos != offset {
                rep.oracle_failure(
                    &format!("eoie-inconsistent n={}", kept.len()),
                    &format!("EOIE offset {offset} (entries end at {pos}), hash/extent check failed"),
                    &op,
                );
            }
        }
    }
    for threads in [1usize, 4] {
        let back = catch(|| {
            State::from_bytes(
                bytes,
                filetime::FileTime::from_unix_time(0, 0),
                gix_hash::Kind::Sha1,
                decode::Options { thread_limit: Some(threads), ..Default::default() },
            )
        });
        rep.oracle_checked();
        let (back, _) = match back {
            Ok(Ok(x)) => x,
            Ok(Err(e)) => {
                rep.oracle_failure(
                    &format!("read-back-fails v{version} maxpathlen={max_len} t={threads}"),
                    &format!("gitoxide cannot read its own index: {e}"),
                    &op,
                );
                return;
            }
            Err(_) => {
                rep.oracle_failure(&format!("read-back-panics v{version} maxpathlen={max_len}"), "from_bytes panicked", &op);
                return;
            }
        };
        let mut problems = Vec::new();
        if back.version() as u8 != version {
            problems.push(format!("version {} vs {}", back.version() as u8, version));
        }
        if back.entries().len() != kept.len() {
            problems.push(format!("{} entries instead of {}", back.entries().len(), kept.len()));
        } else {
            for (b, e) in back.entries().iter().zip(&kept) {
                let st = [b.stat.ctime.secs, b.stat.ctime.nsecs, b.stat.mtime.secs, b.stat.mtime.nsecs, b.stat.dev, b.stat.ino, b.stat.uid, b.stat.gid, b.stat.size];
                let want_flags = if in_domain_flags(e.flags) { e.flags } else { e.flags & PERSISTED };
                let flags_ok = if in_domain_flags(e.flags) {
                    b.flags.bits() == want_flags
                } else {
                    // outside the domain only the low storage bits are promised
                    b.flags.bits() & 0xF000 == e.flags & 0xF000
                };
                if st != e.stat || b.id.as_bytes() != e.id || b.mode.bits() != e.mode & 0o160755 || b.path(&back) != e.path.as_bstr() || !flags_ok {
                    problems.push(format!(
                        "entry pathlen={} differs: flags {:x} vs {:x}, mode {:o} vs {:o}, stat {:?} vs {:?}",
                        e.path.len(), b.flags.bits(), want_flags, b.mode.bits(), e.mode, st, e.stat
                    ));
                    break;
                }
            }
        }
        let want_tree = if real.opts[0] { real.tree.clone() } else { None };
        if back.tree().map(to_tree_d) != want_tree {
            problems.push("tree extension differs".into());
        }
        if domain_sparse && back.is_sparse() != real.sparse {
            problems.push(format!("is_sparse {} vs {}", back.is_sparse(), real.sparse));
        }
        if !problems.is_empty() {
            rep.oracle_failure(
                &format!("roundtrip v{version} maxpathlen={max_len} kept={} t={threads}", kept.len()),
                &problems.join("; "),
                &op,
            );
            return;
        }
    }
    if !domain_flags {
        rep.bucket("outside:flags-not-storable-or-ITA/SKIP-without-EXTENDED");
        rep.outside_domain("entry flags with in-memory-only bits, or INTENT_TO_ADD/SKIP_WORKTREE without EXTENDED: those bits are not written (only the storage bits are compared)");
    }
    if !domain_sparse {
        rep.bucket("outside:dir-entry-without-sparse-marker");
    }

    // ---- git ----------------------------------------------------------------------------------------------
    // git only accepts sorted, unique (path, stage) entries without a merged+unmerged mix and non-empty paths
    let mut sorted = true;
    for w in kept.windows(2) {
        let a = (&w[0].path, (w[0].flags >> 12) & 3);
        let b = (&w[1].path, (w[1].flags >> 12) & 3);
        if !(a.0 < b.0 || (a.0 == b.0 && a.1 < b.1 && a.1 != 0)) {
            sorted = false;
        }
    }
    // sparse indices (marker or directory entries) are left to C24's git-made ones: git expands them on reading and
    // insists on the trees of the directory entries, which says nothing about the bytes written here
    let git_domain = sorted && kept.iter().all(|e| !e.path.is_empty()) && domain_flags && !real.sparse && !dir_entry;
    if sorted && domain_flags && (real.sparse || dir_entry) {
        rep.bucket("git:skipped-sparse-state");
    }
    if !git_domain {
        rep.bucket("git:skipped-not-a-git-index-state");
        return;
    }
    let index = scratch.join(".git/index");
    if std::fs::write(&index, bytes).is_err() {
        return;
    }
    let listing = git(
        scratch,
        &["-c", "sparse.expectFilesOutsideOfPatterns=true", "ls-files", "--sparse", "--stage", "--debug", "-z"],
        None,
    );
    rep.git_checked(1);
    if !listing.ok {
        rep.oracle_failure(
            &format!("git-rejects v{version} maxpathlen={max_len} kept={}", kept.len()),
            &format!("git ls-files fails: {}", String::from_utf8_lossy(&listing.stderr).trim()),
            &op,
        );
        return;
    }
    rep.oracle_checked();
    match parse_debug_listing(&listing.stdout) {
        None => rep.note("could not parse git ls-files --debug output"),
        Some(ges) => {
            let mut problem = None;
            if ges.len() != kept.len() {
                problem = Some(format!("git lists {} entries, {} were written", ges.len(), kept.len()));
            } else {
                for (g, e) in ges.iter().zip(&kept) {
                    let st = [g.ctime.0, g.ctime.1, g.mtime.0, g.mtime.1, g.dev, g.ino, g.uid, g.gid, g.size];
                    if st != e.stat || g.id != hex(&e.id) || g.mode != e.mode || g.path != e.path || g.stage != (e.flags >> 12) & 3 || g.flags & PERSISTED != e.flags & PERSISTED {
                        problem = Some(format!(
                            "git sees pathlen={} mode {:o} stage {} flags {:x} stat {:?}; written mode {:o} flags {:x} stat {:?}",
                            g.path.len(), g.mode, g.stage, g.flags, st, e.mode, e.flags, e.stat
                        ));
                        break;
                    }
                }
            }
            rep.bucket("git:listing-compared");
            if let Some(p) = problem {
                rep.oracle_failure(&format!("git-lists-differently v{version} maxpathlen={max_len}"), &p, &op);
                return;
            }
        }
    }
    if git_round {
        // checksum as git verifies it
        if !real.opts[2] {
            let f = git(scratch, &["fsck", "--no-dangling", "--connectivity-only"], None);
            rep.git_checked(1);
            let err = String::from_utf8_lossy(&f.stderr).to_string();
            rep.bucket("git:fsck-checksum");
            if err.contains("bad index file") || err.contains("index file corrupt") || err.contains("bad signature") {
                rep.oracle_failure(&format!("git-fsck-index v{version} kept={}", kept.len()), err.trim(), &op);
            }
        }
        // git reads the extensions and writes them back: the cache tree must survive
        if real.opts[0] && real.tree.is_some() {
            let w = git(scratch, &["update-index", "--force-write-index"], None);
            rep.git_checked(1);
            if w.ok {
                if let Ok(data) = std::fs::read(&index) {
                    if let Ok((st, _)) = State::from_bytes(&data, filetime::FileTime::from_unix_time(0, 0), gix_hash::Kind::Sha1, Default::default()) {
                        rep.bucket("git:tree-after-git-rewrite");
                        if st.tree().map(to_tree_d) != real.tree {
                            rep.oracle_failure(
                                &format!("git-drops-tree v{version} kept={}", kept.len()),
                                "after git rewrote the index the cache tree differs from the one gitoxide wrote",
                                &op,
                            );
                        }
                    }
                }
            }
        }
    }
}

// ---------------------------------------------------------------------------------------------------------------
// generator
// ---------------------------------------------------------------------------------------------------------------

fn gen_u32(r: &mut Rng) -> u32 {
    match r.below(6) {
        0 => 0,
        1 => u32::MAX,
        2 => r.below(1000) as u32,
        3 => 1_700_000_000 + r.below(100_000) as u32,
        _ => r.u64() as u32,
    }
}

fn gen_path(r: &mut Rng) -> Vec<u8> {
    let len = match r.below(20) {
        0 => 4094,
        1 => 4095,
        2 => 4096,
        3 => 5000,
        4 => 4090 + r.usize(12),
        5 => 4095 + 8 * r.usize(3),
        6 => 1,
        _ => 1 + r.usize(24),
    };
    let alphabet: &[u8] = b"abcde/xyz .-_\xc3\xa9\xff\x01";
    let mut p: Vec<u8> = (0..len).map(|_| *r.pick(alphabet)).collect();
    // keep it a path git's reader has no opinion about: no leading/trailing/double slash
    for i in 0..p.len() {
        if p[i] == b'/' && (i == 0 || i + 1 == p.len() || p[i - 1] == b'/') {
            p[i] = b'q';
        }
    }
    p
}

fn gen_flags(r: &mut Rng) -> u32 {
    let mut f = (r.below(8) as u32 / 5).min(3) << 12; // mostly stage 0
    if r.chance(1, 6) {
        f = (1 + r.below(3) as u32) << 12;
    }
    if r.chance(1, 6) {
        f |= 1 << 15;
    }
    match r.below(12) {
        0 => f |= EXTENDED | 1 << 29,
        1 => f |= EXTENDED | 1 << 30,
        2 => f |= EXTENDED | 3 << 29,
        3 => f |= EXTENDED,
        4 => f |= REMOVE,
        5 => f |= REMOVE | EXTENDED | 1 << 30,
        6 => f |= *r.pick(&[1u32 << 16, 1 << 18, 1 << 20, 1 << 23, 1 << 27, 1 << 31]), // in-memory only (outside the domain)
        7 if r.chance(1, 2) => f |= *r.pick(&[1u32 << 29, 1 << 30]), // extended flag without EXTENDED (outside the domain)
        _ => {}
    }
    f
}

fn gen_tree(r: &mut Rng, depth: u32, name: Vec<u8>) -> TreeD {
    let nc = if depth >= 3 { 0 } else { r.usize(4) };
    let mut children = Vec::new();
    let mut names: Vec<Vec<u8>> = Vec::new();
    for _ in 0..nc {
        let n = r.over(b"abAB_.", 3);
        let n = if n.is_empty() { b"d".to_vec() } else { n };
        if names.contains(&n) && r.chance(9, 10) {
            continue;
        }
        names.push(n.clone());
        children.push(gen_tree(r, depth + 1, n));
    }
    let mut id = [0u8; 20];
    for b in id.iter_mut() {
        *b = r.byte();
    }
    TreeD {
        name,
        id,
        num: match r.below(6) {
            0 => None,
            1 => Some(0),
            2 => Some(13_094_411),
            _ => Some(r.below(1000) as u32),
        },
        children,
    }
}

fn gen_state(r: &mut Rng, k: u64, real_tree: [u8; 20]) -> StateD {
    let n = match r.below(8) {
        0 => 0,
        1 => 1,
        _ => 1 + r.usize(10),
    };
    let mut entries: Vec<EntryD> = Vec::new();
    for _ in 0..n {
        let mut stat = [0u32; 9];
        for s in stat.iter_mut() {
            *s = gen_u32(r);
        }
        let mut id = [0u8; 20];
        for b in id.iter_mut() {
            *b = r.byte();
        }
        let mut path = gen_path(r);
        if !entries.is_empty() && r.chance(1, 8) {
            path = r.pick(&entries).path.clone(); // same path, maybe another stage
        }
        let mode = *r.pick(&[0o100644u32, 0o100644, 0o100755, 0o120000, 0o160000, 0o040000]);
        let mut flags = gen_flags(r);
        if mode == 0o040000 && r.chance(4, 5) {
            // a sparse directory entry as git has them
            if path.last() != Some(&b'/') {
                path.push(b'/');
            }
            flags = EXTENDED | 1 << 30;
            id = real_tree; // git checks that the tree of a sparse directory exists
        }
        entries.push(EntryD { stat, mode, id, flags, path });
    }
    let sorted = !r.chance(1, 8);
    if sorted {
        entries.sort_by(|a, b| (a.path.clone(), (a.flags >> 12) & 3).cmp(&(b.path.clone(), (b.flags >> 12) & 3)));
        entries.dedup_by(|b, a| a.path == b.path && ((a.flags >> 12) & 3 == (b.flags >> 12) & 3 || (a.flags >> 12) & 3 == 0));
    }
    let opts = match k % 5 {
        0 => [true, true, false],
        1 => [false, false, false],
        2 => [true, false, r.chance(1, 2)],
        3 => [false, true, false],
        _ => [r.chance(1, 2), r.chance(1, 2), r.chance(1, 4)],
    };
    let dir_entry = entries.iter().any(|e| e.mode == 0o040000);
    StateD {
        opts,
        sparse: if dir_entry { r.chance(9, 10) } else { r.chance(1, 8) },
        tree: if r.chance(1, 2) { Some(gen_tree(r, 0, vec![])) } else { None },
        entries,
    }
}

fn corpus() -> Vec<StateD> {
    let mut out = Vec::new();
    let e = |path: Vec<u8>, flags: u32| EntryD { stat: [1, 2, 3, 4, 5, 6, 7, 8, 9], mode: 0o100644, id: [0xcd; 20], flags, path };
    for len in [4093usize, 4094, 4095, 4096, 4097, 5000, 8191] {
        for (opts, flags) in [([true, true, false], 0u32), ([false, false, false], EXTENDED | 1 << 30)] {
            // the long path first, a short one after it: the reader must find the second entry
            out.push(StateD {
                opts,
                sparse: false,
                tree: None,
                entries: vec![e(vec![b'a'; len], flags), e(b"b".to_vec(), 0), e(vec![b'c'; len], 0)],
            });
        }
    }
    // every padding residue with and without extended flags
    for len in 1usize..=9 {
        out.push(StateD { opts: [false, false, false], sparse: false, tree: None, entries: vec![e(vec![b'p'; len], 0), e(vec![b'q'; len + 1], EXTENDED)] });
    }
    out.push(StateD { opts: [true, true, false], sparse: false, tree: None, entries: vec![] });
    out.push(StateD { opts: [true, true, false], sparse: true, tree: Some(TreeD { name: vec![], id: [1; 20], num: Some(1), children: vec![] }), entries: vec![e(b"d".to_vec(), REMOVE), e(b"e".to_vec(), EXTENDED | REMOVE)] });
    out
}

fn main() {
    let args = Args::parse();
    let mut rep = Report::new("C25", &args);
    let scratch = Scratch::new("c25");
    let repo = scratch.join("repo");
    std::fs::create_dir_all(&repo).expect("mkdir");
    git_ok(&repo, &["init", "-q", "."], None);
    // NO sparse-checkout configuration here: with core.sparseCheckout git clears SKIP_WORKTREE *in memory* for paths
    // that exist in the worktree (clear_skip_worktree_from_present_files; a one-byte path like "." does), and the
    // listing would no longer show what is stored in the file

    if let Some(ops) = replay_ops(&args) {
        for op in ops {
            if let Some(s) = parse_op(&op) {
                run_case(&mut rep, &s, &repo, true);
            }
        }
        rep.finish();
        return;
    }
    let blob = git_ok(&repo, &["hash-object", "-w", "--stdin"], Some(b"x\n"));
    let tree_hex = git_ok(&repo, &["mktree"], Some(format!("100644 blob {blob}\tf\n").as_bytes()));
    let real_tree: [u8; 20] = unhex(&tree_hex).and_then(|v| v.try_into().ok()).expect("tree id");
    let mut r = Rng::new(args.seed);
    for s in corpus() {
        run_case(&mut rep, &s, &repo, true);
    }
    for k in 0..args.budget(260, 4000) {
        let s = gen_state(&mut r, k, real_tree);
        run_case(&mut rep, &s, &repo, k % 4 == 0);
    }
    rep.finish();
}
