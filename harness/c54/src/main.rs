//! C54 — `gix_fsck::Connectivity::check_commit` on loose-only scratch repositories whose object
//! graph is generated abstractly (nodes = indices), written with the real loose object store, with
//! random trees/blobs absent. Observation: per-commit result and the `missing_cb` calls in order.
//! Oracle 1: the set of missing objects reachable through present trees, computed directly on the
//! abstract graph. Oracle 2: `git fsck --connectivity-only` on the same repository.
use gix_hash::ObjectId;
use gix_odb::Write as _;
use hcommon::*;
use std::collections::{BTreeMap, BTreeSet, HashMap};
use std::path::PathBuf;

#[derive(Clone, Copy, PartialEq, Eq, Debug)]
enum EKind {
    Tree,
    Blob,
    Commit,
}

#[derive(Clone, Debug)]
enum Node {
    Blob,
    /// entries: (kind the entry's mode claims, mode index for variety, child)
    Tree(Vec<(EKind, u8, usize)>),
    Commit(usize),
    /// an id that is not an object of this repository (submodule commits, missing things in replays)
    Fake,
}

#[derive(Clone, Debug)]
struct Graph {
    nodes: Vec<Node>,
    present: Vec<bool>,
    /// commits handed to `check_commit`, in this order, on one `Connectivity`
    check: Vec<usize>,
    /// some entry's mode disagrees with the object's kind (outside the theorem's domain)
    lying: bool,
}

fn op_line(g: &Graph) -> String {
    let mut s = String::from("fsck");
    for (i, n) in g.nodes.iter().enumerate() {
        if !g.present[i] {
            continue;
        }
        match n {
            Node::Blob => s.push_str(&format!(" B{i}")),
            Node::Commit(t) => s.push_str(&format!(" C{i}:{t}")),
            Node::Tree(es) => {
                let e: Vec<String> = es
                    .iter()
                    .map(|(k, _, c)| {
                        format!(
                            "{}{}",
                            match k {
                                EKind::Tree => 't',
                                EKind::Blob => 'b',
                                EKind::Commit => 'c',
                            },
                            c
                        )
                    })
                    .collect();
                s.push_str(&format!(" T{i}:{}", if e.is_empty() { "-".to_string() } else { e.join(",") }));
            }
            Node::Fake => {}
        }
    }
    s.push_str(" check");
    for c in &g.check {
        s.push_str(&format!(" {c}"));
    }
    s
}

fn parse_op(op: &str) -> Option<Graph> {
    let a: Vec<&str> = op.split(' ').collect();
    if a.first() != Some(&"fsck") {
        return None;
    }
    let pos = a.iter().position(|x| *x == "check")?;
    let mut nodes: BTreeMap<usize, Node> = BTreeMap::new();
    let mut refs: Vec<(usize, EKind)> = Vec::new();
    for t in &a[1..pos] {
        let (k, rest) = t.split_at(1);
        match k {
            "B" => {
                nodes.insert(rest.parse().ok()?, Node::Blob);
            }
            "C" => {
                let (i, t) = rest.split_once(':')?;
                let t: usize = t.parse().ok()?;
                refs.push((t, EKind::Tree));
                nodes.insert(i.parse().ok()?, Node::Commit(t));
            }
            "T" => {
                let (i, es) = rest.split_once(':')?;
                let mut v = Vec::new();
                if es != "-" {
                    for e in es.split(',') {
                        let (k, c) = e.split_at(1);
                        let c: usize = c.parse().ok()?;
                        let k = match k {
                            "t" => EKind::Tree,
                            "b" => EKind::Blob,
                            "c" => EKind::Commit,
                            _ => return None,
                        };
                        refs.push((c, k));
                        v.push((k, 0u8, c));
                    }
                }
                nodes.insert(i.parse().ok()?, Node::Tree(v));
            }
            _ => return None,
        }
    }
    let check: Vec<usize> = a[pos + 1..].iter().filter_map(|c| c.parse().ok()).collect();
    let n = nodes
        .keys()
        .copied()
        .chain(refs.iter().map(|r| r.0))
        .chain(check.iter().copied())
        .max()
        .map(|m| m + 1)
        .unwrap_or(0);
    let mut g = Graph {
        nodes: vec![Node::Fake; n],
        present: vec![false; n],
        check,
        lying: false,
    };
    for (i, nd) in nodes {
        g.nodes[i] = nd;
        g.present[i] = true;
    }
    for (c, k) in refs {
        if g.present[c] {
            let ok = matches!(
                (&g.nodes[c], k),
                (Node::Tree(_), EKind::Tree) | (Node::Blob, EKind::Blob) | (Node::Commit(_), EKind::Commit)
            );
            if !ok {
                g.lying = true;
            }
        }
    }
    Some(g)
}

const MODES_BLOB: [&str; 3] = ["100644", "100755", "120000"];

/// the true object id and content of every node, bottom-up (children first); `None` content for fakes
fn materialize(g: &Graph) -> Option<Vec<(ObjectId, Option<(gix_object::Kind, Vec<u8>)>)>> {
    let n = g.nodes.len();
    let mut out: Vec<Option<(ObjectId, Option<(gix_object::Kind, Vec<u8>)>)>> = vec![None; n];
    fn go(
        g: &Graph,
        i: usize,
        out: &mut Vec<Option<(ObjectId, Option<(gix_object::Kind, Vec<u8>)>)>>,
        depth: usize,
    ) -> Option<ObjectId> {
        if let Some((id, _)) = &out[i] {
            return Some(*id);
        }
        if depth > g.nodes.len() + 1 {
            return None; // cyclic index graph: impossible with real hashes
        }
        let (kind, data): (gix_object::Kind, Vec<u8>) = match &g.nodes[i] {
            Node::Blob => (gix_object::Kind::Blob, format!("blob {i}\n").into_bytes()),
            Node::Fake => {
                let id = gix_object::compute_hash(gix_hash::Kind::Sha1, gix_object::Kind::Blob, format!("fake {i}").as_bytes());
                out[i] = Some((id, None));
                return Some(id);
            }
            Node::Tree(es) => {
                let mut d = Vec::new();
                for (j, (k, m, c)) in es.iter().enumerate() {
                    let cid = go(g, *c, out, depth + 1)?;
                    let mode = match k {
                        EKind::Tree => "40000",
                        EKind::Blob => MODES_BLOB[*m as usize % 3],
                        EKind::Commit => "160000",
                    };
                    d.extend_from_slice(mode.as_bytes());
                    d.push(b' ');
                    d.extend_from_slice(format!("e{j:03}").as_bytes());
                    d.push(0);
                    d.extend_from_slice(cid.as_bytes());
                }
                (gix_object::Kind::Tree, d)
            }
            Node::Commit(t) => {
                let tid = go(g, *t, out, depth + 1)?;
                (
                    gix_object::Kind::Commit,
                    format!(
                        "tree {tid}\nauthor A U Thor <a@example.com> 1700000000 +0000\ncommitter A U Thor <a@example.com> 1700000000 +0000\n\ncommit {i}\n"
                    )
                    .into_bytes(),
                )
            }
        };
        let id = gix_object::compute_hash(gix_hash::Kind::Sha1, kind, &data);
        out[i] = Some((id, Some((kind, data))));
        Some(id)
    }
    for i in 0..n {
        go(g, i, &mut out, 0)?;
    }
    out.into_iter().collect()
}

/// an object database in memory: what `Connectivity` is generic over (`Find + Exists`)
struct MemDb {
    objs: HashMap<ObjectId, (gix_object::Kind, Vec<u8>)>,
}

impl gix_object::Find for MemDb {
    fn try_find<'a>(
        &self,
        id: &gix_hash::oid,
        buffer: &'a mut Vec<u8>,
    ) -> Result<Option<gix_object::Data<'a>>, gix_object::find::Error> {
        match self.objs.get(id) {
            None => Ok(None),
            Some((kind, data)) => {
                buffer.clear();
                buffer.extend_from_slice(data);
                Ok(Some(gix_object::Data { kind: *kind, data: buffer }))
            }
        }
    }
}

impl gix_object::Exists for MemDb {
    fn exists(&self, id: &gix_hash::oid) -> bool {
        self.objs.contains_key(id)
    }
}

fn run_connectivity<T: gix_object::Find + gix_object::Exists>(
    db: T,
    ids: &[ObjectId],
) -> (Vec<&'static str>, Vec<(ObjectId, gix_object::Kind)>) {
    let mut cbs: Vec<(ObjectId, gix_object::Kind)> = Vec::new();
    let mut results: Vec<&'static str> = Vec::new();
    {
        let mut check = gix_fsck::Connectivity::new(db, |id: &ObjectId, k: gix_object::Kind| cbs.push((*id, k)));
        for id in ids {
            let r = catch(|| check.check_commit(id));
            results.push(match r {
                Ok(Ok(())) => "ok",
                Ok(Err(_)) => "err",
                Err(_) => "panic",
            });
        }
    }
    (results, cbs)
}

static mut T_WRITE: u64 = 0;
static mut T_CHECK: u64 = 0;
static mut T_GIT: u64 = 0;

struct Repo {
    _scratch: Scratch,
    git_dir: PathBuf,
}

impl Repo {
    fn new() -> Repo {
        let scratch = Scratch::new("c54");
        let git_dir = scratch.join("repo.git");
        git_ok(&scratch.path, &["init", "-q", "--bare", git_dir.to_str().unwrap()], None);
        Repo {
            _scratch: scratch,
            git_dir,
        }
    }
    fn objects(&self) -> PathBuf {
        self.git_dir.join("objects")
    }
    fn reset(&self) {
        let o = self.objects();
        if let Ok(rd) = std::fs::read_dir(&o) {
            for e in rd.flatten() {
                let name = e.file_name();
                let name = name.to_string_lossy();
                if name.len() == 2 {
                    let _ = std::fs::remove_dir_all(e.path());
                }
            }
        }
        let heads = self.git_dir.join("refs/heads");
        let _ = std::fs::remove_dir_all(&heads);
        std::fs::create_dir_all(&heads).unwrap();
    }
}

fn empty_tree() -> ObjectId {
    ObjectId::empty_tree(gix_hash::Kind::Sha1)
}

/// what must be reported: missing objects reachable from the checked present commits' trees
/// through present trees (following tree and blob entries, not submodule entries)
fn expected_missing(g: &Graph) -> (BTreeMap<usize, EKind>, BTreeSet<usize>) {
    let mut missing: BTreeMap<usize, EKind> = BTreeMap::new();
    let mut reach: BTreeSet<usize> = BTreeSet::new();
    let mut stack: Vec<(usize, EKind)> = Vec::new();
    for c in &g.check {
        if g.present[*c] {
            if let Node::Commit(t) = &g.nodes[*c] {
                stack.push((*t, EKind::Tree));
            }
        }
    }
    while let Some((x, k)) = stack.pop() {
        if !reach.insert(x) {
            continue;
        }
        if !g.present[x] {
            missing.insert(x, k);
            continue;
        }
        if let Node::Tree(es) = &g.nodes[x] {
            for (k, _, c) in es {
                if *k != EKind::Commit {
                    stack.push((*c, *k));
                }
            }
        }
    }
    (missing, reach)
}

fn run_case(rep: &mut Report, repo: &Repo, g: &Graph, use_git: bool, nontrivial: bool) {
    let op = op_line(g);
    let Some(mat) = materialize(g) else {
        rep.note("replay: cyclic object graph skipped");
        return;
    };
    // distinct indices must be distinct objects, else the abstract graph is not the real one
    let mut by_id: HashMap<ObjectId, usize> = HashMap::new();
    for (i, (id, _)) in mat.iter().enumerate() {
        if let Some(j) = by_id.insert(*id, i) {
            rep.note(&format!("generator: nodes {j} and {i} are the same object; case skipped"));
            return;
        }
    }
    // ---- the real code on an in-memory object database ------------------------------------------
    let t_c = std::time::Instant::now();
    let check_ids: Vec<ObjectId> = g.check.iter().map(|c| mat[*c].0).collect();
    let mem = MemDb {
        objs: mat
            .iter()
            .enumerate()
            .filter(|(i, _)| g.present[*i])
            .filter_map(|(_, (id, content))| content.as_ref().map(|(k, d)| (*id, (*k, d.clone()))))
            .collect(),
    };
    let (results, cbs) = run_connectivity(&mem, &check_ids);
    // ---- and, where git is asked too, on a loose-only repository through gix-odb ----------------
    if use_git {
        let t_w = std::time::Instant::now();
        repo.reset();
        let store = gix_odb::loose::Store::at(repo.objects(), gix_hash::Kind::Sha1);
        for (i, (id, content)) in mat.iter().enumerate() {
            if !g.present[i] {
                continue;
            }
            if let Some((kind, data)) = content {
                let wid = store.write_buf(*kind, data).expect("write loose object");
                assert_eq!(wid, *id);
            }
        }
        unsafe { T_WRITE += t_w.elapsed().as_micros() as u64 };
        let mut db = gix_odb::at(repo.objects()).expect("odb");
        db.refresh_never();
        let (results_odb, cbs_odb) = run_connectivity(db, &check_ids);
        rep.bucket("also-on-disk(gix-odb)");
        if results_odb != results || cbs_odb != cbs {
            rep.oracle_failure(
                &format!("odb-vs-memory graph [{}]", &op[5..]),
                &format!(
                    "the same graph gives different callbacks through gix-odb ({:?} {:?}) and through the in-memory database ({:?} {:?})",
                    results_odb, cbs_odb, results, cbs
                ),
                &op,
            );
        }
    }
    unsafe { T_CHECK += t_c.elapsed().as_micros() as u64 };
    let show = |id: &ObjectId, k: gix_object::Kind| {
        format!(
            "{}:{}",
            by_id.get(id).map(|i| i.to_string()).unwrap_or_else(|| format!("?{id}")),
            match k {
                gix_object::Kind::Tree => "tree",
                gix_object::Kind::Blob => "blob",
                gix_object::Kind::Commit => "commit",
                gix_object::Kind::Tag => "tag",
            }
        )
    };
    let obs = format!(
        "{}|{}",
        if results.is_empty() { "-".to_string() } else { results.join(",") },
        if cbs.is_empty() {
            "-".to_string()
        } else {
            cbs.iter().map(|(i, k)| show(i, *k)).collect::<Vec<_>>().join(",")
        }
    );
    rep.case(&op, &obs, nontrivial);

    // ---- oracle 1: the property on the real code's callbacks ------------------------------------
    let n_missing_reach;
    {
        let (missing, reach) = expected_missing(g);
        n_missing_reach = missing.len();
        rep.bucket(match missing.len() {
            0 => "missing-reachable=0",
            1 => "missing-reachable=1",
            2..=4 => "missing-reachable=2..4",
            _ => "missing-reachable>=5",
        });
        if g.lying {
            rep.bucket("outside:entry-mode-disagrees-with-object-kind");
            rep.outside_domain(&format!("entry mode disagrees with object kind: {op} => {obs}"));
        } else {
            rep.oracle_checked();
            let key = format!("graph [{}]", &op[5..]);
            let mut got: BTreeMap<usize, EKind> = BTreeMap::new();
            let mut problem: Option<String> = None;
            for (id, k) in &cbs {
                match by_id.get(id) {
                    None => problem = Some(format!("callback for an id that is not in the graph: {id}")),
                    Some(i) => {
                        let k = match k {
                            gix_object::Kind::Tree => EKind::Tree,
                            gix_object::Kind::Blob => EKind::Blob,
                            _ => EKind::Commit,
                        };
                        if got.insert(*i, k).is_some() {
                            problem = Some(format!("object {i} reported more than once"));
                        }
                    }
                }
            }
            if problem.is_none() && got != missing {
                let extra: Vec<_> = got.keys().filter(|i| !missing.contains_key(i)).collect();
                let lacking: Vec<_> = missing.keys().filter(|i| !got.contains_key(i)).collect();
                let wrong_kind: Vec<_> = got.iter().filter(|(i, k)| missing.get(i).map_or(false, |m| m != *k)).collect();
                problem = Some(format!(
                    "reported {:?}; expected {:?}: not missing-and-reachable {:?}, not reported {:?}, wrong kind {:?}",
                    got, missing, extra, lacking, wrong_kind
                ));
            }
            if results.iter().any(|r| *r == "panic") {
                problem = Some("check_commit panicked".into());
            }
            for (c, r) in g.check.iter().zip(results.iter()) {
                let is_commit = g.present[*c] && matches!(g.nodes[*c], Node::Commit(_));
                if is_commit && *r != "ok" {
                    problem = Some(format!("check_commit({c}) failed for a present commit"));
                }
            }
            if let Some(p) = problem {
                if rep.failures.len() < 10 {
                    rep.oracle_failure(&key, &p, &op);
                }
            }

            // ---- oracle 2: git fsck --connectivity-only ---------------------------------------
            let all_commits_ok = g
                .check
                .iter()
                .all(|c| g.present[*c] && matches!(g.nodes[*c], Node::Commit(_)));
            if use_git && all_commits_ok && !g.check.is_empty() {
                for (k, c) in g.check.iter().enumerate() {
                    std::fs::write(repo.git_dir.join(format!("refs/heads/c{k}")), format!("{}\n", mat[*c].0)).unwrap();
                }
                let t_g = std::time::Instant::now();
                let out = git(&repo.git_dir, &["fsck", "--connectivity-only", "--no-dangling"], None);
                unsafe { T_GIT += t_g.elapsed().as_micros() as u64 };
                rep.git_checked(1);
                let text = String::from_utf8_lossy(&out.stdout).to_string() + &String::from_utf8_lossy(&out.stderr);
                let mut git_missing: BTreeMap<usize, EKind> = BTreeMap::new();
                let mut unknown = Vec::new();
                for line in text.lines() {
                    if let Some(rest) = line.strip_prefix("missing ") {
                        let mut it = rest.split(' ');
                        let (Some(kind), Some(hexid)) = (it.next(), it.next()) else { continue };
                        let Ok(id) = ObjectId::from_hex(hexid.as_bytes()) else { continue };
                        let k = match kind {
                            "tree" => EKind::Tree,
                            "blob" => EKind::Blob,
                            _ => EKind::Commit,
                        };
                        match by_id.get(&id) {
                            Some(i) => {
                                git_missing.insert(*i, k);
                            }
                            None => unknown.push(hexid.to_string()),
                        }
                    }
                }
                // (git 2.39 has no special case for the empty tree here: when it is absent and
                // referenced, `git fsck --connectivity-only` says "missing tree 4b825dc…" too)
                let expected_git: BTreeMap<usize, EKind> = missing.clone();
                if missing.keys().any(|i| mat[*i].0 == empty_tree()) {
                    rep.bucket("empty-tree-missing");
                }
                let git_on_reach: BTreeMap<usize, EKind> = git_missing
                    .iter()
                    .filter(|(i, _)| reach.contains(i))
                    .map(|(i, k)| (*i, *k))
                    .collect();
                let got_git: BTreeMap<usize, EKind> = got.clone();
                if rep.failures.len() >= 10 {
                    // enough witnesses
                } else if git_on_reach != expected_git || !unknown.is_empty() {
                    rep.oracle_failure(
                        &format!("harness-vs-git {key}"),
                        &format!(
                            "the harness' own reachability computation disagrees with git fsck: git {:?} (unknown ids {:?}), harness {:?}; fsck said: {}",
                            git_on_reach,
                            unknown,
                            expected_git,
                            text.replace('\n', " / ")
                        ),
                        &op,
                    );
                } else if got_git != git_on_reach {
                    rep.oracle_failure(
                        &format!("vs-git {key}"),
                        &format!("git fsck reports {:?} missing, gitoxide reported {:?}", git_on_reach, got_git),
                        &op,
                    );
                }
            }
        }
    }
    rep.bucket(&format!("commits-checked={}", g.check.len().min(4)));
    if n_missing_reach > 0 && g.check.len() > 1 {
        rep.bucket("multi-commit-with-missing");
    }
}

/// pick a child with a bias to re-use (sharing between trees and between commits)
fn gen_graph(r: &mut Rng, lying_allowed: bool) -> Graph {
    let mut nodes: Vec<Node> = Vec::new();
    let n_blobs = 1 + r.usize(6);
    for _ in 0..n_blobs {
        nodes.push(Node::Blob);
    }
    let n_fake = r.usize(3);
    for _ in 0..n_fake {
        nodes.push(Node::Fake);
    }
    let mut blobs: Vec<usize> = (0..n_blobs).collect();
    let fakes: Vec<usize> = (n_blobs..n_blobs + n_fake).collect();
    let mut trees: Vec<usize> = Vec::new();
    let mut seen_shapes: BTreeSet<Vec<(u8, usize)>> = BTreeSet::new();
    let n_trees = 1 + r.usize(9);
    let mut lying = false;
    for _ in 0..n_trees {
        let len = match r.below(10) {
            0 => 0,
            1..=3 => 1 + r.usize(2),
            _ => 1 + r.usize(5),
        };
        let mut es = Vec::new();
        for _ in 0..len {
            let roll = r.below(100);
            if roll < 45 || trees.is_empty() {
                if roll < 3 && !fakes.is_empty() {
                    es.push((EKind::Commit, 0, *r.pick(&fakes)));
                } else {
                    es.push((EKind::Blob, r.below(3) as u8, *r.pick(&blobs)));
                }
            } else if roll < 90 {
                es.push((EKind::Tree, 0, *r.pick(&trees)));
            } else if roll < 95 && !fakes.is_empty() {
                es.push((EKind::Commit, 0, *r.pick(&fakes)));
            } else if lying_allowed && r.chance(1, 2) {
                lying = true;
                if r.chance(1, 2) {
                    es.push((EKind::Blob, 0, *r.pick(&trees)));
                } else {
                    es.push((EKind::Tree, 0, *r.pick(&blobs)));
                }
            } else {
                es.push((EKind::Blob, 0, *r.pick(&blobs)));
            }
        }
        let shape: Vec<(u8, usize)> = es.iter().map(|(k, m, c)| ((*k as u8) * 4 + *m, *c)).collect();
        if !seen_shapes.insert(shape) {
            continue;
        }
        nodes.push(Node::Tree(es));
        trees.push(nodes.len() - 1);
        // occasionally a fresh blob so that later trees differ
        if r.chance(1, 4) {
            nodes.push(Node::Blob);
            blobs.push(nodes.len() - 1);
        }
    }
    let n_commits = 1 + r.usize(4);
    let mut commits = Vec::new();
    for _ in 0..n_commits {
        // prefer the later (higher) trees as roots
        let t = if r.chance(2, 3) { trees[trees.len() - 1 - r.usize(trees.len().min(3))] } else { *r.pick(&trees) };
        nodes.push(Node::Commit(t));
        commits.push(nodes.len() - 1);
    }
    // a submodule entry may also name a commit of this very repository
    let n = nodes.len();
    let mut present = vec![true; n];
    for (i, nd) in nodes.iter().enumerate() {
        if matches!(nd, Node::Fake) {
            present[i] = false;
        }
    }
    let density = *r.pick(&[0u64, 0, 10, 20, 20, 35, 60]);
    for (i, nd) in nodes.iter().enumerate() {
        if matches!(nd, Node::Blob | Node::Tree(_)) && r.below(100) < density {
            present[i] = false;
        }
    }
    let mut check = commits.clone();
    r.shuffle(&mut check);
    if r.chance(1, 5) {
        // the same commit twice: the second call must be a no-op
        let c = *r.pick(&commits);
        check.push(c);
    }
    if r.chance(1, 6) {
        check.truncate(1 + r.usize(check.len()));
    }
    if r.chance(1, 25) {
        // a missing commit (check_commit must fail, and still be usable afterwards)
        let c = *r.pick(&commits);
        present[c] = false;
    }
    Graph {
        nodes,
        present,
        check,
        lying,
    }
}

fn corpus() -> Vec<Graph> {
    let t = |es: Vec<(EKind, usize)>| Node::Tree(es.into_iter().map(|(k, c)| (k, 0u8, c)).collect());
    let mk = |nodes: Vec<Node>, absent: &[usize], check: Vec<usize>| {
        let mut present = vec![true; nodes.len()];
        for (i, n) in nodes.iter().enumerate() {
            if matches!(n, Node::Fake) {
                present[i] = false;
            }
        }
        for a in absent {
            present[*a] = false;
        }
        Graph {
            nodes,
            present,
            check,
            lying: false,
        }
    };
    use EKind::*;
    let mut v = Vec::new();
    // 0 blob, 1 blob, 2 tree{b0}, 3 tree{b0,b1,t2}, 4 commit→3, 5 commit→2
    let base = vec![Node::Blob, Node::Blob, t(vec![(Blob, 0)]), t(vec![(Blob, 0), (Blob, 1), (Tree, 2)]), Node::Commit(3), Node::Commit(2)];
    for absent in [vec![], vec![0], vec![1], vec![2], vec![3], vec![0, 1], vec![0, 2], vec![2, 1], vec![0, 1, 2, 3]] {
        for check in [vec![4], vec![5], vec![4, 5], vec![5, 4], vec![4, 4]] {
            v.push(mk(base.clone(), &absent, check));
        }
    }
    // the same blob twice in one tree and again in a subtree; the same subtree twice
    let dup = vec![Node::Blob, t(vec![(Blob, 0), (Blob, 0)]), t(vec![(Tree, 1), (Blob, 0), (Tree, 1)]), Node::Commit(2)];
    for absent in [vec![], vec![0], vec![1], vec![0, 1]] {
        v.push(mk(dup.clone(), &absent, vec![3]));
    }
    // submodule entries (to a fake id and to a commit of this repository) are never followed or reported
    let sub = vec![Node::Fake, Node::Blob, t(vec![(Commit, 0), (Blob, 1), (Commit, 5)]), Node::Commit(2), t(vec![(Blob, 1)]), Node::Commit(4)];
    for absent in [vec![], vec![1], vec![5], vec![4]] {
        v.push(mk(sub.clone(), &absent, vec![3]));
    }
    // the empty tree as root, present and absent; a missing commit
    let empty = vec![t(vec![]), Node::Commit(0), Node::Blob, t(vec![(Tree, 0), (Blob, 2)]), Node::Commit(3)];
    for absent in [vec![], vec![0], vec![1], vec![0, 2]] {
        v.push(mk(empty.clone(), &absent, vec![1, 4]));
    }
    // a deep chain with the middle tree missing: what is below is not reported
    let chain = vec![Node::Blob, t(vec![(Blob, 0)]), t(vec![(Tree, 1)]), t(vec![(Tree, 2)]), Node::Commit(3), Node::Commit(1)];
    for absent in [vec![0], vec![2], vec![2, 0], vec![1, 0]] {
        for check in [vec![4], vec![4, 5], vec![5, 4]] {
            v.push(mk(chain.clone(), &absent, check));
        }
    }
    v
}

fn main() {
    let args = Args::parse();
    let mut rep = Report::new("C54", &args);
    let mut r = Rng::new(args.seed);
    let repo = Repo::new();
    if let Some(ops) = replay_ops(&args) {
        for op in ops {
            match parse_op(&op) {
                Some(g) => run_case(&mut rep, &repo, &g, true, true),
                None => rep.note(&format!("replay: cannot parse {op}")),
            }
        }
        rep.finish();
        return;
    }
    for (i, g) in corpus().iter().enumerate() {
        run_case(&mut rep, &repo, g, args.thorough || i % 4 == 0, true);
    }
    let n = args.budget(4_000, 80_000);
    // spawning git and writing a repository is the slow part: ~30 random cases (+ a quarter of the corpus) in the quick tier
    let git_every = if args.thorough { 160 } else { 130 };
    let t0 = std::time::Instant::now();
    for i in 0..n {
        let g = gen_graph(&mut r, i % 10 == 9);
        run_case(&mut rep, &repo, &g, i % git_every == 0, true);
    }
    if std::env::var_os("C54_TIMING").is_some() {
        eprintln!("random cases: {:?}", t0.elapsed());
        unsafe { eprintln!("write {} ms, check {} ms, git {} ms", T_WRITE / 1000, T_CHECK / 1000, T_GIT / 1000) };
    }
    rep.finish();
}
