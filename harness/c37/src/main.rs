//! C37 — ignore decisions: real `gix_worktree::Stack::at_entry().matching_exclude_pattern()` and
//! `gix_ignore::parse` vs the Lean model, vs `git check-ignore -v -n --no-index -z --stdin`.
use gix_worktree::stack::state::ignore::Source;
use hcommon::*;
use std::collections::BTreeMap;
use std::os::unix::ffi::OsStrExt;
use std::path::Path;

/// one scenario: ignore files by directory ("" = root), info/exclude, core.excludesFile, and a tree
#[derive(Clone, Debug, Default)]
pub struct Scenario {
    /// directory (no trailing slash, "" = worktree root) -> content of its .gitignore
    pub per_dir: BTreeMap<Vec<u8>, Vec<u8>>,
    pub info_exclude: Option<Vec<u8>>,
    pub excludes_file: Option<Vec<u8>>,
    /// (path, is_dir); every directory of the tree is listed
    pub nodes: Vec<(Vec<u8>, bool)>,
    /// paths that do not exist on disk
    pub ghosts: Vec<Vec<u8>>,
}

pub fn lossy(b: &[u8]) -> String {
    String::from_utf8_lossy(b).replace('\t', "\\t").replace('\n', "\\n").replace('\r', "\\r")
}

fn os(b: &[u8]) -> &std::ffi::OsStr {
    std::ffi::OsStr::from_bytes(b)
}

pub fn materialise(root: &Path, sc: &Scenario) {
    // keep .git, wipe the rest of the worktree
    if !root.join(".git").is_dir() {
        std::fs::create_dir_all(root).unwrap();
        git_ok(root, &["init", "-q", "."], None);
    }
    for e in std::fs::read_dir(root).unwrap().flatten() {
        if e.file_name() == ".git" {
            continue;
        }
        let p = e.path();
        if p.is_dir() {
            std::fs::remove_dir_all(&p).unwrap();
        } else {
            std::fs::remove_file(&p).unwrap();
        }
    }
    let _ = std::fs::remove_file(root.join(".git/xf"));
    let mut nodes = sc.nodes.clone();
    nodes.sort();
    for (p, is_dir) in &nodes {
        let full = root.join(os(p));
        if *is_dir {
            std::fs::create_dir_all(&full).unwrap();
        } else {
            if let Some(parent) = full.parent() {
                std::fs::create_dir_all(parent).unwrap();
            }
            std::fs::write(&full, b"").unwrap();
        }
    }
    for (d, content) in &sc.per_dir {
        let dir = if d.is_empty() { root.to_path_buf() } else { root.join(os(d)) };
        std::fs::create_dir_all(&dir).unwrap();
        std::fs::write(dir.join(".gitignore"), content).unwrap();
    }
    if let Some(c) = &sc.info_exclude {
        std::fs::create_dir_all(root.join(".git/info")).unwrap();
        std::fs::write(root.join(".git/info/exclude"), c).unwrap();
    } else {
        let _ = std::fs::remove_file(root.join(".git/info/exclude"));
    }
    if let Some(c) = &sc.excludes_file {
        std::fs::write(root.join(".git/xf"), c).unwrap();
    }
}

/// what one side says about one path: None or (source relative to the root, line, negative)
pub type Verdict = Option<(String, usize, bool)>;

pub fn canon_source(s: &str) -> String {
    if s == ".git/xf" {
        "xf".into()
    } else if s == ".git/info/exclude" {
        "info".into()
    } else if s == ".gitignore" {
        "dir:-".into()
    } else if let Some(d) = s.strip_suffix("/.gitignore") {
        format!("dir:{}", hex(d.as_bytes()))
    } else {
        format!("?{s}")
    }
}

pub fn verdict_str(v: &Verdict) -> String {
    match v {
        None => "none".into(),
        Some((s, l, n)) => format!("{} {l} {}", canon_source(s), if *n { "neg" } else { "pos" }),
    }
}

pub fn git_verdicts(root: &Path, sc: &Scenario, icase: bool, queries: &[(Vec<u8>, bool)]) -> Option<Vec<Verdict>> {
    let mut stdin = Vec::new();
    for (p, _) in queries {
        stdin.extend_from_slice(p);
        stdin.push(0);
    }
    let mut c = git_cmd(root);
    c.args(["-c", if icase { "core.ignorecase=true" } else { "core.ignorecase=false" }]);
    if sc.excludes_file.is_some() {
        c.args(["-c", "core.excludesFile=.git/xf"]);
    } else {
        c.args(["-c", "core.excludesFile="]);
    }
    c.args(["check-ignore", "-v", "-n", "--no-index", "-z", "--stdin"]);
    use std::io::Write;
    use std::process::Stdio;
    c.stdin(Stdio::piped()).stdout(Stdio::piped()).stderr(Stdio::piped());
    let mut child = c.spawn().expect("spawn git");
    let mut si = child.stdin.take().unwrap();
    let th = std::thread::spawn(move || {
        let _ = si.write_all(&stdin);
    });
    let out = child.wait_with_output().expect("wait");
    let _ = th.join();
    if out.status.code().map_or(true, |c| c > 1) {
        eprintln!("git check-ignore failed: {}", String::from_utf8_lossy(&out.stderr));
        return None;
    }
    let fields: Vec<&[u8]> = out.stdout.split(|c| *c == 0).collect();
    let mut res = Vec::new();
    for rec in fields.chunks(4) {
        if let [src, line, pat, _path] = rec {
            if src.is_empty() && line.is_empty() {
                res.push(None);
            } else {
                res.push(Some((
                    String::from_utf8_lossy(src).to_string(),
                    std::str::from_utf8(line).ok()?.parse().ok()?,
                    pat.first() == Some(&b'!'),
                )));
            }
        }
    }
    if res.len() != queries.len() {
        eprintln!("git answered {} of {} paths", res.len(), queries.len());
        return None;
    }
    Some(res)
}

/// `fresh`: a new `Stack` for every path (what the model describes); otherwise one stack for all paths in the given order
pub fn gix_verdicts(root: &Path, sc: &Scenario, icase: bool, queries: &[(Vec<u8>, bool)], fresh: bool) -> Vec<Result<Verdict, String>> {
    if fresh {
        return queries
            .iter()
            .flat_map(|q| gix_verdicts(root, sc, icase, std::slice::from_ref(q), false))
            .collect();
    }
    let mut buf = Vec::new();
    let globals = gix_ignore::Search::from_git_dir(
        &root.join(".git"),
        sc.excludes_file.as_ref().map(|_| root.join(".git/xf")),
        &mut buf,
    )
    .expect("read global excludes");
    let ignore = gix_worktree::stack::state::Ignore::new(Default::default(), globals, None, Source::WorktreeThenIdMappingIfNotSkipped);
    let case = if icase { gix_glob::pattern::Case::Fold } else { gix_glob::pattern::Case::Sensitive };
    let mut stack = gix_worktree::Stack::new(root, gix_worktree::stack::State::IgnoreStack(ignore), case, Vec::new(), Vec::new());
    let mut res = Vec::new();
    for (p, is_dir) in queries {
        let mode = if *is_dir { gix_index::entry::Mode::DIR } else { gix_index::entry::Mode::FILE };
        let r = catch(|| {
            let platform = stack
                .at_entry(bstr(p), Some(mode), &gix_object::find::Never)
                .map_err(|e| e.to_string())?;
            Ok::<_, String>(platform.matching_exclude_pattern().map(|m| {
                let src = m
                    .source
                    .map(|s| s.strip_prefix(root).unwrap_or(s).to_string_lossy().to_string())
                    .unwrap_or_else(|| "<none>".into());
                (src, m.sequence_number, m.pattern.is_negative())
            }))
        });
        res.push(match r {
            Err(p) => Err(format!("panic: {p}")),
            Ok(Err(e)) => Err(format!("err: {e}")),
            Ok(Ok(v)) => Ok(v),
        });
    }
    res
}

fn bstr(b: &[u8]) -> &gix_object::bstr::BStr {
    b.into()
}

const DIRN: &[&str] = &["a", "b", "c", "A", "d"];
const FILEN: &[&str] = &["f", "g", "x.o", "y.o", "a", "b", "A", "F", "#h", "!i", "$p", "d e", "t ", "q\\", "[k]", "*s"];

fn gen_tree(r: &mut Rng) -> (Vec<(Vec<u8>, bool)>, Vec<Vec<u8>>) {
    let mut dirs: Vec<Vec<u8>> = vec![vec![]];
    let nd = 1 + r.usize(5);
    for _ in 0..nd {
        let parent = r.pick(&dirs).clone();
        if parent.iter().filter(|c| **c == b'/').count() >= 2 {
            continue;
        }
        let mut d = parent.clone();
        if !d.is_empty() {
            d.push(b'/');
        }
        d.extend_from_slice(r.pick(DIRN).as_bytes());
        if !dirs.contains(&d) {
            dirs.push(d);
        }
    }
    let mut nodes: Vec<(Vec<u8>, bool)> = dirs.iter().filter(|d| !d.is_empty()).map(|d| (d.clone(), true)).collect();
    let mut ghosts = Vec::new();
    for d in &dirs {
        let nf = 1 + r.usize(3);
        for _ in 0..nf {
            let mut p = d.clone();
            if !p.is_empty() {
                p.push(b'/');
            }
            p.extend_from_slice(r.pick(FILEN).as_bytes());
            // never both a file and a directory, compare case-insensitively to stay clear of surprises
            if nodes.iter().any(|(q, _)| q.eq_ignore_ascii_case(&p)) {
                continue;
            }
            if r.chance(1, 8) {
                ghosts.push(p);
            } else {
                nodes.push((p, false));
            }
        }
    }
    (nodes, ghosts)
}

fn gen_pattern_core(r: &mut Rng) -> Vec<u8> {
    let n = |r: &mut Rng| -> &'static str {
        if r.chance(1, 2) {
            *r.pick(DIRN)
        } else {
            *r.pick(FILEN)
        }
    };
    match r.below(24) {
        0..=5 => n(r).as_bytes().to_vec(),
        6 => b"*".to_vec(),
        7 => b"*.o".to_vec(),
        8 => format!("{}/{}", r.pick(DIRN), n(r)).into_bytes(),
        9 => format!("{}/*", r.pick(DIRN)).into_bytes(),
        10 => format!("*/{}", n(r)).into_bytes(),
        11 => format!("**/{}", n(r)).into_bytes(),
        12 => format!("{}/**", r.pick(DIRN)).into_bytes(),
        13 => format!("{}/**/{}", r.pick(DIRN), n(r)).into_bytes(),
        14 => format!("{}/**/{}", r.pick(DIRN), n(r)).into_bytes(),
        15 => b"?".to_vec(),
        16 => b"[a-c]".to_vec(),
        17 => format!("{}*", &n(r)[..1]).into_bytes(),
        18 => b"**".to_vec(),
        19 => format!("{}/{}/{}", r.pick(DIRN), r.pick(DIRN), n(r)).into_bytes(),
        20 => b"*/".to_vec(),
        21 => format!("{}/", r.pick(DIRN)).into_bytes(),
        22 => b"*/*".to_vec(),
        _ => {
            let mut v = r.over(b"ab*?/[]!\\ .o", 5);
            // the literal-prefix-then-`**` quirk of git only in scenarios marked for it
            while let Some(k) = v.windows(3).position(|w| w[1] == b'*' && w[2] == b'*' && !matches!(w[0], b'/' | b'*')) {
                v.remove(k + 1);
            }
            if v.first() == Some(&b'$') {
                v.remove(0);
            }
            if v.is_empty() || v.iter().all(|c| *c == b' ') {
                v = b"a".to_vec();
            }
            v
        }
    }
}

/// which of the known deviations a scenario is allowed to touch
#[derive(Clone, Copy, Default, Debug)]
pub struct Spice {
    pub dollar: bool,
    pub lit_doublestar: bool,
    pub tab_line: bool,
}

fn gen_line(r: &mut Rng, sp: Spice) -> Vec<u8> {
    let mut l = Vec::new();
    if sp.dollar && r.chance(1, 3) {
        l.extend_from_slice(*r.pick(&[&b"$"[..], b"\\$", b"!$"]));
    }
    if sp.tab_line && r.chance(1, 3) {
        return r.pick(&[&b"\t"[..], b" \t", b"\t ", b"\x0c"]).to_vec();
    }
    if sp.lit_doublestar && r.chance(1, 2) {
        l.extend_from_slice(format!("{}**/{}", r.pick(DIRN), r.pick(FILEN)).as_bytes());
        return l;
    }
    match r.below(16) {
        0..=2 => l.push(b'!'),
        3 => l.push(b'/'),
        4 => l.extend_from_slice(b"!/"),
        5 => l.extend_from_slice(b"\\"),
        6 => l.push(b'#'),
        _ => {}
    }
    l.extend(gen_pattern_core(r));
    match r.below(16) {
        0..=2 => l.push(b'/'),
        3 => l.extend_from_slice(b" "),
        4 => l.extend_from_slice(b"  "),
        5 => l.extend_from_slice(b"\\ "),
        6 => l.extend_from_slice(b"\\  "),
        8 if r.chance(1, 3) => l.push(b'\\'),
        9 if r.chance(1, 2) => l.extend_from_slice(b"/ "),
        _ => {}
    }
    l
}

fn gen_file(r: &mut Rng, sp: Spice) -> Vec<u8> {
    let mut f = Vec::new();
    if r.chance(1, 20) {
        f.extend_from_slice(b"\xef\xbb\xbf");
    }
    let n = r.usize(5);
    for i in 0..n {
        if r.chance(1, 10) {
            f.push(b'\n');
        }
        f.extend(gen_line(r, sp));
        if i + 1 < n || r.chance(3, 4) {
            if r.chance(1, 10) {
                f.push(b'\r');
            }
            f.push(b'\n');
        }
    }
    f
}

fn gen_scenario(r: &mut Rng) -> Scenario {
    let sp = Spice {
        dollar: r.chance(1, 20),
        lit_doublestar: r.chance(1, 20),
        tab_line: r.chance(1, 25),
    };
    let (nodes, ghosts) = gen_tree(r);
    let mut sc = Scenario {
        nodes,
        ghosts,
        ..Default::default()
    };
    let dirs: Vec<Vec<u8>> = std::iter::once(vec![])
        .chain(sc.nodes.iter().filter(|(_, d)| *d).map(|(p, _)| p.clone()))
        .collect();
    for d in &dirs {
        if r.chance(if d.is_empty() { 4 } else { 2 }, 5) {
            sc.per_dir.insert(d.clone(), gen_file(r, sp));
        }
    }
    if r.chance(1, 3) {
        sc.info_exclude = Some(gen_file(r, sp));
    }
    if r.chance(1, 4) {
        sc.excludes_file = Some(gen_file(r, sp));
    }
    sc
}

fn sc(per_dir: &[(&str, &str)], info: Option<&str>, xf: Option<&str>, nodes: &[(&str, bool)]) -> Scenario {
    Scenario {
        per_dir: per_dir.iter().map(|(d, c)| (d.as_bytes().to_vec(), c.as_bytes().to_vec())).collect(),
        info_exclude: info.map(|s| s.as_bytes().to_vec()),
        excludes_file: xf.map(|s| s.as_bytes().to_vec()),
        nodes: nodes.iter().map(|(p, d)| (p.as_bytes().to_vec(), *d)).collect(),
        ghosts: vec![],
    }
}

/// boundary scenarios, run first
fn corpus() -> Vec<Scenario> {
    vec![
        // a file below an excluded directory cannot be re-included, also not through a negated sub-directory
        sc(&[("", "a/\n!b/\n")], None, None, &[("a", true), ("a/b", true), ("a/b/f", false), ("a/f", false)]),
        sc(&[("", "a/\n"), ("a", "!b/\n!f\n")], None, None, &[("a", true), ("a/b", true), ("a/b/f", false), ("a/f", false)]),
        // two excluded directories on the way: git reports the top-most, gitoxide the deepest (known finding, Props.C37.pattern_identity_differs)
        sc(&[("", "a/\nb/\n")], None, None, &[("a", true), ("a/b", true), ("a/b/f", false)]),
        // last line without newline, CRLF line ends
        sc(&[("", "f\r\ng")], None, None, &[("f", false), ("g", false), ("f\r", false)]),
        // whitelisting
        sc(&[("", "*\n!f\n!a/\n")], None, None, &[("a", true), ("a/f", false), ("f", false), ("g", false)]),
        sc(&[], Some("*\n!f\n"), None, &[("a", true), ("a/f", false), ("f", false), ("g", false)]),
        sc(&[], Some("**/\n"), Some("*/\n"), &[("a", true), ("a/f", false), ("f", false)]),
        // precedence: deeper file wins, info/exclude over excludesFile
        sc(&[("", "f\n"), ("a", "!f\n")], Some("!g\n"), Some("g\n"), &[("a", true), ("a/f", false), ("f", false), ("g", false), ("a/g", false)]),
        // anchoring and directory-only
        sc(&[("", "/f\nb/\n/a/g\n")], None, None, &[("a", true), ("a/f", false), ("f", false), ("a/g", false), ("b", false), ("a/b", true), ("a/b/x.o", false)]),
        // the literal-prefix quirk of git's match_pathname
        sc(&[("", "a**/f\n")], None, None, &[("ax", true), ("ax/y", true), ("ax/y/f", false), ("a", true), ("a/f", false)]),
        // escapes, comments, trailing spaces
        sc(&[("", "\\#h\n\\!i\n#f\nt\\ \nf   \n")], None, None, &[("#h", false), ("!i", false), ("f", false), ("t ", false), ("t", false)]),
        // blank-ish lines
        sc(&[("", "\t\n \t\nf\r\n\r\n")], None, None, &[("\t", false), (" \t", false), ("f", false), ("\r", false)]),
        // precious syntax of gitoxide vs a literal dollar in git
        sc(&[("", "$p\n")], None, None, &[("$p", false), ("p", false)]),
    ]
}


fn scenario_op(kind: &str, sc: &Scenario, icase: bool, path: &[u8], is_dir: bool) -> String {
    let mut s = format!(
        "{kind} {} {} {} {}",
        icase as u8,
        sc.excludes_file.as_ref().map_or("none".to_string(), |c| hex(c)),
        sc.info_exclude.as_ref().map_or("none".to_string(), |c| hex(c)),
        sc.per_dir.len()
    );
    for (d, c) in &sc.per_dir {
        s.push_str(&format!(" {} {}", hex(d), hex(c)));
    }
    s.push_str(&format!(" {} {}", hex(path), is_dir as u8));
    s
}

fn all_lines(sc: &Scenario) -> Vec<Vec<u8>> {
    sc.per_dir
        .values()
        .chain(sc.info_exclude.iter())
        .chain(sc.excludes_file.iter())
        .flat_map(|c| {
            let c = c.strip_prefix(b"\xef\xbb\xbf").unwrap_or(c);
            c.split(|b| *b == b'\n').map(|l| l.to_vec()).collect::<Vec<_>>()
        })
        .collect()
}

/// the known deviations a scenario touches (see known-findings.txt)
fn known_key(sc: &Scenario, icase: bool, class: &str, depth: usize) -> Option<&'static str> {
    let lines = all_lines(sc);
    if lines.iter().any(|l| l.starts_with(b"$") || l.starts_with(b"\\$") || l.starts_with(b"!$")) {
        return Some(K_DOLLAR);
    }
    if lines.iter().any(|l| l.windows(3).any(|w| w[1] == b'*' && w[2] == b'*' && !matches!(w[0], b'/' | b'*' | b'!' | b'\\'))) {
        return Some(K_LIT_DOUBLESTAR);
    }
    if lines.iter().any(|l| {
        let l = l.strip_suffix(b"\r").unwrap_or(l);
        !l.is_empty() && l.iter().all(|c| c.is_ascii_whitespace()) && l.iter().any(|c| *c != b' ')
    }) {
        return Some(K_BLANK);
    }
    if icase && lines.iter().any(|l| l.contains(&b'[') || l.windows(2).any(|w| w[0] == b'\\' && w[1].is_ascii_uppercase())) {
        return Some(K_ICASE);
    }
    if class.starts_with("B:") && depth >= 1 {
        return Some(K_DEEPEST);
    }
    None
}

pub const K_DOLLAR: &str = "precious: a line starting with `$` (or `\\$`, `!$`) is gitoxide's precious-file syntax, a literal for git";
pub const K_LIT_DOUBLESTAR: &str = "git quirk: `**` directly behind a literal prefix (`a**/f`) is treated by git like a leading `**/` because match_pathname strips the literal prefix";
pub const K_BLANK: &str = "a line of blanks other than spaces (TAB, FF) is a pattern for git, skipped by gitoxide";
pub const K_ICASE: &str = "icase: pattern bytes inside brackets and after a backslash are case-folded (git reads them as written)";
pub const K_DEEPEST: &str = "which pattern: below several excluded directories gitoxide reports the deepest matching directory pattern, git the top-most";

fn main() {
    let args = Args::parse();
    let mut rep = Report::new("C37", &args);
    let mut r = Rng::new(args.seed);
    let scratch = Scratch::new("c37");
    let root = scratch.join("wt");

    // single lines through gix_ignore::parse
    let mut lines: Vec<Vec<u8>> = [
        &b"a"[..], b"!a", b"\\!a", b"\\#a", b"#a", b"/a", b"a/", b"/a/", b"!/a/", b"a  ", b"a\\ ", b"a\\  ", b"a \\", b"\\", b" ", b"   ",
        b"\t", b"!", b"!!", b"/", b"//", b"$a", b"\\$a", b"!$a", b"$!a", b"$", b"*.o", b"*", b"**/a", b"a/**", b"a**/b", b"a\\/b", b"a b", b"a\tb ", b"!\\!a", b"\\\\",
    ]
    .iter()
    .map(|l| l.to_vec())
    .collect();
    for _ in 0..args.budget(300, 5000) {
        lines.push(gen_line(&mut r, Spice { dollar: true, lit_doublestar: true, tab_line: true }));
        lines.push(r.over(b"a!#$\\/ *\t", 5));
    }
    for l in &lines {
        if l.contains(&b'\n') || l.ends_with(b"\r") {
            continue;
        }
        let obs = match catch(|| gix_ignore::parse(l).next()) {
            Err(_) => "panic".to_string(),
            Ok(None) => "none".to_string(),
            Ok(Some((p, _line, kind))) => format!(
                "{} {} {} {}",
                hex(p.text.as_ref()),
                p.mode.bits(),
                p.first_wildcard_pos.map_or("none".to_string(), |n| n.to_string()),
                if kind == gix_ignore::Kind::Precious { "precious" } else { "expendable" }
            ),
        };
        rep.case(&format!("line {}", hex(l)), &obs, true);
    }

    let replay: Option<Vec<String>> = replay_ops(&args);
    let fixed = corpus();
    let n = if replay.is_some() { 0 } else { args.budget(30, 600) as usize + fixed.len() };
    let mut scenarios: Vec<Scenario> = Vec::new();
    if let Some(ops) = &replay {
        // a replay line is an `ign`/`gitign` op: rebuild the scenario and ask about its path
        for op in ops {
            if let Some(sc) = scenario_from_op(op) {
                scenarios.push(sc);
            }
        }
    }
    for i in 0..n {
        scenarios.push(if i < fixed.len() { fixed[i].clone() } else { gen_scenario(&mut r) });
    }
    for (i, sc) in scenarios.iter().enumerate() {
        materialise(&root, sc);
        let mut queries: Vec<(Vec<u8>, bool)> = sc.nodes.clone();
        queries.extend(sc.ghosts.iter().map(|g| (g.clone(), false)));
        r.shuffle(&mut queries);
        rep.bucket(&format!("files:{}", sc.per_dir.len() + sc.info_exclude.is_some() as usize + sc.excludes_file.is_some() as usize));
        for icase in [false, true] {
            let Some(g) = git_verdicts(&root, sc, icase, &queries) else {
                rep.note(&format!("scenario {i}: git check-ignore did not answer"));
                continue;
            };
            let x = gix_verdicts(&root, sc, icase, &queries, true);
            // the same paths on ONE stack in shuffled order: the answer must not depend on the history
            let shared = gix_verdicts(&root, sc, icase, &queries, false);
            for ((q, fresh), sh) in queries.iter().zip(&x).zip(&shared) {
                rep.oracle_checked();
                if fresh != sh {
                    let both_excluded = matches!((fresh, sh), (Ok(Some((_, _, false))), Ok(Some((_, _, false)))));
                    let vs = |v: &Result<Verdict, String>| match v {
                        Ok(v) => verdict_str(v),
                        Err(e) => e.clone(),
                    };
                    let detail = format!(
                        "path {:?} (dir={}) ignorecase={icase}: a fresh Stack says [{}], a Stack that was asked about other paths before says [{}]; files: {:?} info/exclude={:?} excludesFile={:?}",
                        lossy(&q.0), q.1, vs(fresh), vs(sh),
                        sc.per_dir.iter().map(|(k, v)| (lossy(k), lossy(v))).collect::<Vec<_>>(),
                        sc.info_exclude.as_ref().map(|v| lossy(v)),
                        sc.excludes_file.as_ref().map(|v| lossy(v)),
                    );
                    let op = scenario_op("ign", sc, icase, &q.0, q.1);
                    rep.bucket(if both_excluded { "history:both-excluded-different-pattern" } else { "history:DECISION-DIFFERS" });
                    if both_excluded {
                        rep.oracle_failure(K_DEEPEST, &detail, &op);
                    } else {
                        rep.oracle_failure(&format!("history-dependent {op}"), &detail, &op);
                    }
                }
            }
            for ((q, gv), xv) in queries.iter().zip(&g).zip(&x) {
                let xs = match xv {
                    Ok(v) => verdict_str(v),
                    Err(e) => e.split(':').next().unwrap_or("err").to_string(),
                };
                let op = scenario_op("ign", sc, icase, &q.0, q.1);
                rep.case(&op, &xs, true);
                rep.case(&scenario_op("gitign", sc, icase, &q.0, q.1), &verdict_str(gv), false);
                rep.oracle_checked();
                rep.git_checked(1);
                rep.bucket(match gv {
                    None => "git:none",
                    Some((_, _, true)) => "git:negative",
                    Some(_) => "git:excluded",
                });
                let same = matches!(xv, Ok(v) if v == gv);
                if same {
                    continue;
                }
                let class = match (gv, xv) {
                    (_, Err(_)) => "ERR",
                    (None, Ok(Some((_, _, true)))) => "C:git-none/gix-negative-directory-fallback",
                    (Some((_, _, true)), Ok(None)) => "A:git-negative/gix-none",
                    (Some((_, _, gn)), Ok(Some((_, _, xn)))) if gn == xn && *gn => "A:different-negative",
                    (Some((_, _, gn)), Ok(Some((_, _, xn)))) if gn == xn => "B:both-excluded-different-pattern",
                    _ => "A:excluded-differs",
                };
                rep.bucket(class);
                if class.starts_with("C:") {
                    // documented by upstream (gix-worktree's own baseline test accepts it): when nothing else matches,
                    // a negative pattern that matched a parent directory is reported; the decision is the same
                    continue;
                }
                let depth = q.0.iter().filter(|c| **c == b'/').count();
                let detail = format!(
                    "path {:?} (dir={}) ignorecase={icase}: git check-ignore says [{}], Stack::at_entry().matching_exclude_pattern() says [{}]; files: {:?} info/exclude={:?} excludesFile={:?}",
                    lossy(&q.0),
                    q.1,
                    verdict_str(gv),
                    xs,
                    sc.per_dir.iter().map(|(k, v)| (lossy(k), lossy(v))).collect::<Vec<_>>(),
                    sc.info_exclude.as_ref().map(|v| lossy(v)),
                    sc.excludes_file.as_ref().map(|v| lossy(v)),
                );
                match known_key(sc, icase, class, depth) {
                    Some(k) => {
                        rep.bucket(&format!("known:{}:{}", &k[..k.find(':').unwrap_or(10)], &class[..1]));
                        if std::env::var_os("C37_SHOW").is_some() {
                            eprintln!("KNOWN {class} [{}] {detail}", &k[..12]);
                        }
                        rep.oracle_failure(k, &detail, &op)
                    }
                    None => rep.oracle_failure(&format!("ignore-differs {class} {op}"), &detail, &op),
                }
            }
        }
    }
    rep.finish();
}

fn scenario_from_op(op: &str) -> Option<Scenario> {
    let f: Vec<&str> = op.split(' ').collect();
    if f.len() < 7 || !(f[0] == "ign" || f[0] == "gitign") {
        return None;
    }
    let opt = |s: &str| if s == "none" { Some(None) } else { unhex(s).map(Some) };
    let mut sc = Scenario {
        excludes_file: opt(f[2])?,
        info_exclude: opt(f[3])?,
        ..Default::default()
    };
    let n: usize = f[4].parse().ok()?;
    for k in 0..n {
        sc.per_dir.insert(unhex(f.get(5 + 2 * k)?)?, unhex(f.get(6 + 2 * k)?)?);
    }
    let path = unhex(f.get(5 + 2 * n)?)?;
    let is_dir = *f.get(6 + 2 * n)? == "1";
    // all directories of the path and of the ignore files exist
    let mut dirs: Vec<Vec<u8>> = sc.per_dir.keys().filter(|d| !d.is_empty()).cloned().collect();
    let mut pre = Vec::new();
    for (i, c) in path.iter().enumerate() {
        if *c == b'/' {
            dirs.push(path[..i].to_vec());
        }
        pre.push(*c);
    }
    dirs.sort();
    dirs.dedup();
    for d in dirs {
        if d != path {
            sc.nodes.push((d, true));
        }
    }
    sc.nodes.push((path, is_dir));
    Some(sc)
}
