//! C32 — refspec matching agrees with git, and never panics.
//!
//! Operations sent to the Lean driver (`Model/C32.lean`):
//!   match <ns> <spec>… <ni> (<name> <target> <object|~>)…   MatchGroup::from_fetch_specs(parse(spec)…)
//!                                                           .match_remotes(items) + Outcome::validated()
//!   parse <spec> <k> (<name> <0|1>)…                        gix_refspec::parse(spec, Fetch); the pairs are the
//!                                                           answers of gix_validate::reference::name_partial
//!   gitmap <ns> <spec>… <ni> <name>…                        the final (src,dst,force) set of the REAL code, which
//!                                                           the driver compares with Spec.getFetchMap (git's rules)
//! Oracle: a scratch remote holding exactly the generated refs, fetched from with the real git binary.
use bstr::ByteSlice;
use gix_hash::ObjectId;
use gix_refspec::match_group::{Item, SourceRef};
use gix_refspec::parse::Operation;
use gix_refspec::MatchGroup;
use hcommon::*;
use std::collections::{BTreeMap, BTreeSet};

#[derive(Clone)]
struct It {
    name: Vec<u8>,
    target: ObjectId,
    object: Option<ObjectId>,
}

#[derive(Clone, PartialEq, Eq, PartialOrd, Ord, Debug)]
enum Lhs {
    Name(Vec<u8>),
    Oid(ObjectId),
}

#[derive(Clone, Debug)]
struct Map {
    item: Option<usize>,
    lhs: Lhs,
    rhs: Option<Vec<u8>>,
    spec: usize,
}

enum Real {
    ParseErr(usize),
    Panic(String),
    Done {
        mappings: Vec<Map>,
        /// Ok(mappings after fixes, number of fixes) or Err(conflicting destinations in order of first appearance)
        validated: Result<(Vec<Map>, usize), Vec<Vec<u8>>>,
        force: Vec<bool>,
    },
}

fn fmt_map(m: &Map) -> String {
    format!(
        "{}/{}/{}/{}",
        m.item.map(|i| i.to_string()).unwrap_or_else(|| "-".into()),
        match &m.lhs {
            Lhs::Name(n) => format!("N{}", hex(n)),
            Lhs::Oid(o) => format!("O{}", hex(o.as_bytes())),
        },
        match &m.rhs {
            None => "~".to_string(),
            Some(r) => format!("={}", hex(r)),
        },
        m.spec
    )
}

fn fmt_maps(ms: &[Map]) -> String {
    let mut s = format!("{}", ms.len());
    for m in ms {
        s.push(' ');
        s.push_str(&fmt_map(m));
    }
    s
}

fn convert(ms: &[gix_refspec::match_group::Mapping<'_, '_>]) -> Vec<Map> {
    ms.iter()
        .map(|m| Map {
            item: m.item_index,
            lhs: match m.lhs {
                SourceRef::FullName(n) => Lhs::Name(n.to_vec()),
                SourceRef::ObjectId(id) => Lhs::Oid(id),
            },
            rhs: m.rhs.as_ref().map(|r| r.to_vec()),
            spec: m.spec_index,
        })
        .collect()
}

fn run_group(specs: &[Vec<u8>], items: &[It]) -> Real {
    let mut parsed = Vec::new();
    for (i, s) in specs.iter().enumerate() {
        match gix_refspec::parse(s.as_bstr(), Operation::Fetch) {
            Ok(p) => parsed.push(p),
            Err(_) => return Real::ParseErr(i),
        }
    }
    let force: Vec<bool> = specs.iter().map(|s| s.first() == Some(&b'+')).collect();
    let r = catch(|| {
        let group = MatchGroup::from_fetch_specs(parsed.iter().copied());
        let out = group.match_remotes(items.iter().map(|i| Item {
            full_ref_name: i.name.as_bstr(),
            target: &i.target,
            object: i.object.as_deref(),
        }));
        let mappings = convert(&out.mappings);
        let validated = match out.validated() {
            Ok((o, fixes)) => Ok((convert(&o.mappings), fixes.len())),
            Err(e) => {
                let mut dsts: Vec<Vec<u8>> = e
                    .issues
                    .iter()
                    .map(|i| match i {
                        gix_refspec::match_group::validate::Issue::Conflict {
                            destination_full_ref_name, ..
                        } => destination_full_ref_name.to_vec(),
                    })
                    .collect();
                // canonical order: first appearance among the mappings (the real order is BTreeMap order)
                let pos = |d: &Vec<u8>| mappings.iter().position(|m| m.rhs.as_ref() == Some(d)).unwrap_or(usize::MAX);
                dsts.sort_by_key(|d| pos(d));
                Err(dsts)
            }
        };
        (mappings, validated)
    });
    match r {
        Err(msg) => Real::Panic(msg),
        Ok((mappings, validated)) => Real::Done {
            mappings,
            validated,
            force,
        },
    }
}

fn obs_of(r: &Real) -> String {
    match r {
        Real::ParseErr(i) => format!("parse-error {i}"),
        Real::Panic(_) => "panic".into(),
        Real::Done { mappings, validated, .. } => {
            let mut s = format!("M {}", fmt_maps(mappings));
            match validated {
                Ok((ms, fixes)) => s.push_str(&format!(" V ok {} F {}", fmt_maps(ms), fixes)),
                Err(dsts) => {
                    s.push_str(&format!(" V conflict {}", dsts.len()));
                    for d in dsts {
                        s.push(' ');
                        s.push_str(&hex(d));
                    }
                }
            }
            s
        }
    }
}

fn match_op(specs: &[Vec<u8>], items: &[It]) -> String {
    let mut op = format!("match {}", specs.len());
    for s in specs {
        op.push(' ');
        op.push_str(&hex(s));
    }
    op.push_str(&format!(" {}", items.len()));
    for i in items {
        op.push_str(&format!(
            " {} {} {}",
            hex(&i.name),
            hex(i.target.as_bytes()),
            i.object.map(|o| hex(o.as_bytes())).unwrap_or_else(|| "~".into())
        ));
    }
    op
}

fn show(b: &[u8]) -> String {
    b.iter()
        .map(|c| {
            if (0x21..0x7f).contains(c) && !b"\\[]<>".contains(c) {
                (*c as char).to_string()
            } else {
                format!("\\x{c:02x}")
            }
        })
        .collect()
}

fn key_of(specs: &[Vec<u8>], names: &[Vec<u8>]) -> String {
    format!(
        "specs=<{}> refs=<{}>",
        specs.iter().map(|s| show(s)).collect::<Vec<_>>().join(" "),
        names.iter().map(|s| show(s)).collect::<Vec<_>>().join(" ")
    )
}

fn fake_oid(i: usize) -> ObjectId {
    let mut b = [0u8; 20];
    b[0] = 0xaa;
    b[18] = (i >> 8) as u8;
    b[19] = i as u8;
    ObjectId::from_bytes_or_panic(&b)
}

fn rules(s: &[u8]) -> Vec<Vec<u8>> {
    let cat = |a: &str, b: &str| {
        let mut v = a.as_bytes().to_vec();
        v.extend_from_slice(s);
        v.extend_from_slice(b.as_bytes());
        v
    };
    vec![cat("", ""), cat("refs/", ""), cat("refs/tags/", ""), cat("refs/heads/", ""), cat("refs/remotes/", ""), cat("refs/remotes/", "/HEAD")]
}

fn is_hex40(s: &[u8]) -> bool {
    s.len() == 40 && s.iter().all(u8::is_ascii_hexdigit)
}

fn git_valid_ref(d: &[u8]) -> bool {
    d.starts_with(b"refs/") && gix_validate::reference::name(d.as_bstr()).is_ok()
}

/// The classes of inputs on which gitoxide is KNOWN to compute other mappings than git (each has a
/// witness in the corpus that is listed in known-findings.txt and refuted in Props/C32.lean as
/// `differs_*`). Random inputs falling into a class are outside the domain of the partial theorems.
fn classify(specs: &[Vec<u8>], names: &[Vec<u8>], mappings: &[Map]) -> Option<&'static str> {
    for spec in specs {
        let p = match gix_refspec::parse(spec.as_bstr(), Operation::Fetch) {
            Ok(p) => p,
            Err(_) => continue,
        };
        let negative = spec.first() == Some(&b'^');
        let src = p.source().map(|s| s.to_vec()).unwrap_or_default();
        if negative {
            if src == b"HEAD" && rules(b"HEAD").iter().skip(1).any(|r| names.contains(r)) {
                return Some("negative-HEAD-expanded-like-a-partial-name");
            }
            continue;
        }
        if let Some(d) = p.destination() {
            if !d.contains(&b'*') && is_hex40(d) && d.iter().any(u8::is_ascii_uppercase) {
                return Some("upper-case-hex-destination-lower-cased");
            }
        }
        if src.contains(&b'*') || is_hex40(&src) {
            continue;
        }
        let m: Vec<&Vec<u8>> = names.iter().filter(|n| rules(&src).contains(n)).collect();
        if src.starts_with(b"refs/") {
            if !m.is_empty() && !m.iter().any(|n| ***n == *src) {
                return Some("full-name-source-not-run-through-rev-parse-rules");
            }
        } else if m.len() >= 2 {
            return Some("ambiguous-partial-name-maps-all-candidates");
        }
    }
    for m in mappings {
        if let Some(r) = &m.rhs {
            let kept = r.starts_with(b"refs/") || r == b"HEAD";
            if kept && !git_valid_ref(r) {
                return Some("invalid-or-HEAD-destination-kept");
            }
            if !kept && mappings.iter().any(|o| o.rhs.as_ref() == Some(r) && o.lhs != m.lhs) {
                return Some("conflict-reported-on-dropped-destination");
            }
        }
    }
    None
}

/// Second oracle: the Lean transcription of git's rules (`Spec.C32.getRefMap`) evaluated by the driver on
/// the same input; `expect` is what the harness claims about the REAL code ("agree" in the domain of the
/// partial theorems, "differ" for the corpus witnesses of the known findings).
fn do_gitmap(rep: &mut Report, specs: &[Vec<u8>], items: &[It], mappings: &[Map], expect: &str) {
    let mut op = format!("gitmap {}", specs.len());
    for s in specs {
        op.push(' ');
        op.push_str(&hex(s));
    }
    op.push_str(&format!(" {}", items.len()));
    for i in items {
        op.push(' ');
        op.push_str(&hex(&i.name));
    }
    let mut dsts: Vec<&Vec<u8>> = Vec::new();
    for m in mappings {
        if let Some(r) = &m.rhs {
            if !dsts.contains(&r) {
                dsts.push(r);
            }
        }
    }
    op.push_str(&format!(" {}", dsts.len()));
    for d in dsts {
        op.push_str(&format!(" {} {}", hex(d), git_valid_ref(d) as u8));
    }
    rep.case(&op, expect, !mappings.is_empty());
    rep.bucket(&format!("gitmap:{expect}"));
}

/// One model-correspondence case + the "never panics" oracle on the real code.
fn do_match(rep: &mut Report, specs: &[Vec<u8>], items: &[It]) -> Real {
    let op = match_op(specs, items);
    let real = run_group(specs, items);
    if let Real::ParseErr(i) = &real {
        // not a valid refspec list: the case becomes a `parse` case for the offending spec
        rep.bucket("match:parse-error");
        do_parse(rep, &specs[*i]);
        return real;
    }
    let o = obs_of(&real);
    let nontrivial = match &real {
        Real::Done { mappings, .. } => !mappings.is_empty(),
        Real::Panic(_) => true,
        _ => false,
    };
    rep.case(&op, &o, nontrivial);
    rep.oracle_checked();
    match &real {
        Real::Panic(msg) => {
            rep.bucket("match:panic");
            let names: Vec<Vec<u8>> = items.iter().map(|i| i.name.clone()).collect();
            rep.oracle_failure(
                &format!("match-panic {}", key_of(specs, &names)),
                &format!("MatchGroup::match_remotes panicked on valid fetch refspecs: {msg}"),
                &op,
            );
        }
        Real::ParseErr(_) => {}
        Real::Done { mappings, validated, .. } => {
            // every object id named as a fetch source must come out as a mapping of its own (git asks the
            // remote for each of them), with a destination iff the spec has one
            let mut wanted: Vec<(String, Option<Vec<u8>>)> = Vec::new();
            for spec in specs {
                let body: &[u8] = if spec.first() == Some(&b'+') { &spec[1..] } else { &spec[..] };
                let (src, dst) = match body.find_byte(b':') {
                    Some(p) => (&body[..p], Some(body[p + 1..].to_vec()).filter(|d| !d.is_empty())),
                    None => (body, None),
                };
                if is_hex40(src) {
                    let want = (String::from_utf8_lossy(src).to_ascii_lowercase(), dst);
                    if !wanted.contains(&want) {
                        wanted.push(want);
                    }
                }
            }
            if !wanted.is_empty() {
                rep.bucket(if wanted.len() > 1 { "match:object-id-sources:2+" } else { "match:object-id-sources:1" });
            }
            for (id, dst) in &wanted {
                let found = mappings.iter().any(|m| {
                    matches!(&m.lhs, Lhs::Oid(o) if o.to_string() == *id)
                        && m.rhs.is_some() == dst.is_some()
                        && match (dst, &m.rhs) {
                            (Some(d), Some(r)) if d.starts_with(b"refs/") => d == r,
                            _ => true,
                        }
                });
                if !found {
                    let names: Vec<Vec<u8>> = items.iter().map(|i| i.name.clone()).collect();
                    rep.oracle_failure(
                        &format!("object-id-source-lost {}", key_of(specs, &names)),
                        &format!(
                            "the fetch source {id}{} has no mapping; gitoxide's mappings name the object ids {:?}",
                            dst.as_ref().map(|d| format!(":{}", show(d))).unwrap_or_default(),
                            mappings.iter().filter_map(|m| match &m.lhs { Lhs::Oid(o) => Some(o.to_string()), _ => None }).collect::<Vec<_>>()
                        ),
                        &op,
                    );
                }
            }
            rep.bucket(&format!(
                "match:{}:{}",
                match mappings.len() {
                    0 => "0",
                    1 => "1",
                    2..=4 => "2-4",
                    _ => "5+",
                },
                match validated {
                    Ok((_, 0)) => "ok",
                    Ok(_) => "ok+fixes",
                    Err(_) => "conflict",
                }
            ));
        }
    }
    real
}

// ------------------------------------------------------------------------------------------------
// parse

/// The strings `parse` hands to `name_partial` for a fetch spec: each side with the first `*`
/// replaced by `a`, `@` on the source side replaced by `HEAD`.
fn validity_table(spec: &[u8]) -> Vec<(Vec<u8>, bool)> {
    let mut s = spec;
    if let Some(b'^') | Some(b'+') = s.first() {
        s = &s[1..];
    }
    let mut sides: Vec<Vec<u8>> = Vec::new();
    match s.find_byte(b':') {
        Some(p) => {
            sides.push(s[..p].to_vec());
            sides.push(s[p + 1..].to_vec());
        }
        None => sides.push(s.to_vec()),
    }
    // an empty source side stands for HEAD, which is validated like any other name
    let mut out: Vec<(Vec<u8>, bool)> = vec![(b"HEAD".to_vec(), gix_validate::reference::name_partial(b"HEAD".as_bstr()).is_ok())];
    for (k, side) in sides.iter().enumerate() {
        let mut v = side.clone();
        if k == 0 && v == b"@" {
            v = b"HEAD".to_vec();
        }
        if v.is_empty() {
            continue;
        }
        let mut cands = vec![v.clone()];
        if let Some(p) = v.find_byte(b'*') {
            let mut w = v.clone();
            w[p] = b'a';
            cands.push(w);
        }
        for c in cands {
            if !out.iter().any(|(n, _)| *n == c) {
                let ok = gix_validate::reference::name_partial(c.as_bstr()).is_ok();
                out.push((c, ok));
            }
        }
    }
    out
}

fn do_parse(rep: &mut Report, spec: &[u8]) {
    let table = validity_table(spec);
    let mut op = format!("parse {} {}", hex(spec), table.len());
    for (n, ok) in &table {
        op.push_str(&format!(" {} {}", hex(n), *ok as u8));
    }
    use gix_refspec::parse::Error as E;
    let r = catch(|| gix_refspec::parse(spec.as_bstr(), Operation::Fetch).map(|p| (p.to_owned(), p.source().map(|s| s.to_vec()), p.destination().map(|s| s.to_vec()))));
    let o = match &r {
        Err(_) => "panic".to_string(),
        Ok(Ok((owned, src, dst))) => {
            let first = spec.first().copied();
            let mode = if first == Some(b'^') {
                "negative"
            } else if owned.allow_non_fast_forward() {
                "force"
            } else {
                "normal"
            };
            let f = |x: &Option<Vec<u8>>| match x {
                None => "~".to_string(),
                Some(b) => format!("={}", hex(b)),
            };
            format!("ok {} {} {}", mode, f(src), f(dst))
        }
        Ok(Err(e)) => format!(
            "err:{}",
            match e {
                E::Empty => "Empty",
                E::NegativeWithDestination => "NegativeWithDestination",
                E::NegativeEmpty => "NegativeEmpty",
                E::NegativeUnsupported => "NegativeUnsupported",
                E::NegativeObjectHash => "NegativeObjectHash",
                E::NegativePartialName => "NegativePartialName",
                E::NegativeGlobPattern => "NegativeGlobPattern",
                E::InvalidFetchDestination => "InvalidFetchDestination",
                E::PushToEmpty => "PushToEmpty",
                E::PatternUnsupported { .. } => "PatternUnsupported",
                E::PatternUnbalanced => "PatternUnbalanced",
                E::ReferenceName(_) => "ReferenceName",
                E::RevSpec(_) => "RevSpec",
            }
        ),
    };
    rep.bucket(&format!("parse:{}", o.split(' ').next().unwrap_or("")));
    rep.case(&op, &o, true);
    rep.oracle_checked();
    if r.is_err() {
        rep.oracle_failure(&format!("parse-panic {}", show(spec)), "gix_refspec::parse panicked", &op);
    }
}

// ------------------------------------------------------------------------------------------------
// generators

const HEADS: &[&str] = &[
    "a", "aa", "aba", "ab", "b", "ba", "main", "x", "f1", "f2", "sub/f4", "sub/a", "a/b", "HEAD", "v1", "abab", "aaa",
    "refs/heads/a", "heads/a", "tags/v1",
];
const TAGS: &[&str] = &["v1", "main", "a", "x", "aa", "HEAD"];
const REMOTES: &[&str] = &["origin/main", "origin/HEAD", "origin/a", "o/a", "main/HEAD", "a/HEAD"];
const OTHER: &[&str] = &["refs/notes/x", "refs/x", "refs/a", "refs/main", "refs/pull/1/head", "refs/x/a", "refs/HEAD"];

fn df_conflict(a: &[u8], b: &[u8]) -> bool {
    let pre = |x: &[u8], y: &[u8]| y.len() > x.len() && y.starts_with(x) && y[x.len()] == b'/';
    a == b || pre(a, b) || pre(b, a)
}

fn gen_names(r: &mut Rng) -> Vec<Vec<u8>> {
    let n = match r.below(6) {
        0 => r.usize(3),
        1..=3 => 2 + r.usize(5),
        _ => 4 + r.usize(8),
    };
    let mut out: Vec<Vec<u8>> = Vec::new();
    for _ in 0..n * 3 {
        if out.len() >= n {
            break;
        }
        let name: Vec<u8> = match r.below(10) {
            0..=4 => format!("refs/heads/{}", r.pick(HEADS)).into_bytes(),
            5 | 6 => format!("refs/tags/{}", r.pick(TAGS)).into_bytes(),
            7 => format!("refs/remotes/{}", r.pick(REMOTES)).into_bytes(),
            8 => r.pick(OTHER).as_bytes().to_vec(),
            _ => {
                let mut v = b"refs/heads/".to_vec();
                let mut t = r.over(b"ab", 4);
                if t.is_empty() {
                    t.push(b'a');
                }
                v.extend(t);
                v
            }
        };
        if !out.iter().any(|o| df_conflict(o, &name)) {
            out.push(name);
        }
    }
    out.sort();
    out
}

fn gen_glob_side(r: &mut Rng, names: &[Vec<u8>]) -> Vec<u8> {
    // derive prefix / suffix from an existing name so that overlaps are common
    if !names.is_empty() && r.chance(2, 3) {
        let n = r.pick(names).clone();
        let p = r.usize(n.len() + 1);
        let slack = if r.chance(1, 2) { 0 } else { r.usize(3) };
        let q = p.saturating_sub(slack).min(n.len());
        let q = if r.chance(1, 2) { q } else { (p + r.usize(3)).min(n.len()) };
        let mut v = n[..p].to_vec();
        v.push(b'*');
        v.extend_from_slice(&n[q..]);
        return v;
    }
    r.pick(&[
        "refs/heads/*", "refs/heads/a*a", "refs/*/x", "*", "refs/heads/a*", "refs/*", "refs/heads/*a", "refs/tags/*",
        "refs/heads/ab*ab", "refs/heads/a*b", "refs/*/a", "refs/heads/sub/*", "refs/*a", "r*", "*a", "refs/heads/*/a",
        "refs/heads/a*aa", "refs/heads/aa*a", "heads/*", "refs/remotes/*/HEAD",
    ])
    .as_bytes()
    .to_vec()
}

fn gen_glob_dst(r: &mut Rng) -> Vec<u8> {
    r.pick(&[
        "refs/remotes/o/*", "refs/x/*", "refs/x/*y", "refs/x/a*a", "*", "x/*", "refs/heads/*", "refs/y/q*", "refs/*",
        "refs/tags/*", "heads/*", "refs/x/*/z",
    ])
    .as_bytes()
    .to_vec()
}

fn gen_plain_dst(r: &mut Rng) -> Vec<u8> {
    r.pick(&[
        "refs/heads/q", "q", "heads/q", "tags/q", "remotes/o/q", "refs/x/q", "refs/remotes/o/q", "origin/q", "notes/q",
        "aaaaaaaaaaaaaaaaaaaaaaaaaaaaaaaaaaaaaaaa", "HEAD", "refs/heads/main", "refs/x/r", "main",
    ])
    .as_bytes()
    .to_vec()
}

fn short_of(name: &[u8], r: &mut Rng) -> Vec<u8> {
    // an abbreviation git's rev-parse rules would expand back to `name`
    for (pre, suf) in [
        ("refs/remotes/", "/HEAD"),
        ("refs/remotes/", ""),
        ("refs/heads/", ""),
        ("refs/tags/", ""),
        ("refs/", ""),
    ] {
        if name.starts_with(pre.as_bytes()) && name.ends_with(suf.as_bytes()) && name.len() > pre.len() + suf.len() && r.chance(2, 3) {
            return name[pre.len()..name.len() - suf.len()].to_vec();
        }
    }
    name.to_vec()
}

fn gen_spec(r: &mut Rng, names: &[Vec<u8>], extra_oids: &[ObjectId]) -> Vec<u8> {
    let mut s = Vec::new();
    match r.below(20) {
        0..=6 => {
            // glob
            if r.chance(1, 3) {
                s.push(b'+');
            }
            s.extend(gen_glob_side(r, names));
            s.push(b':');
            if r.chance(1, 4) {
                s.extend(gen_glob_side(r, names));
            } else {
                s.extend(gen_glob_dst(r));
            }
        }
        7..=9 => {
            // negative
            s.push(b'^');
            if !names.is_empty() && r.chance(3, 4) {
                s.extend(r.pick(names).clone());
            } else {
                s.extend(r.pick(&["HEAD", "refs/heads/a", "refs/tags/v1", "refs/heads/main"]).as_bytes());
            }
        }
        10..=12 => {
            // full name
            if r.chance(1, 4) {
                s.push(b'+');
            }
            if !names.is_empty() && r.chance(5, 6) {
                s.extend(r.pick(names).clone());
            } else {
                s.extend(b"refs/heads/zzz");
            }
            if r.chance(2, 3) {
                s.push(b':');
                s.extend(gen_plain_dst(r));
            }
        }
        13..=16 => {
            // partial name
            if r.chance(1, 4) {
                s.push(b'+');
            }
            if !names.is_empty() && r.chance(5, 6) {
                let n = r.pick(names).clone();
                s.extend(short_of(&n, r));
            } else {
                s.extend(r.pick(&["main", "a", "heads/a", "tags/v1", "origin/main", "origin", "HEAD", "@", "", "x", "v1"]).as_bytes());
            }
            if r.chance(2, 3) {
                s.push(b':');
                if r.chance(5, 6) {
                    s.extend(gen_plain_dst(r));
                }
            }
        }
        _ => {
            // object id
            if !extra_oids.is_empty() {
                s.extend(r.pick(extra_oids).to_string().into_bytes());
            } else {
                s.extend(fake_oid(900 + r.usize(3)).to_string().into_bytes());
            }
            if r.chance(1, 2) {
                s.push(b':');
                s.extend(gen_plain_dst(r));
            }
        }
    }
    s
}

fn gen_specs(r: &mut Rng, names: &[Vec<u8>], extra_oids: &[ObjectId]) -> Vec<Vec<u8>> {
    if r.chance(1, 8) {
        // several DIFFERENT object ids as sources, with the same / different / no destination
        // (`git fetch origin <id1> <id2>`), optionally mixed with an ordinary spec
        let ids: Vec<String> = if extra_oids.is_empty() {
            (0..4).map(|i| fake_oid(900 + i).to_string()).collect()
        } else {
            extra_oids.iter().map(|o| o.to_string()).collect()
        };
        let k = 2 + r.usize(ids.len() - 1);
        let shape = r.below(4);
        let mut specs: Vec<Vec<u8>> = (0..k)
            .map(|i| {
                let mut s = if r.chance(1, 5) { b"+".to_vec() } else { Vec::new() };
                s.extend(ids[i % ids.len()].as_bytes());
                match shape {
                    0 => {}
                    1 => s.extend(format!(":refs/x/o{i}").as_bytes()),
                    2 => s.extend(b":refs/x/same"),
                    _ => {
                        if r.chance(1, 2) {
                            s.push(b':');
                            s.extend(gen_plain_dst(r));
                        }
                    }
                }
                s
            })
            .collect();
        if r.chance(1, 3) {
            let extra = gen_spec(r, names, extra_oids);
            let at = r.usize(specs.len() + 1);
            specs.insert(at, extra);
        }
        return specs;
    }
    let n = match r.below(8) {
        0..=2 => 1,
        3..=5 => 2,
        6 => 3,
        _ => 1 + r.usize(5),
    };
    (0..n).map(|_| gen_spec(r, names, extra_oids)).collect()
}

/// byte-level glob stress: tiny alphabet so that prefix/suffix overlap the name all the time
fn gen_tiny(r: &mut Rng) -> (Vec<Vec<u8>>, Vec<It>) {
    let side = |r: &mut Rng| {
        let mut v = r.over(b"ab/", 3);
        v.push(b'*');
        v.extend(r.over(b"ab/", 3));
        if r.chance(9, 10) {
            // keep most of them valid ref names: no leading/trailing/double slash
            while v.first() == Some(&b'/') {
                v.remove(0);
            }
            while v.last() == Some(&b'/') {
                v.pop();
            }
            while let Some(p) = v.find(b"//") {
                v.remove(p);
            }
        }
        v
    };
    let mut spec = side(r);
    spec.push(b':');
    spec.extend(side(r));
    let n = 1 + r.usize(4);
    let items = (0..n)
        .map(|i| It {
            name: r.over(b"ab/", 5),
            target: fake_oid(i),
            object: None,
        })
        .collect();
    (vec![spec], items)
}

// ------------------------------------------------------------------------------------------------
// git oracle

struct GitWorld {
    scratch: Scratch,
    /// commits available in the remote's object database
    pool: Vec<ObjectId>,
    /// commits never pointed to by a ref (for exact-object-id specs)
    extra: Vec<ObjectId>,
    thorough: bool,
}

impl GitWorld {
    fn new(thorough: bool) -> GitWorld {
        let scratch = Scratch::new("c32");
        let remote = scratch.join("remote.git");
        std::fs::create_dir_all(&remote).unwrap();
        git_ok(&remote, &["init", "-q", "--bare", "."], None);
        git_ok(&remote, &["config", "uploadpack.allowAnySHA1InWant", "true"], None);
        let tree = git_ok(&remote, &["mktree"], Some(b""));
        let mut pool = Vec::new();
        for i in 0..44 {
            let c = git_ok(&remote, &["commit-tree", &tree, "-m", &format!("c{i}")], None);
            pool.push(ObjectId::from_hex(c.trim().as_bytes()).expect("commit id"));
        }
        let extra = pool.split_off(40);
        let local = scratch.join("local.git");
        std::fs::create_dir_all(&local).unwrap();
        git_ok(&local, &["init", "-q", "--bare", "."], None);
        // the local side already has every object (alternates): a fetch only has to compute and write refs
        std::fs::create_dir_all(local.join("objects/info")).unwrap();
        std::fs::write(local.join("objects/info/alternates"), format!("{}\n", remote.join("objects").display())).unwrap();
        GitWorld { scratch, pool, extra, thorough }
    }

    fn reset_refs(dir: &std::path::Path) {
        let _ = std::fs::remove_dir_all(dir.join("refs"));
        let _ = std::fs::remove_file(dir.join("packed-refs"));
        let _ = std::fs::remove_file(dir.join("FETCH_HEAD"));
        std::fs::create_dir_all(dir.join("refs/heads")).unwrap();
        std::fs::create_dir_all(dir.join("refs/tags")).unwrap();
    }

    /// Install exactly `names` in the remote (loose ref files); returns what the remote advertises:
    /// `HEAD` first when it resolves, then the refs in byte order. `git ls-remote` confirms the list
    /// for the first scenarios of a run and for every scenario in the thorough tier.
    fn install(&self, names: &[Vec<u8>], with_head: bool, confirm: bool) -> Vec<It> {
        let remote = self.scratch.join("remote.git");
        Self::reset_refs(&remote);
        let mut items = Vec::new();
        if with_head {
            std::fs::write(remote.join("HEAD"), format!("{}\n", self.pool[0])).unwrap();
            items.push(It { name: b"HEAD".to_vec(), target: self.pool[0], object: None });
        } else {
            std::fs::write(remote.join("HEAD"), "ref: refs/heads/does-not-exist\n").unwrap();
        }
        let mut sorted: Vec<(usize, &Vec<u8>)> = names.iter().enumerate().collect();
        sorted.sort_by(|a, b| a.1.cmp(b.1));
        for (i, n) in sorted {
            let path = remote.join(std::str::from_utf8(n).expect("generated names are ASCII"));
            std::fs::create_dir_all(path.parent().unwrap()).unwrap();
            std::fs::write(&path, format!("{}\n", self.pool[i + 1])).unwrap();
            items.push(It { name: n.clone(), target: self.pool[i + 1], object: None });
        }
        if confirm {
            let local = self.scratch.join("local.git");
            let out = git(&local, &["ls-remote", remote.to_str().unwrap()], None);
            assert!(out.ok, "ls-remote: {}", String::from_utf8_lossy(&out.stderr));
            let adv: Vec<(Vec<u8>, ObjectId)> = out
                .stdout
                .lines()
                .filter_map(|l| {
                    let (id, name) = l.split_once_str("\t")?;
                    Some((name.to_vec(), ObjectId::from_hex(id).ok()?))
                })
                .collect();
            let mine: Vec<(Vec<u8>, ObjectId)> = items.iter().map(|i| (i.name.clone(), i.target)).collect();
            assert_eq!(adv, mine, "git ls-remote advertises exactly the installed refs");
        }
        items
    }

    fn fetch(&self, specs: &[Vec<u8>]) -> GitFetch {
        let remote = self.scratch.join("remote.git");
        let local = self.scratch.join("local.git");
        Self::reset_refs(&local);
        // FETCH_HEAD is how specs without destination are observed
        let mut args: Vec<String> = vec!["fetch".into(), "--no-tags".into(), "--no-auto-maintenance".into(), "--no-recurse-submodules".into()];
        args.push(remote.to_str().unwrap().to_string());
        for s in specs {
            args.push(String::from_utf8(s.clone()).expect("generated specs are ASCII"));
        }
        let argv: Vec<&str> = args.iter().map(|s| s.as_str()).collect();
        let o = git(&local, &argv, None);
        let stderr = String::from_utf8_lossy(&o.stderr).to_string();
        let mut fetched = Vec::new();
        if let Ok(fh) = std::fs::read(local.join("FETCH_HEAD")) {
            for l in fh.lines() {
                if let Some(id) = l.get(..40).and_then(|h| ObjectId::from_hex(h).ok()) {
                    fetched.push(id);
                }
            }
        }
        let mut refs = Vec::new();
        fn walk(dir: &std::path::Path, prefix: &str, out: &mut Vec<(Vec<u8>, ObjectId)>) {
            let mut entries: Vec<_> = match std::fs::read_dir(dir) {
                Ok(rd) => rd.filter_map(|e| e.ok()).collect(),
                Err(_) => return,
            };
            entries.sort_by_key(|e| e.file_name());
            for e in entries {
                let name = format!("{}/{}", prefix, e.file_name().to_string_lossy());
                if e.path().is_dir() {
                    walk(&e.path(), &name, out);
                } else if let Ok(c) = std::fs::read(e.path()) {
                    if let Some(id) = c.get(..40).and_then(|h| ObjectId::from_hex(h).ok()) {
                        out.push((name.into_bytes(), id));
                    }
                }
            }
        }
        walk(&local.join("refs"), "refs", &mut refs);
        assert!(!local.join("packed-refs").exists(), "fetch writes loose refs only");
        GitFetch {
            ok: o.ok,
            stderr,
            fetched,
            refs,
        }
    }
}

struct GitFetch {
    ok: bool,
    stderr: String,
    fetched: Vec<ObjectId>,
    refs: Vec<(Vec<u8>, ObjectId)>,
}

fn lhs_show(l: &Lhs) -> String {
    match l {
        Lhs::Name(n) => show(n),
        Lhs::Oid(o) => o.to_string(),
    }
}

/// One scenario against the real git: the final mappings of the real gitoxide code must be the ones git uses.
fn do_git_scenario(rep: &mut Report, world: &GitWorld, names: &[Vec<u8>], with_head: bool, specs: &[Vec<u8>], witness: bool) {
    let confirm = rep.evaluations < 400 || world.thorough;
    let items = world.install(names, with_head, confirm);
    let real = do_match(rep, specs, &items);
    let advertised: Vec<Vec<u8>> = items.iter().map(|i| i.name.clone()).collect();
    let key = key_of(specs, &advertised);
    let op = match_op(specs, &items);
    if let Real::Done { mappings, .. } = &real {
        match classify(specs, &advertised, mappings) {
            Some(class) if !witness => {
                rep.bucket(&format!("git:known-class:{class}"));
                rep.outside_domain(&format!("known divergence class {class}: {key}"));
                return;
            }
            Some(_) => do_gitmap(rep, specs, &items, mappings, "differ"),
            None => do_gitmap(rep, specs, &items, mappings, "agree"),
        }
    }
    let (validated, _force) = match &real {
        Real::ParseErr(_) => {
            rep.bucket("git:skipped-parse-error");
            return;
        }
        Real::Panic(_) => {
            rep.bucket("git:gix-panic");
            return; // already reported by do_match
        }
        Real::Done { validated, force, .. } => (validated, force),
    };
    let g = world.fetch(specs);
    rep.git_checked(1);
    rep.oracle_checked();
    let by_oid: BTreeMap<ObjectId, Lhs> = items
        .iter()
        .map(|i| (i.target, Lhs::Name(i.name.clone())))
        .chain(world.extra.iter().map(|o| (*o, Lhs::Oid(*o))))
        .collect();
    if !g.ok {
        if g.stderr.contains("Cannot fetch both") {
            rep.bucket("git:conflict");
            if validated.is_ok() {
                rep.oracle_failure(
                    &format!("git-conflict-not-reported {key}"),
                    &format!("git refuses ({}) but Outcome::validated() accepts the mappings", g.stderr.trim()),
                    &op,
                );
            }
        } else if g.stderr.contains("couldn't find remote ref") {
            rep.bucket("git:missing-remote-ref");
            rep.outside_domain(&format!("git dies before computing mappings ({}) for {key}", g.stderr.trim().lines().next().unwrap_or("")));
        } else {
            rep.bucket("git:other-error");
            rep.outside_domain(&format!("git fetch failed otherwise ({}) for {key}", g.stderr.trim().lines().last().unwrap_or("")));
        }
        return;
    }
    let maps = match validated {
        Err(dsts) => {
            rep.bucket("git:ok-gix-conflict");
            rep.oracle_failure(
                &format!("gix-conflict-git-none {key}"),
                &format!(
                    "Outcome::validated() reports a conflict on {} but git fetch succeeds with {} refs",
                    dsts.iter().map(|d| show(d)).collect::<Vec<_>>().join(","),
                    g.refs.len()
                ),
                &op,
            );
            return;
        }
        Ok((maps, _)) => maps,
    };
    rep.bucket("git:compared");
    let gix_src: BTreeSet<Lhs> = maps.iter().map(|m| m.lhs.clone()).collect();
    let gix_pairs: BTreeSet<(Lhs, Vec<u8>)> = maps.iter().filter_map(|m| m.rhs.clone().map(|r| (m.lhs.clone(), r))).collect();
    let mut git_src = BTreeSet::new();
    for id in &g.fetched {
        match by_oid.get(id) {
            Some(l) => {
                git_src.insert(l.clone());
            }
            None => rep.note(&format!("FETCH_HEAD names an unknown object {id}")),
        }
    }
    let mut git_pairs = BTreeSet::new();
    for (name, id) in &g.refs {
        if let Some(l) = by_oid.get(id) {
            git_pairs.insert((l.clone(), name.clone()));
        }
    }
    if gix_src != git_src || gix_pairs != git_pairs {
        let f = |s: &BTreeSet<(Lhs, Vec<u8>)>| s.iter().map(|(l, r)| format!("{}->{}", lhs_show(l), show(r))).collect::<Vec<_>>().join(" ");
        let h = |s: &BTreeSet<Lhs>| s.iter().map(lhs_show).collect::<Vec<_>>().join(" ");
        rep.oracle_failure(
            &format!("mappings-differ {key}"),
            &format!(
                "gitoxide maps [{}] (sources [{}]); git maps [{}] (sources [{}])",
                f(&gix_pairs),
                h(&gix_src),
                f(&git_pairs),
                h(&git_src)
            ),
            &op,
        );
    }
}

fn b(s: &str) -> Vec<u8> {
    s.as_bytes().to_vec()
}

fn main() {
    let args = Args::parse();
    let mut rep = Report::new("C32", &args);
    let mut r = Rng::new(args.seed);
    let world = GitWorld::new(args.thorough);

    if let Some(ops) = replay_ops(&args) {
        for op in ops {
            let a: Vec<&str> = op.split(' ').collect();
            match a[0] {
                "match" => {
                    let ns: usize = a[1].parse().unwrap();
                    let specs: Vec<Vec<u8>> = (0..ns).map(|k| unhex(a[2 + k]).unwrap()).collect();
                    let ni: usize = a[2 + ns].parse().unwrap();
                    let names: Vec<Vec<u8>> = (0..ni).map(|k| unhex(a[3 + ns + 3 * k]).unwrap()).collect();
                    // replay against git as well: re-install the names (HEAD is advertised first when present)
                    let with_head = names.iter().any(|n| n == b"HEAD");
                    let mut refs: Vec<Vec<u8>> = names.iter().filter(|n| n.as_slice() != b"HEAD").cloned().collect();
                    refs.sort();
                    let installable = refs.iter().all(|n| n.starts_with(b"refs/") && gix_validate::reference::name(n.as_bstr()).is_ok())
                        && !(0..refs.len()).any(|i| (0..i).any(|j| df_conflict(&refs[i], &refs[j])))
                        && refs.len() < 40
                        && specs.iter().all(|s| s.is_ascii());
                    if installable {
                        do_git_scenario(&mut rep, &world, &refs, with_head, &specs, true);
                    } else {
                        let items: Vec<It> = names.iter().enumerate().map(|(i, n)| It { name: n.clone(), target: fake_oid(i), object: None }).collect();
                        do_match(&mut rep, &specs, &items);
                    }
                }
                "parse" => do_parse(&mut rep, &unhex(a[1]).unwrap()),
                _ => rep.note(&format!("replay: unknown op {}", a[0])),
            }
        }
        rep.finish();
        return;
    }

    // ---- deterministic corpus -------------------------------------------------------------------
    // §7-k: prefix and suffix of the glob overlap in a short name
    // (specs, remote refs, witness of a known finding?)
    let corpus: Vec<(Vec<&str>, Vec<&str>, bool)> = vec![
        // §7-k (fixed): prefix and suffix of the glob overlap in a short name
        (vec!["refs/heads/a*a:refs/x/a*a"], vec!["refs/heads/a", "refs/heads/aa", "refs/heads/aba"], false),
        (vec!["refs/heads/ab*ab:refs/x/q*"], vec!["refs/heads/ab", "refs/heads/abab", "refs/heads/aba"], false),
        // `heads/` destinations (fixed)
        (vec!["refs/heads/main:heads/x"], vec!["refs/heads/main"], false),
        (vec!["+refs/heads/*:refs/remotes/o/*", "^refs/heads/b"], vec!["refs/heads/a", "refs/heads/b", "refs/tags/v1"], false),
        (vec!["refs/heads/a:refs/x/c", "refs/heads/b:refs/x/c"], vec!["refs/heads/a", "refs/heads/b"], false),
        (vec!["refs/heads/*:refs/x/*", "refs/heads/a:refs/x/a"], vec!["refs/heads/a", "refs/heads/b"], false),
        (vec!["refs/heads/f*:foo/f*", "f1:f1"], vec!["refs/heads/f1", "refs/heads/f2"], false),
        (vec!["origin:refs/x/o"], vec!["refs/remotes/origin/HEAD", "refs/heads/a"], false),
        (vec!["@:refs/x/h", ":refs/x/h2", "HEAD:"], vec!["refs/heads/a"], false),
        // witnesses of the known findings (Props/C32.lean `differs_*`)
        (vec!["main:refs/x/m"], vec!["refs/heads/main", "refs/tags/main"], true),
        (vec!["refs/heads/*:refs/x/*", "^HEAD"], vec!["refs/heads/HEAD", "refs/heads/a"], true),
        (vec!["refs/heads/a:refs/x/q"], vec!["refs/heads/refs/heads/a"], true),
        (vec!["*:*"], vec!["refs/heads/a"], true),
        (vec!["refs/heads/ab*ab:refs/x/*"], vec!["refs/heads/abab"], true),
        (vec!["refs/heads/*:x/*", "refs/tags/*:x/*"], vec!["refs/heads/a", "refs/tags/a"], true),
        (vec!["refs/heads/a:AAAAAAAAAAAAAAAAAAAAAAAAAAAAAAAAAAAAAAAA"], vec!["refs/heads/a"], true),
    ];
    for (specs, names, witness) in &corpus {
        let specs: Vec<Vec<u8>> = specs.iter().map(|s| b(s)).collect();
        let mut names: Vec<Vec<u8>> = names.iter().map(|s| b(s)).collect();
        names.sort();
        do_git_scenario(&mut rep, &world, &names, true, &specs, *witness);
    }
    {
        // several different object ids as sources (`git fetch origin <id1> <id2>`)
        let id = |i: usize| world.extra[i].to_string();
        let names = vec![b("refs/heads/a")];
        for specs in [
            vec![id(0), id(1)],
            vec![id(0), id(1), id(2), id(3)],
            vec![format!("{}:refs/x/a", id(0)), format!("{}:refs/x/b", id(1))],
            vec![format!("{}:refs/x/same", id(0)), format!("{}:refs/x/same", id(1))],
            vec![id(0), "refs/heads/a:refs/x/a".to_string(), format!("+{}:refs/x/b", id(1)), id(0)],
        ] {
            let specs: Vec<Vec<u8>> = specs.iter().map(|s| b(s)).collect();
            do_git_scenario(&mut rep, &world, &names, true, &specs, false);
        }
    }
    for s in [
        "", ":", "@", "@:", "^", "^:", "+", "+:", "^a", "^refs/heads/a", "^refs/heads/*", "^HEAD", "^refs/heads/a:b",
        "^aaaaaaaaaaaaaaaaaaaaaaaaaaaaaaaaaaaaaaaa", "a*:b", "a:b*", "a*:b*", "a**:b", "a*b*:c", "*:*", "refs/heads/*",
        "a b:c", "a:b c", "a..b:c", "+a:b", "refs/heads/a:", ":refs/heads/a", "a:b:c", "^refs/*a*", "HEAD", "+@:x",
    ] {
        do_parse(&mut rep, s.as_bytes());
    }

    // ---- random: model correspondence + panic freedom ---------------------------------------------
    let n_model = args.budget(2_000, 40_000);
    for i in 0..n_model {
        match r.below(10) {
            0..=2 => {
                let (specs, items) = gen_tiny(&mut r);
                do_match(&mut rep, &specs, &items);
            }
            3 | 4 => {
                let names = gen_names(&mut r);
                let specs = gen_specs(&mut r, &names, &[]);
                let s = r.pick(&specs).clone();
                let s = if r.chance(1, 3) {
                    // malformed stream: mutate one byte
                    let mut s = s;
                    if !s.is_empty() {
                        let p = r.usize(s.len());
                        s[p] = *r.pick(b"*:^+ ~.@/\\[?a");
                    }
                    s
                } else {
                    s
                };
                do_parse(&mut rep, &s);
            }
            _ => {
                let names = gen_names(&mut r);
                let specs = gen_specs(&mut r, &names, &[]);
                let mut items: Vec<It> = names
                    .iter()
                    .enumerate()
                    .map(|(k, n)| It {
                        name: n.clone(),
                        target: fake_oid(k + 1),
                        object: if r.chance(1, 10) { Some(fake_oid(500 + k)) } else { None },
                    })
                    .collect();
                if r.chance(3, 4) {
                    items.insert(0, It { name: b("HEAD"), target: fake_oid(0), object: None });
                }
                if let Real::Done { mappings, .. } = do_match(&mut rep, &specs, &items) {
                    let all: Vec<Vec<u8>> = items.iter().map(|i| i.name.clone()).collect();
                    match classify(&specs, &all, &mappings) {
                        None => do_gitmap(&mut rep, &specs, &items, &mappings, "agree"),
                        Some(class) => rep.bucket(&format!("model:known-class:{class}")),
                    }
                }
            }
        }
        let _ = i;
    }

    let t_model = std::time::Instant::now();
    // ---- random: the real git as oracle ------------------------------------------------------------
    let n_git = args.budget(150, 1_000);
    for _ in 0..n_git {
        let names = gen_names(&mut r);
        let with_head = r.chance(3, 4);
        let specs = gen_specs(&mut r, &names, &world.extra);
        do_git_scenario(&mut rep, &world, &names, with_head, &specs, false);
    }
    eprintln!("c32: git scenarios took {:?}", t_model.elapsed());
    rep.finish();
}
