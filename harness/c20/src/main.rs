//! C20 — reference updates are crash-consistent.
//!
//! Every transaction is executed by the REAL code (`file::Store::transaction().prepare(..).commit(..)`,
//! i.e. `transaction/{prepare,commit}.rs`, `packed/transaction.rs`, `gix_lock`, `gix_tempfile`) in a
//! child process — the sub-command `child` of this binary — under
//!   strace -f -y -e trace=%file,write,fsync -e inject=<mutating syscalls>:signal=KILL:when=N
//! strace's fault injection kills the child at the entry of the N-th matching syscall, so the N-th
//! mutation does not happen and everything before it did: a crash point without source hooks.
//!
//! Per transaction:
//!  1. materialise the initial store in a scratch git dir (loose refs, packed-refs, reflogs);
//!  2. run the child un-injected under strace; the successful mutating syscalls on the git dir
//!     (openat(O_CREAT) of a new file, write, rename, unlink, mkdir, rmdir — consecutive writes to one
//!     file merged) are the observation of the correspondence case
//!        steps <loose> <packed> <logs> <dirs> <edits>
//!     which the Lean model answers with `txnSteps` (mode `d` = PackedRefs::DeletionsOnly);
//!  3. for EVERY such syscall (index N among the injectable syscalls of the whole process): restore
//!     the initial store, run the child with `when=N`, check it died by SIGKILL, check the trace is
//!     the un-injected trace cut at that syscall, and evaluate the property on what is on disk:
//!       * gitoxide (`try_find` of every ref of the store and of the transaction, `iter().all()`) and
//!         git (`git for-each-ref`, `git fsck`) read every affected ref as its old or its new value and
//!         every other ref unchanged, without errors;
//!       * `packed-refs` is byte-for-byte the old or the new file (or absent if that is old/new);
//!       * every file that is neither in the initial nor in the final state ends in `.lock`.
//!     Modes `u`/`r` (DeletionsAndNonSymbolicUpdates[RemoveLooseSourceReference]) are crash-tested the
//!     same way, oracle only (the model covers the default mode).
use gix_object::bstr::ByteSlice;
use hcommon::*;
use std::collections::{BTreeMap, BTreeSet};
use std::path::{Path, PathBuf};

const NIDS: usize = 16;
const INJECT: &str = "openat,creat,rename,renameat,renameat2,unlink,unlinkat,mkdir,mkdirat,rmdir,write,link,linkat,symlink,symlinkat";

struct AllCommits;
impl gix_object::Find for AllCommits {
    fn try_find<'a>(
        &self,
        _id: &gix_hash::oid,
        buffer: &'a mut Vec<u8>,
    ) -> Result<Option<gix_object::Data<'a>>, gix_object::find::Error> {
        buffer.clear();
        Ok(Some(gix_object::Data {
            kind: gix_object::Kind::Commit,
            data: buffer,
        }))
    }
}

fn open_store(git_dir: &Path) -> gix_ref::file::Store {
    gix_ref::file::Store::at(
        git_dir.to_owned(),
        gix_ref::store::init::Options {
            write_reflog: gix_ref::store::WriteReflog::Normal,
            object_hash: gix_hash::Kind::Sha1,
            precompose_unicode: false,
            prohibit_windows_device_names: false,
        },
    )
}

/// child <git_dir> <mode> <edits>   edits = comma list of U:<name>:<hex id | @target> or D:<name>
fn child(args: &[String]) -> i32 {
    use gix_ref::transaction::{Change, LogChange, PreviousValue, RefEdit, RefLog};
    let store = open_store(Path::new(&args[0]));
    let mode = args[1].as_str();
    let mut edits = Vec::new();
    for e in args[2].split(',') {
        let parts: Vec<&str> = e.splitn(3, ':').collect();
        let name: gix_ref::FullName = parts[1].try_into().expect("valid name");
        match parts[0] {
            "U" => {
                let new = if let Some(t) = parts[2].strip_prefix('@') {
                    gix_ref::Target::Symbolic(t.try_into().expect("valid target"))
                } else {
                    gix_ref::Target::Object(gix_hash::ObjectId::from_hex(parts[2].as_bytes()).expect("hex"))
                };
                edits.push(RefEdit {
                    change: Change::Update {
                        log: LogChange {
                            mode: RefLog::AndReference,
                            force_create_reflog: false,
                            message: "c20".into(),
                        },
                        expected: PreviousValue::Any,
                        new,
                    },
                    name,
                    deref: false,
                });
            }
            "D" => edits.push(RefEdit {
                change: Change::Delete {
                    expected: PreviousValue::Any,
                    log: RefLog::AndReference,
                },
                name,
                deref: false,
            }),
            _ => return 3,
        }
    }
    use gix_ref::file::transaction::PackedRefs;
    let packed = match mode {
        "d" => PackedRefs::DeletionsOnly,
        "u" => PackedRefs::DeletionsAndNonSymbolicUpdates(Box::new(AllCommits)),
        "r" => PackedRefs::DeletionsAndNonSymbolicUpdatesRemoveLooseSourceReference(Box::new(AllCommits)),
        _ => return 3,
    };
    let committer = gix_actor::SignatureRef {
        name: "C".into(),
        email: "c@example.com".into(),
        time: gix_date::Time::new(1700000000, 0),
    };
    // marker for the parent: everything before this line in the trace is process start-up
    let _ = std::fs::metadata("/c20-begin");
    let t = store
        .transaction()
        .packed_refs(packed)
        .prepare(edits, gix_lock::acquire::Fail::Immediately, gix_lock::acquire::Fail::Immediately);
    let t = match t {
        Ok(t) => t,
        Err(e) => {
            eprintln!("prepare: {e}");
            return 4;
        }
    };
    let _ = std::fs::metadata("/c20-prepared");
    match t.commit(committer) {
        Ok(_) => 0,
        Err(e) => {
            eprintln!("commit: {e}");
            5
        }
    }
}

// ---------------------------------------------------------------------------------------------

#[derive(Clone, Debug, PartialEq, Eq)]
enum Val {
    Id(usize),
    Sym(String),
}

#[derive(Clone, Debug)]
enum EditS {
    Update(String, Val),
    Delete(String),
}

impl EditS {
    fn name(&self) -> &str {
        match self {
            EditS::Update(n, _) | EditS::Delete(n) => n,
        }
    }
}

#[derive(Clone, Debug, Default)]
struct StoreS {
    loose: Vec<(String, Val)>,
    /// None: no packed-refs file
    packed: Option<Vec<(String, usize)>>,
    logs: Vec<String>,
    /// extra (empty) directories
    dirs: Vec<String>,
}

struct Env {
    _scratch: Scratch,
    git_dir: PathBuf,
    trace: PathBuf,
    ids: Vec<String>,
    exe: PathBuf,
}

/// everything below refs/, logs/ and the packed-refs files: path → Some(content) for files, None for dirs
type Snap = BTreeMap<String, Option<Vec<u8>>>;

impl Env {
    fn new() -> Env {
        let scratch = Scratch::new("c20");
        let git_dir = scratch.join("r.git");
        std::fs::create_dir_all(&git_dir).unwrap();
        git_ok(&git_dir, &["init", "-q", "--bare", "."], None);
        let tree = git_ok(&git_dir, &["mktree"], Some(b""));
        let mut paths = String::new();
        for i in 0..NIDS {
            let f = scratch.join(format!("c{i}"));
            std::fs::write(
                &f,
                format!("tree {tree}\nauthor A U Thor <author@example.com> 1700000000 +0000\ncommitter C O Mitter <committer@example.com> 1700000000 +0000\n\nc{i}\n"),
            )
            .unwrap();
            paths.push_str(&f.display().to_string());
            paths.push('\n');
        }
        let out = git_ok(&git_dir, &["hash-object", "-w", "-t", "commit", "--stdin-paths"], Some(paths.as_bytes()));
        let ids: Vec<String> = out.lines().map(str::to_string).collect();
        assert_eq!(ids.len(), NIDS);
        // HEAD detached so that no ref of the generated stores is special
        std::fs::write(git_dir.join("HEAD"), format!("{}\n", ids[0])).unwrap();
        Env {
            trace: scratch.join("trace.txt"),
            _scratch: scratch,
            git_dir,
            ids,
            exe: std::env::current_exe().expect("own path"),
        }
    }

    fn val_enc(&self, v: &Val) -> String {
        match v {
            Val::Id(i) => self.ids[*i].clone(),
            Val::Sym(t) => format!("@{t}"),
        }
    }

    fn materialise(&self, s: &StoreS) {
        for d in ["refs", "logs"] {
            let _ = std::fs::remove_dir_all(self.git_dir.join(d));
        }
        for f in ["packed-refs", "packed-refs.lock"] {
            let _ = std::fs::remove_file(self.git_dir.join(f));
        }
        std::fs::create_dir_all(self.git_dir.join("refs")).unwrap();
        for d in &s.dirs {
            std::fs::create_dir_all(self.git_dir.join(d)).unwrap();
        }
        for (n, v) in &s.loose {
            let p = self.git_dir.join(n);
            std::fs::create_dir_all(p.parent().unwrap()).unwrap();
            let content = match v {
                Val::Id(i) => self.ids[*i].clone(),
                Val::Sym(t) => format!("ref: {t}\n"),
            };
            std::fs::write(p, content).unwrap();
        }
        if let Some(packed) = &s.packed {
            let mut out = String::from("# pack-refs with: peeled fully-peeled sorted \n");
            for (n, i) in packed {
                out.push_str(&format!("{} {}\n", self.ids[*i], n));
            }
            std::fs::write(self.git_dir.join("packed-refs"), out).unwrap();
        }
        for n in &s.logs {
            let p = self.git_dir.join("logs").join(n);
            std::fs::create_dir_all(p.parent().unwrap()).unwrap();
            std::fs::write(
                p,
                format!("{} {} C <c@example.com> 1600000000 +0000\tinit\n", "0".repeat(40), self.ids[0]),
            )
            .unwrap();
        }
    }

    fn snapshot(&self) -> Snap {
        fn walk(base: &Path, dir: &Path, out: &mut Snap) {
            let Ok(rd) = std::fs::read_dir(dir) else { return };
            for e in rd.flatten() {
                let p = e.path();
                let rel = p.strip_prefix(base).unwrap().to_string_lossy().to_string();
                if p.is_dir() {
                    out.insert(rel, None);
                    walk(base, &p, out);
                } else {
                    out.insert(rel, Some(std::fs::read(&p).unwrap_or_default()));
                }
            }
        }
        let mut out = Snap::new();
        for d in ["refs", "logs"] {
            let p = self.git_dir.join(d);
            if p.is_dir() {
                out.insert(d.to_string(), None);
                walk(&self.git_dir, &p, &mut out);
            }
        }
        for f in ["packed-refs", "packed-refs.lock"] {
            if let Ok(c) = std::fs::read(self.git_dir.join(f)) {
                out.insert(f.to_string(), Some(c));
            }
        }
        out
    }

    /// run the child under strace; `when`: kill at the entry of the n-th call of the named syscall. Returns (exit code or
    /// None when killed by a signal, the parsed trace).
    fn run(&self, mode: &str, edits: &str, when: Option<(&str, usize)>) -> (Option<i32>, Vec<Sys>) {
        let _ = std::fs::remove_file(&self.trace);
        let mut c = std::process::Command::new("strace");
        c.arg("-f").arg("-y").arg("-s").arg("0").arg("-e").arg("trace=%file,write,fsync").arg("-o").arg(&self.trace);
        if let Some((name, nth)) = when {
            c.arg("-e").arg(format!("inject={name}:signal=KILL:when={nth}"));
        }
        c.arg(&self.exe).arg("child").arg(&self.git_dir).arg(mode).arg(edits);
        c.stdin(std::process::Stdio::null()).stdout(std::process::Stdio::null()).stderr(std::process::Stdio::piped());
        let out = c.output().expect("strace runs");
        let log = std::fs::read_to_string(&self.trace).unwrap_or_default();
        let killed = log.contains("+++ killed by SIGKILL +++");
        let code = if killed { None } else { Some(out.status.code().unwrap_or(-1)) };
        (code, parse_trace(&log, &self.git_dir))
    }
}

/// one injectable syscall of the trace
#[derive(Clone, Debug, PartialEq, Eq)]
struct Sys {
    /// 1-based position in the trace among the injectable syscalls of the whole process
    index: usize,
    /// the syscall and its 1-based index among the calls of this very syscall (strace counts `when=` per syscall)
    name: String,
    nth: usize,
    /// after the child's begin marker
    in_txn: bool,
    /// canonical mutation on the git dir if the call succeeded and is one: (kind, path, path2, len)
    op: Option<(String, String, String, usize)>,
    /// the call did not return (killed at entry)
    unfinished: bool,
}

fn quoted(s: &str) -> Vec<String> {
    // strace -s 0 prints paths in full ("..." only abbreviates buffers); paths here contain no quotes
    let mut out = Vec::new();
    let mut it = s.split('"');
    it.next();
    while let Some(q) = it.next() {
        out.push(q.to_string());
        it.next();
    }
    out
}

fn parse_trace(log: &str, git_dir: &Path) -> Vec<Sys> {
    let inject: BTreeSet<&str> = INJECT.split(',').collect();
    let base = format!("{}/", git_dir.display());
    let rel = |p: &str| p.strip_prefix(&base).map(str::to_string);
    let mut out = Vec::new();
    let mut index = 0;
    let mut per_name: BTreeMap<String, usize> = BTreeMap::new();
    let mut in_txn = false;
    for line in log.lines() {
        let Some((_pid, rest)) = line.split_once(' ') else { continue };
        let rest = rest.trim_start();
        if rest.contains("\"/c20-begin\"") {
            in_txn = true;
        }
        let Some((name, args)) = rest.split_once('(') else { continue };
        if !inject.contains(name) {
            continue;
        }
        index += 1;
        let nth = {
            let c = per_name.entry(name.to_string()).or_insert(0);
            *c += 1;
            *c
        };
        let unfinished = args.contains("<unfinished");
        let ret = args.rsplit_once(" = ").map(|(_, r)| r.trim().to_string()).unwrap_or_default();
        let ok = !unfinished && !ret.starts_with("-1") && !ret.starts_with('?');
        let q = quoted(args);
        let op = if !ok {
            None
        } else {
            match name {
                "openat" | "creat" => {
                    if args.contains("O_CREAT") || name == "creat" {
                        q.first().and_then(|p| rel(p)).map(|p| ("create".to_string(), p, String::new(), 0))
                    } else {
                        None
                    }
                }
                "write" => {
                    // write(4</path>, ""..., 40) = 40
                    let path = args.split_once('<').and_then(|(_, r)| r.split_once('>')).map(|(p, _)| p.to_string());
                    let len = ret.split_whitespace().next().and_then(|n| n.parse::<usize>().ok()).unwrap_or(0);
                    path.and_then(|p| rel(&p)).map(|p| ("append".to_string(), p, String::new(), len))
                }
                "rename" | "renameat" | "renameat2" => match (q.first().and_then(|p| rel(p)), q.get(1).and_then(|p| rel(p))) {
                    (Some(a), Some(b)) => Some(("rename".to_string(), a, b, 0)),
                    _ => None,
                },
                "unlink" | "unlinkat" => {
                    let kind = if args.contains("AT_REMOVEDIR") { "rmdir" } else { "unlink" };
                    q.first().and_then(|p| rel(p)).map(|p| (kind.to_string(), p, String::new(), 0))
                }
                "mkdir" | "mkdirat" => q.first().and_then(|p| rel(p)).map(|p| ("mkdir".to_string(), p, String::new(), 0)),
                "rmdir" => q.first().and_then(|p| rel(p)).map(|p| ("rmdir".to_string(), p, String::new(), 0)),
                _ => q.first().and_then(|p| rel(p)).map(|p| (name.to_string(), p, String::new(), 0)),
            }
        };
        out.push(Sys {
            index,
            name: name.to_string(),
            nth,
            in_txn,
            op,
            unfinished,
        });
    }
    out
}

/// the canonical step list: `create` only for files that did not exist, consecutive writes merged
fn canonical_ops(sys: &[Sys], initial: &Snap) -> Vec<String> {
    let mut files: BTreeSet<String> = initial.iter().filter(|(_, v)| v.is_some()).map(|(k, _)| k.clone()).collect();
    let mut out: Vec<String> = Vec::new();
    let mut last_append: Option<(String, usize)> = None;
    let flush = |out: &mut Vec<String>, la: &mut Option<(String, usize)>| {
        if let Some((p, n)) = la.take() {
            out.push(format!("append:{p}:{n}"));
        }
    };
    for s in sys.iter().filter(|s| s.in_txn) {
        let Some((kind, a, b, len)) = &s.op else { continue };
        if kind == "append" {
            match &mut last_append {
                Some((p, n)) if p == a => *n += len,
                _ => {
                    flush(&mut out, &mut last_append);
                    last_append = Some((a.clone(), *len));
                }
            }
            continue;
        }
        flush(&mut out, &mut last_append);
        match kind.as_str() {
            "create" => {
                if files.insert(a.clone()) {
                    out.push(format!("create:{a}"));
                }
            }
            "rename" => {
                files.remove(a);
                files.insert(b.clone());
                out.push(format!("rename:{a}:{b}"));
            }
            "unlink" => {
                files.remove(a);
                out.push(format!("unlink:{a}"));
            }
            k => out.push(format!("{k}:{a}")),
        }
    }
    flush(&mut out, &mut last_append);
    out
}

fn enc_list<T>(xs: &[T], f: impl Fn(&T) -> String) -> String {
    if xs.is_empty() {
        "-".into()
    } else {
        xs.iter().map(f).collect::<Vec<_>>().join(",")
    }
}

struct Ctx {
    env: Env,
    rep: Report,
    thorough: bool,
    points: u64,
}

impl Ctx {
    fn store_enc(&self, s: &StoreS, initial: &Snap) -> String {
        let dirs: Vec<String> = initial.iter().filter(|(_, v)| v.is_none()).map(|(k, _)| k.clone()).collect();
        format!(
            "{} {} {} {}",
            enc_list(&s.loose, |(n, v)| format!("{n}:{}", self.env.val_enc(v))),
            match &s.packed {
                None => "none".to_string(),
                Some(p) => enc_list(p, |(n, i)| format!("{n}:{}", self.env.ids[*i])),
            },
            enc_list(&s.logs, |n| n.clone()),
            enc_list(&dirs, |d| d.clone()),
        )
    }

    fn edits_enc(&self, txn: &[EditS]) -> String {
        enc_list(txn, |e| match e {
            EditS::Update(n, v) => format!("U:{n}:{}", self.env.val_enc(v)),
            EditS::Delete(n) => format!("D:{n}"),
        })
    }

    /// what gitoxide and git read for every name of interest: name → value string ("<hex>" or "@target")
    fn read_gix(&self, names: &BTreeSet<String>) -> Result<BTreeMap<String, Option<String>>, String> {
        let store = open_store(&self.env.git_dir);
        let mut out = BTreeMap::new();
        for n in names {
            let r = catch(|| store.try_find(n.as_str()));
            match r {
                Ok(Ok(Some(r))) => {
                    let v = match r.target {
                        gix_ref::Target::Object(id) => id.to_string(),
                        gix_ref::Target::Symbolic(t) => format!("@{}", t.as_bstr().to_str_lossy()),
                    };
                    out.insert(n.clone(), Some(v));
                }
                Ok(Ok(None)) => {
                    out.insert(n.clone(), None);
                }
                Ok(Err(e)) => return Err(format!("try_find({n}) failed: {e}")),
                Err(p) => return Err(format!("try_find({n}) panicked: {p}")),
            }
        }
        // iteration must work as well
        match catch(|| -> Result<usize, String> {
            let p = store.iter().map_err(|e| e.to_string())?;
            let mut n = 0;
            for r in p.all().map_err(|e| e.to_string())? {
                r.map_err(|e| e.to_string())?;
                n += 1;
            }
            Ok(n)
        }) {
            Ok(Ok(_)) => Ok(out),
            Ok(Err(e)) => Err(format!("iter().all() failed: {e}")),
            Err(p) => Err(format!("iter().all() panicked: {p}")),
        }
    }

    fn read_git(&self) -> Result<BTreeMap<String, String>, String> {
        let o = git(&self.env.git_dir, &["--git-dir=.", "for-each-ref", "--format=%(refname) %(objectname) %(symref)"], None);
        if !o.ok {
            return Err(format!("git for-each-ref failed: {}", String::from_utf8_lossy(&o.stderr)));
        }
        if !o.stderr.is_empty() {
            return Err(format!("git for-each-ref complained: {}", String::from_utf8_lossy(&o.stderr)));
        }
        let mut out = BTreeMap::new();
        for l in String::from_utf8_lossy(&o.stdout).lines() {
            let mut it = l.splitn(3, ' ');
            let name = it.next().unwrap_or("").to_string();
            let oid = it.next().unwrap_or("").to_string();
            let sym = it.next().unwrap_or("");
            out.insert(name, if sym.is_empty() { oid } else { format!("@{sym}") });
        }
        Ok(out)
    }

    /// one transaction: correspondence + every crash point
    fn do_txn(&mut self, s: &StoreS, txn: &[EditS], mode: &str, crash: bool) {
        let env = &self.env;
        env.materialise(s);
        let initial = env.snapshot();
        let edits = self.edits_enc(txn);
        let opname = match mode {
            "u" => "stepsu",
            "r" => "stepsr",
            _ => "steps",
        };
        let op = format!("{opname} {} {}", self.store_enc(s, &initial), edits);
        let key_base = format!("{mode} {} {}", self.store_enc(s, &initial), edits);
        self.rep.bucket(&format!("mode:{mode}"));

        // ---- un-injected run ----
        let (code, sys) = self.env.run(mode, &edits, None);
        if code != Some(0) {
            self.rep.outside_domain(&format!("transaction refused (exit {code:?}): {key_base}"));
            return;
        }
        let final_snap = self.env.snapshot();
        let ops = canonical_ops(&sys, &initial);
        {
            let obs = if ops.is_empty() { "-".to_string() } else { ops.join(" ") };
            self.rep.case(&op, &obs, true);
        }
        self.rep.bucket(&format!("steps:{}", (ops.len() / 4 * 4).min(24)));

        // ---- expectations (model independent) ----
        let value_in = |snap: &Snap, packed_of: &dyn Fn(&str) -> Option<String>, n: &str| -> Option<String> {
            match snap.get(n) {
                Some(Some(c)) => {
                    let c = String::from_utf8_lossy(c).trim_end().to_string();
                    Some(match c.strip_prefix("ref: ") {
                        Some(t) => format!("@{t}"),
                        None => c,
                    })
                }
                _ => packed_of(n),
            }
        };
        let packed_lookup = |snap: &Snap| {
            let recs: BTreeMap<String, String> = match snap.get("packed-refs") {
                Some(Some(c)) => String::from_utf8_lossy(c)
                    .lines()
                    .filter(|l| !l.starts_with('#') && !l.starts_with('^'))
                    .filter_map(|l| l.split_once(' ').map(|(id, n)| (n.to_string(), id.to_string())))
                    .collect(),
                _ => BTreeMap::new(),
            };
            move |n: &str| recs.get(n).cloned()
        };
        let old_packed = packed_lookup(&initial);
        let new_packed = packed_lookup(&final_snap);
        let mut names: BTreeSet<String> = BTreeSet::new();
        for (n, _) in &s.loose {
            names.insert(n.clone());
        }
        for (n, _) in s.packed.iter().flatten() {
            names.insert(n.clone());
        }
        for e in txn {
            names.insert(e.name().to_string());
        }
        let affected: BTreeMap<String, Option<String>> = txn
            .iter()
            .map(|e| {
                (
                    e.name().to_string(),
                    match e {
                        EditS::Update(_, v) => Some(self.env.val_enc(v)),
                        EditS::Delete(_) => None,
                    },
                )
            })
            .collect();
        let old: BTreeMap<String, Option<String>> = names.iter().map(|n| (n.clone(), value_in(&initial, &old_packed, n))).collect();
        // the complete run must have produced the intended values
        for (n, want) in &affected {
            let got = value_in(&final_snap, &new_packed, n);
            self.rep.oracle_checked();
            if &got != want {
                self.rep.oracle_failure(
                    &format!("final {key_base}"),
                    &format!("after the complete transaction {n} reads {got:?}, intended {want:?}"),
                    &op,
                );
            }
        }

        // gitoxide and git must be able to read the final state as well
        {
            let mut problems = Vec::new();
            if let Err(e) = self.read_gix(&names) {
                problems.push(format!("gitoxide cannot read the store after the complete transaction: {e}"));
            }
            match self.read_git() {
                Err(e) => problems.push(format!("after the complete transaction: {e}")),
                Ok(got) => {
                    for (n, want) in &affected {
                        let v = got.get(n).cloned();
                        let symbolic = |x: &Option<String>| x.as_deref().map_or(false, |x| x.starts_with('@'));
                        if &v != want && !(symbolic(&v) && symbolic(want)) {
                            problems.push(format!("after the complete transaction git reads {n} as {v:?}, intended {want:?}"));
                        }
                    }
                }
            }
            self.rep.git_checked(1);
            self.rep.oracle_checked();
            if let Some(p) = problems.first() {
                self.rep.oracle_failure(&format!("final {key_base}"), p, &op);
            }
        }

        // ---- every crash point ----
        let targets: Vec<&Sys> = sys.iter().filter(|x| crash && x.in_txn && x.op.is_some()).collect();
        for (k, t) in targets.iter().enumerate() {
            self.env.materialise(s);
            let (code, ksys) = self.env.run(mode, &edits, Some((t.name.as_str(), t.nth)));
            self.points += 1;
            self.rep.oracle_checked();
            let key = format!("crash@{k} {key_base}");
            if code.is_some() {
                self.rep.note(&format!("injection at syscall {} did not kill the child ({key})", t.index));
                continue;
            }
            // the trace up to the kill is the un-injected trace: crash point k = the first k mutations happened
            let kops = canonical_ops(&ksys, &initial);
            let upto: Vec<Sys> = sys.iter().filter(|x| x.index < t.index).cloned().collect();
            let want_ops = canonical_ops(&upto, &initial);
            if kops != want_ops {
                self.rep.note(&format!("non-deterministic trace before crash point ({key}): {kops:?} vs {want_ops:?}"));
            }
            let snap = self.env.snapshot();
            let mut fails: Vec<String> = Vec::new();
            let mut fail = |detail: String| fails.push(detail);
            // (1) gitoxide
            match self.read_gix(&names) {
                Err(e) => fail(format!("gitoxide cannot read the store: {e}")),
                Ok(got) => {
                    for (n, v) in &got {
                        let o = old.get(n).cloned().flatten();
                        let okay = match affected.get(n) {
                            Some(new) => *v == o || v == new,
                            None => *v == o,
                        };
                        if !okay {
                            fail(format!("gitoxide reads {n} as {v:?}; old {o:?}, new {:?}", affected.get(n)));
                        }
                    }
                }
            }
            // (2) git
            match self.read_git() {
                Err(e) => fail(e),
                Ok(got) => {
                    for n in &names {
                        let v = got.get(n).cloned();
                        let o = old.get(n).cloned().flatten();
                        // git prints the resolved symref target; only direct values are compared exactly
                        let same = |a: &Option<String>, b: &Option<String>| match (a, b) {
                            (Some(a), Some(b)) if a.starts_with('@') && b.starts_with('@') => true,
                            (a, b) => a == b,
                        };
                        let okay = match affected.get(n) {
                            Some(new) => same(&v, &o) || same(&v, new),
                            None => same(&v, &o),
                        };
                        if !okay {
                            fail(format!("git reads {n} as {v:?}; old {o:?}, new {:?}", affected.get(n)));
                        }
                    }
                    for n in got.keys() {
                        if !names.contains(n) {
                            fail(format!("git lists {n} which is neither in the store nor in the transaction"));
                        }
                    }
                }
            }
            if self.thorough || k % 3 == 0 {
                let o = git(&self.env.git_dir, &["--git-dir=.", "fsck", "--no-dangling", "--no-progress"], None);
                self.rep.git_checked(1);
                let err = String::from_utf8_lossy(&o.stderr).to_string();
                if !o.ok || err.contains("error") || err.contains("invalid") || err.contains("bad") {
                    fail(format!("git fsck: exit {} {err}", o.code));
                }
            }
            // (3) packed-refs is the complete old or the complete new file
            let p = snap.get("packed-refs");
            if p != initial.get("packed-refs") && p != final_snap.get("packed-refs") {
                fail(format!("packed-refs is neither the old nor the new file: {:?}", p.map(|c| c.as_ref().map(|c| String::from_utf8_lossy(c).to_string()))));
            }
            // (4) leftovers are lock files (directories do not count)
            for (path, c) in &snap {
                if c.is_some() && !matches!(initial.get(path), Some(Some(_))) && !matches!(final_snap.get(path), Some(Some(_))) && !path.ends_with(".lock") {
                    fail(format!("leftover file {path} is not a lock file"));
                }
            }
            // reflogs are whole lines
            for (path, c) in &snap {
                if let (true, Some(c)) = (path.starts_with("logs/"), c) {
                    if !c.is_empty() && !c.ends_with(b"\n") {
                        fail(format!("torn reflog line in {path}"));
                    }
                }
            }
            self.rep.git_checked(1);
            if let Some(first) = fails.first() {
                let detail = format!("{first} — killed before `{}`, after {:?}", t.op.as_ref().map(|o| format!("{}:{}", o.0, o.1)).unwrap_or_default(), kops.last());
                self.rep.oracle_failure(&key, &detail, &op);
            }
        }
        self.rep.bucket(&format!("crash-points:{}", (targets.len() / 4 * 4).min(24)));
    }
}

// ---------------------------------------------------------------------------------------------

const COMPONENTS: &[&str] = &["a", "b", "a-b", "m", "x"];

fn gen_name(rng: &mut Rng) -> String {
    let top = *rng.pick(&["heads", "heads", "tags", "remotes", "notes", "x"]);
    let depth = 1 + rng.usize(3);
    let mut n = format!("refs/{top}");
    for _ in 0..depth {
        n.push('/');
        n.push_str(*rng.pick(COMPONENTS));
    }
    n
}

fn conflicts(names: &BTreeSet<String>, n: &str) -> bool {
    if names.contains(n) {
        return true;
    }
    let pre = format!("{n}/");
    if names.iter().any(|m| m.starts_with(&pre)) {
        return true;
    }
    let mut cur = n;
    while let Some((parent, _)) = cur.rsplit_once('/') {
        if names.contains(parent) {
            return true;
        }
        cur = parent;
    }
    false
}

fn gen_case(rng: &mut Rng) -> (StoreS, Vec<EditS>) {
    let mut names: BTreeSet<String> = BTreeSet::new();
    let n = 1 + rng.usize(6);
    for _ in 0..n * 3 {
        if names.len() >= n {
            break;
        }
        let c = gen_name(rng);
        if !conflicts(&names, &c) {
            names.insert(c);
        }
    }
    let mut s = StoreS::default();
    let has_packed = rng.chance(2, 3);
    let mut packed = Vec::new();
    let mut next = rng.usize(NIDS);
    let mut fresh = || {
        next = (next + 1) % NIDS;
        next
    };
    for n in &names {
        let kind = rng.below(4); // 0 loose, 1 packed, 2 both (stale packed), 3 loose
        let loose = kind != 1 || !has_packed;
        if has_packed && (kind == 1 || kind == 2) {
            packed.push((n.clone(), fresh()));
        }
        if loose {
            s.loose.push((n.clone(), Val::Id(fresh())));
        }
        if rng.chance(1, 2) {
            s.logs.push(n.clone());
        }
    }
    if has_packed {
        s.packed = Some(packed);
    }
    // now and then one loose ref is symbolic, pointing at a direct ref (no chains, no cycles)
    if rng.chance(1, 4) && s.loose.len() > 1 {
        let i = rng.usize(s.loose.len());
        let j = (i + 1 + rng.usize(s.loose.len() - 1)) % s.loose.len();
        let t = s.loose[j].0.clone();
        s.loose[i].1 = Val::Sym(t);
    }
    if rng.chance(1, 3) {
        s.dirs.push("refs/heads".into());
        s.dirs.push("refs/tags".into());
    }
    // the transaction: 1–4 edits on distinct names, existing or new
    let mut txn = Vec::new();
    let mut used: BTreeSet<String> = BTreeSet::new();
    let existing: Vec<String> = names.iter().cloned().collect();
    let k = 1 + rng.usize(4);
    for _ in 0..k * 3 {
        if txn.len() >= k {
            break;
        }
        let pick_existing = !existing.is_empty() && rng.chance(2, 3);
        let name = if pick_existing { rng.pick(&existing).clone() } else { gen_name(rng) };
        if used.contains(&name) {
            continue;
        }
        let all: BTreeSet<String> = names.union(&used).cloned().collect();
        if !pick_existing && conflicts(&all, &name) {
            continue;
        }
        // a ref that a symbolic ref points to is left alone: a dangling symref (git warns about it) is
        // outside the property, at the end and at any crash point
        if s.loose.iter().any(|(_, v)| *v == Val::Sym(name.clone())) {
            continue;
        }
        used.insert(name.clone());
        if rng.chance(2, 5) {
            txn.push(EditS::Delete(name));
        } else {
            // a value different from the current one, so that the update is effective
            let cur = s.loose.iter().find(|(n, _)| *n == name).map(|(_, v)| v.clone()).or_else(|| {
                s.packed.iter().flatten().find(|(n, _)| *n == name).map(|(_, i)| Val::Id(*i))
            });
            let mut v = Val::Id(fresh());
            if Some(&v) == cur.as_ref() {
                v = Val::Id(fresh());
            }
            if rng.chance(1, 8) && !existing.is_empty() {
                let t = rng.pick(&existing).clone();
                if t != name && cur != Some(Val::Sym(t.clone())) {
                    v = Val::Sym(t);
                }
            }
            txn.push(EditS::Update(name, v));
        }
    }
    // new symbolic targets must exist and stay untouched by this transaction
    let edited: BTreeSet<String> = txn.iter().map(|e| e.name().to_string()).collect();
    for e in txn.iter_mut() {
        if let EditS::Update(name, v) = e {
            if let Val::Sym(t) = v {
                let exists_direct = match s.loose.iter().find(|(n, _)| n == t) {
                    Some((_, v)) => matches!(v, Val::Id(_)),
                    None => s.packed.iter().flatten().any(|(n, _)| n == t),
                };
                if edited.contains(t) || !exists_direct {
                    let cur = s.loose.iter().find(|(n, _)| n == name).map(|(_, v)| v.clone()).or_else(|| {
                        s.packed.iter().flatten().find(|(n, _)| n == name).map(|(_, i)| Val::Id(*i))
                    });
                    let mut nv = Val::Id(fresh());
                    if Some(&nv) == cur.as_ref() {
                        nv = Val::Id(fresh());
                    }
                    *v = nv;
                }
            }
        }
    }
    (s, txn)
}

fn corpus() -> Vec<(StoreS, Vec<EditS>)> {
    let l = |v: &[(&str, usize)]| v.iter().map(|(n, i)| (n.to_string(), Val::Id(*i))).collect::<Vec<_>>();
    let p = |v: &[(&str, usize)]| Some(v.iter().map(|(n, i)| (n.to_string(), *i)).collect::<Vec<_>>());
    let names = |v: &[&str]| v.iter().map(|s| s.to_string()).collect::<Vec<_>>();
    vec![
        // update + create in a new directory + delete of a stale-packed ref + delete of a packed-only ref
        (
            StoreS {
                loose: l(&[("refs/heads/x/y", 3)]),
                packed: p(&[("refs/heads/main", 1), ("refs/heads/x/y", 2), ("refs/tags/t", 1)]),
                logs: names(&["refs/heads/x/y"]),
                dirs: names(&["refs/tags"]),
            },
            vec![
                EditS::Update("refs/heads/main".into(), Val::Id(2)),
                EditS::Update("refs/heads/new/z".into(), Val::Id(3)),
                EditS::Delete("refs/heads/x/y".into()),
                EditS::Delete("refs/tags/t".into()),
            ],
        ),
        // the last loose ref of a store without packed-refs is deleted: refs/ must survive
        (
            StoreS {
                loose: l(&[("refs/heads/x/y", 1)]),
                packed: None,
                logs: names(&["refs/heads/x/y"]),
                dirs: vec![],
            },
            vec![EditS::Delete("refs/heads/x/y".into())],
        ),
        // every packed ref is deleted: packed-refs disappears
        (
            StoreS {
                loose: vec![],
                packed: p(&[("refs/heads/a", 1), ("refs/tags/b", 2)]),
                logs: vec![],
                dirs: names(&["refs/heads", "refs/tags"]),
            },
            vec![EditS::Delete("refs/heads/a".into()), EditS::Delete("refs/tags/b".into())],
        ),
        // symbolic update, tag update (no reflog auto-creation), existing reflog appended
        (
            StoreS {
                loose: l(&[("refs/heads/a", 1), ("refs/tags/t", 2)]),
                packed: None,
                logs: names(&["refs/heads/a"]),
                dirs: vec![],
            },
            vec![
                EditS::Update("refs/heads/a".into(), Val::Id(4)),
                EditS::Update("refs/tags/t".into(), Val::Id(5)),
                EditS::Update("refs/heads/s".into(), Val::Sym("refs/heads/a".into())),
            ],
        ),
    ]
}

fn parse_case(env: &Env, a: &[&str]) -> Option<(StoreS, Vec<EditS>)> {
    // steps <loose> <packed> <logs> <dirs> <edits>
    let idx = |h: &str| env.ids.iter().position(|x| x == h);
    let val = |v: &str| -> Option<Val> {
        match v.strip_prefix('@') {
            Some(t) => Some(Val::Sym(t.to_string())),
            None => idx(v).map(Val::Id),
        }
    };
    let mut s = StoreS::default();
    if a[0] != "-" {
        for e in a[0].split(',') {
            let (n, v) = e.split_once(':')?;
            s.loose.push((n.to_string(), val(v)?));
        }
    }
    if a[1] != "none" {
        let mut p = Vec::new();
        if a[1] != "-" {
            for e in a[1].split(',') {
                let (n, v) = e.split_once(':')?;
                p.push((n.to_string(), idx(v)?));
            }
        }
        s.packed = Some(p);
    }
    if a[2] != "-" {
        s.logs = a[2].split(',').map(str::to_string).collect();
    }
    if a[3] != "-" {
        s.dirs = a[3].split(',').filter(|d| d.starts_with("refs")).map(str::to_string).collect();
    }
    let mut txn = Vec::new();
    for e in a[4].split(',') {
        let parts: Vec<&str> = e.splitn(3, ':').collect();
        match parts[0] {
            "U" => txn.push(EditS::Update(parts.get(1)?.to_string(), val(parts.get(2)?)?)),
            "D" => txn.push(EditS::Delete(parts.get(1)?.to_string())),
            _ => return None,
        }
    }
    Some((s, txn))
}

fn main() {
    let argv: Vec<String> = std::env::args().collect();
    if argv.get(1).map(String::as_str) == Some("child") {
        std::process::exit(child(&argv[2..]));
    }
    if let Err(msg) = catch(real_main) {
        eprintln!("harness panicked: {msg}");
        std::process::exit(101);
    }
}

fn real_main() {
    let args = Args::parse();
    let rep = Report::new("C20", &args);
    let mut rng = Rng::new(args.seed);
    let mut ctx = Ctx {
        env: Env::new(),
        rep,
        thorough: args.thorough,
        points: 0,
    };
    if let Some(ops) = replay_ops(&args) {
        for op in ops {
            let a: Vec<&str> = op.split(' ').collect();
            let mode = match a.first() {
                Some(&"steps") => "d",
                Some(&"stepsu") => "u",
                Some(&"stepsr") => "r",
                _ => continue,
            };
            if a.len() != 6 {
                continue;
            }
            if let Some((s, txn)) = parse_case(&ctx.env, &a[1..]) {
                ctx.do_txn(&s, &txn, mode, true);
            }
        }
        ctx.rep.finish();
        return;
    }
    for (s, txn) in corpus() {
        ctx.rep.bucket("corpus");
        ctx.do_txn(&s, &txn, "d", true);
    }
    let n = args.budget(5, 40);
    for i in 0..n {
        let (s, txn) = gen_case(&mut rng);
        if txn.is_empty() {
            continue;
        }
        let mode = match i % 5 {
            3 => "u",
            4 => "r",
            _ => "d",
        };
        ctx.do_txn(&s, &txn, mode, true);
    }
    // more transactions for the correspondence on the step sequence alone (one traced run each)
    for _ in 0..args.budget(20, 150) {
        let (s, txn) = gen_case(&mut rng);
        if !txn.is_empty() {
            ctx.rep.bucket("steps-only");
            let mode = *rng.pick(&["d", "d", "u", "r"]);
            ctx.do_txn(&s, &txn, mode, false);
        }
    }
    let points = ctx.points;
    ctx.rep.note(&format!("{points} crash points (process killed by strace fault injection at the entry of a mutating syscall) evaluated"));
    ctx.rep.finish();
}
