//! C05 — object ids, their hex forms and prefixes.
//!
//! Every case is an op line; `exec` parses the op line, calls the REAL gix-hash code, records the
//! observation for the Lean driver, and evaluates the property itself against an independent
//! oracle: the id rendered with `format!("{:02x}")` and plain string-prefix comparison.
use gix_hash::{ObjectId, Prefix};
use hcommon::*;
use std::cmp::Ordering;

/// independent rendering of an id (not gix-hash, not faster-hex)
fn hexs(id: &[u8]) -> String {
    id.iter().map(|b| format!("{b:02x}")).collect()
}

fn ord(o: Ordering) -> &'static str {
    match o {
        Ordering::Less => "lt",
        Ordering::Equal => "eq",
        Ordering::Greater => "gt",
    }
}

fn id_of(s: &str) -> Option<ObjectId> {
    let b = unhex(s)?;
    (b.len() == 20).then(|| ObjectId::from_bytes_or_panic(&b))
}

fn show_prefix(p: &Prefix) -> String {
    format!("ok {} {} {}", hex(p.as_oid().as_bytes()), p.hex_len(), p)
}

fn is_hex_digit(b: u8) -> bool {
    b.is_ascii_digit() || (b'a'..=b'f').contains(&b) || (b'A'..=b'F').contains(&b)
}

/// the property for a successfully built prefix, against the independent oracle
fn check_prefix(rep: &mut Report, op: &str, what: &str, p: &Prefix, digits: &str) {
    rep.oracle_checked();
    let n = digits.len();
    if p.hex_len() != n {
        rep.oracle_failure(&format!("{what} hex_len"), &format!("hex_len() = {} but {} digits were given", p.hex_len(), n), op);
    }
    if p.to_string() != digits {
        rep.oracle_failure(&format!("{what} display"), &format!("prints as {:?}, expected the digits {:?}", p.to_string(), digits), op);
    }
    let full = hexs(p.as_oid().as_bytes());
    let expect = format!("{digits}{}", "0".repeat(40 - n.min(40)));
    if full != expect {
        rep.oracle_failure(&format!("{what} mask"), &format!("as_oid() is {full}, expected {expect}"), op);
    }
}

fn check_cmp(rep: &mut Report, op: &str, what: &str, p: &Prefix, digits: &str, cand: &ObjectId) -> Result<Ordering, ()> {
    rep.oracle_checked();
    let ch = hexs(cand.as_bytes());
    let n = digits.len();
    let expect = digits.cmp(&ch[..n.min(40)]);
    match catch(|| p.cmp_oid(cand)) {
        Err(msg) => {
            rep.oracle_failure(&format!("{what} cmp-panic"), &format!("cmp_oid panicked: {msg}"), op);
            Err(())
        }
        Ok(got) => {
            if got != expect {
                rep.oracle_failure(
                    &format!("{what} cmp cand={ch}"),
                    &format!("cmp_oid = {:?} but comparing the {n} digits {digits:?} with {:?} gives {:?}", got, &ch[..n], expect),
                    op,
                );
            }
            if (got == Ordering::Equal) != ch.starts_with(digits) {
                rep.oracle_failure(
                    &format!("{what} eq cand={ch}"),
                    &format!("cmp_oid == Equal is {} but starts_with({digits:?}) is {}", got == Ordering::Equal, ch.starts_with(digits)),
                    op,
                );
            }
            Ok(got)
        }
    }
}

fn exec(rep: &mut Report, op: &str) {
    let a: Vec<&str> = op.split(' ').collect();
    match a.as_slice() {
        ["tohex", id, len] => {
            let (Some(id), Ok(len)) = (id_of(id), len.parse::<usize>()) else { return rep.note("bad op") };
            let full = id.to_hex().to_string();
            let cut = match catch(|| id.to_hex_with_len(len).to_string()) {
                Ok(s) => s,
                Err(_) => {
                    rep.case(op, "panic", true);
                    rep.oracle_failure(&format!("tohex len={len}"), "to_hex_with_len panicked", op);
                    return;
                }
            };
            rep.case(op, &format!("{full} {cut}"), true);
            rep.bucket(&format!("tohex:len{}", if len > 40 { ">40".into() } else { (len / 10 * 10).to_string() }));
            rep.oracle_checked();
            let want = hexs(id.as_bytes());
            let mut w = Vec::new();
            id.write_hex_to(&mut w).expect("write to vec");
            if full != want || w != want.as_bytes() || id.to_string() != want {
                rep.oracle_failure(&format!("tohex id={want}"), &format!("to_hex()={full} write_hex_to={:?} Display={}", String::from_utf8_lossy(&w), id), op);
            }
            if cut != want[..len.min(40)] {
                rep.oracle_failure(&format!("tohex id={want} len={len}"), &format!("to_hex_with_len({len}) = {cut}"), op);
            }
            // round trip, lower and upper case
            for text in [want.clone(), want.to_uppercase()] {
                match ObjectId::from_hex(text.as_bytes()) {
                    Ok(back) if back == id => {}
                    other => rep.oracle_failure(&format!("hexrt id={want}"), &format!("from_hex({text}) = {other:?}"), op),
                }
            }
        }
        ["idfromhex", s] => {
            let Some(s) = unhex(s) else { return rep.note("bad op") };
            let r = match catch(|| ObjectId::from_hex(&s)) {
                Ok(r) => r,
                Err(msg) => {
                    rep.case(op, "panic", true);
                    rep.oracle_failure(&format!("idfromhex-panic {}", hex(&s)), &msg, op);
                    return;
                }
            };
            use gix_hash::decode::Error as E;
            let obs = match &r {
                Ok(id) => format!("ok {}", hex(id.as_bytes())),
                Err(E::InvalidHexEncodingLength(_)) => "err:len".into(),
                Err(E::Invalid) => "err:invalid".into(),
            };
            rep.case(op, &obs, s.len() == 40);
            rep.bucket(&format!("idfromhex:{}", obs.split(' ').next().unwrap()));
            rep.oracle_checked();
            let expect_ok = s.len() == 40 && s.iter().all(|b| is_hex_digit(*b));
            match &r {
                Ok(id) => {
                    let lower = String::from_utf8_lossy(&s).to_ascii_lowercase();
                    if !expect_ok || hexs(id.as_bytes()) != lower || id.to_hex().to_string() != lower {
                        rep.oracle_failure(&format!("idfromhex {}", hex(&s)), &format!("parsed to {id}, text lower-cased is {lower}"), op);
                    }
                }
                Err(e) => {
                    let want_len = s.len() != 40;
                    if expect_ok || want_len != matches!(e, E::InvalidHexEncodingLength(_)) {
                        rep.oracle_failure(&format!("idfromhex {}", hex(&s)), &format!("unexpected error {e:?}"), op);
                    }
                }
            }
        }
        ["pnew", id, n] => {
            let (Some(id), Ok(n)) = (id_of(id), n.parse::<usize>()) else { return rep.note("bad op") };
            let r = match catch(|| Prefix::new(&id, n)) {
                Ok(r) => r,
                Err(msg) => {
                    rep.case(op, "panic", true);
                    rep.oracle_failure(&format!("pnew-panic n={n}"), &msg, op);
                    return;
                }
            };
            use gix_hash::prefix::Error as E;
            let obs = match &r {
                Ok(p) => show_prefix(p),
                Err(E::TooLong { .. }) => "err:long".into(),
                Err(E::TooShort { .. }) => "err:short".into(),
            };
            rep.case(op, &obs, true);
            rep.bucket(&format!("pnew:{}:{}", obs.split(' ').next().unwrap(), if n % 2 == 1 { "odd" } else { "even" }));
            match &r {
                Ok(p) => {
                    if !(4..=40).contains(&n) {
                        rep.oracle_failure(&format!("pnew n={n}"), "accepted a length outside 4..=40", op);
                    } else {
                        let digits = hexs(id.as_bytes())[..n].to_string();
                        check_prefix(rep, op, &format!("pnew id={id} n={n}"), p, &digits);
                    }
                }
                Err(e) => {
                    rep.oracle_checked();
                    let ok = match e {
                        E::TooLong { .. } => n > 40,
                        E::TooShort { .. } => n < 4,
                    };
                    if !ok {
                        rep.oracle_failure(&format!("pnew n={n}"), &format!("wrong error {e:?}"), op);
                    }
                }
            }
        }
        ["pfromhex", s] => {
            let Some(s) = unhex(s) else { return rep.note("bad op") };
            let Ok(text) = String::from_utf8(s.clone()) else {
                return rep.note("pfromhex: not UTF-8, cannot be passed as &str");
            };
            let r = match catch(|| Prefix::from_hex(&text)) {
                Ok(r) => r,
                Err(msg) => {
                    rep.case(op, "panic", true);
                    rep.oracle_failure(&format!("pfromhex-panic {}", hex(&s)), &msg, op);
                    return;
                }
            };
            use gix_hash::prefix::from_hex::Error as E;
            let obs = match &r {
                Ok(p) => show_prefix(p),
                Err(E::TooLong { .. }) => "err:long".into(),
                Err(E::TooShort { .. }) => "err:short".into(),
                Err(E::Invalid) => "err:invalid".into(),
            };
            rep.case(op, &obs, true);
            rep.bucket(&format!(
                "pfromhex:{}:{}",
                obs.split(' ').next().unwrap(),
                if !text.is_ascii() { "utf8" } else if s.len() % 2 == 1 { "odd" } else { "even" }
            ));
            let all_hex = s.iter().all(|b| is_hex_digit(*b));
            match &r {
                Ok(p) => {
                    if !(4..=40).contains(&s.len()) || !all_hex {
                        rep.oracle_failure(&format!("pfromhex {}", hex(&s)), "accepted text that is not 4..=40 hex digits", op);
                    } else {
                        check_prefix(rep, op, &format!("pfromhex {text}"), p, &text.to_ascii_lowercase());
                    }
                }
                Err(e) => {
                    rep.oracle_checked();
                    let ok = match e {
                        E::TooLong { .. } => s.len() > 40,
                        E::TooShort { .. } => s.len() < 4,
                        E::Invalid => (4..=40).contains(&s.len()) && !all_hex,
                    };
                    if !ok {
                        rep.oracle_failure(&format!("pfromhex {}", hex(&s)), &format!("wrong error {e:?}"), op);
                    }
                }
            }
        }
        ["pcmpnew", id, n, c] => {
            let (Some(id), Ok(n), Some(c)) = (id_of(id), n.parse::<usize>(), id_of(c)) else { return rep.note("bad op") };
            match Prefix::new(&id, n) {
                Err(_) => rep.case(op, "err", false),
                Ok(p) => {
                    let digits = hexs(id.as_bytes())[..n].to_string();
                    match check_cmp(rep, op, &format!("pcmpnew id={id} n={n}"), &p, &digits, &c) {
                        Ok(o) => {
                            rep.case(op, ord(o), true);
                            rep.bucket(&format!("pcmp:{}:{}", ord(o), if n % 2 == 1 { "odd" } else { "even" }));
                        }
                        Err(()) => rep.case(op, "panic", true),
                    }
                }
            }
        }
        ["pcmphex", s, c] => {
            let (Some(s), Some(c)) = (unhex(s), id_of(c)) else { return rep.note("bad op") };
            let Ok(text) = String::from_utf8(s) else { return rep.note("pcmphex: not UTF-8") };
            match Prefix::from_hex(&text) {
                Err(_) => rep.case(op, "err", false),
                Ok(p) => match check_cmp(rep, op, &format!("pcmphex {text}"), &p, &text.to_ascii_lowercase(), &c) {
                    Ok(o) => {
                        rep.case(op, ord(o), true);
                        rep.bucket(&format!("pcmphex:{}:{}", ord(o), if text.len() % 2 == 1 { "odd" } else { "even" }));
                    }
                    Err(()) => rep.case(op, "panic", true),
                },
            }
        }
        _ => rep.note(&format!("unknown op {op}")),
    }
}

fn gen_id(r: &mut Rng) -> Vec<u8> {
    match r.below(8) {
        0 => vec![0; 20],
        1 => vec![0xff; 20],
        2 => {
            // long runs of one nibble pattern so that neighbours are "close"
            let b = *r.pick(&[0x00u8, 0x0f, 0xf0, 0xff, 0x10, 0x01, 0x9a, 0xa9]);
            let mut v = vec![b; 20];
            let i = r.usize(20);
            v[i] = r.byte();
            v
        }
        _ => r.bytes(20),
    }
}

/// a candidate related to `id` around hex position `n`: identical, or differing in exactly one
/// nibble at position n-2..=n+1, or differing only after the prefix, or random
fn gen_cand(r: &mut Rng, id: &[u8], n: usize) -> Vec<u8> {
    let mut c = id.to_vec();
    let flip = |c: &mut Vec<u8>, pos: usize, r: &mut Rng| {
        if pos < 40 {
            let delta = 1 + r.below(15) as u8;
            let (i, hi) = (pos / 2, pos % 2 == 0);
            let nib = if hi { c[i] >> 4 } else { c[i] & 0xf };
            let nn = (nib + delta) & 0xf;
            c[i] = if hi { (c[i] & 0x0f) | (nn << 4) } else { (c[i] & 0xf0) | nn };
        }
    };
    match r.below(8) {
        0 => {}
        1 => flip(&mut c, n.saturating_sub(1), r), // last nibble inside the prefix
        2 => flip(&mut c, n, r),                   // first nibble after the prefix
        3 => flip(&mut c, n + 1, r),
        4 => flip(&mut c, n.saturating_sub(2), r),
        5 => {
            // everything after the prefix is different
            for pos in n..40 {
                flip(&mut c, pos, r);
            }
        }
        6 => {
            let pos = r.usize(40);
            flip(&mut c, pos, r)
        }
        _ => c = r.bytes(20),
    }
    c
}

fn gen_len(r: &mut Rng) -> usize {
    match r.below(6) {
        0 => *r.pick(&[0usize, 1, 2, 3, 4, 5, 39, 40, 41, 42]),
        _ => r.usize(43),
    }
}

fn mixed_case(r: &mut Rng, s: &str) -> String {
    s.chars()
        .map(|c| if r.chance(1, 2) { c.to_ascii_uppercase() } else { c })
        .collect()
}

/// text handed to `Prefix::from_hex`: mostly valid hex of every length and case, plus non-hex
/// ASCII, near-hex bytes (`g`, `G`, `/`, `:`, `@`, `` ` ``) and multi-byte UTF-8 of byte length 4..=40
fn gen_text(r: &mut Rng, id: &[u8]) -> String {
    let n = gen_len(r);
    let base = format!("{}{}", hexs(id), "ab")[..n.min(42)].to_string();
    match r.below(10) {
        0..=5 => mixed_case(r, &base),
        6 => base.to_uppercase(),
        7 => {
            let mut b = base.into_bytes();
            if !b.is_empty() {
                let i = r.usize(b.len());
                b[i] = *r.pick(b"gG/:@`zZ -+x\n\0");
            }
            String::from_utf8(b).unwrap()
        }
        8 => {
            // multi-byte characters: byte length in 4..=40 although fewer chars
            let mut s = String::new();
            let target = 4 + r.usize(37);
            while s.len() < target {
                s.push(*r.pick(&['é', 'a', '0', 'F', '√', '𝄞', 'f']));
            }
            s
        }
        _ => String::from_utf8(r.over(b"0123456789abcdefABCDEFgx", 44)).unwrap(),
    }
}

fn main() {
    let args = Args::parse();
    let mut rep = Report::new("C05", &args);
    let mut r = Rng::new(args.seed);
    if let Some(ops) = replay_ops(&args) {
        for op in ops {
            exec(&mut rep, &op);
        }
        rep.finish();
        return;
    }
    // deterministic corpus: every length 0..=42 on a fixed id, cut and parsed, compared with close neighbours
    let fixed: Vec<u8> = (0..20u8).map(|i| 0xa1u8.wrapping_add(i.wrapping_mul(0x1f))).collect();
    for n in 0..=42usize {
        exec(&mut rep, &format!("pnew {} {n}", hex(&fixed)));
        exec(&mut rep, &format!("tohex {} {n}", hex(&fixed)));
        let text = format!("{}ab", hexs(&fixed))[..n].to_string();
        exec(&mut rep, &format!("pfromhex {}", hex(text.as_bytes())));
        exec(&mut rep, &format!("pfromhex {}", hex(text.to_uppercase().as_bytes())));
        for d in [-1i64, 0, 1] {
            let pos = n as i64 + d;
            if (0..40).contains(&pos) {
                let mut c = fixed.clone();
                c[pos as usize / 2] ^= if pos % 2 == 0 { 0x10 } else { 0x01 };
                exec(&mut rep, &format!("pcmpnew {} {n} {}", hex(&fixed), hex(&c)));
                exec(&mut rep, &format!("pcmphex {} {}", hex(text.as_bytes()), hex(&c)));
            }
        }
    }
    exec(&mut rep, &format!("idfromhex {}", hex(hexs(&fixed).as_bytes())));
    exec(&mut rep, &format!("idfromhex {}", hex(hexs(&fixed).to_uppercase().as_bytes())));
    exec(&mut rep, "idfromhex -");

    let n = args.budget(40_000, 1_500_000);
    for _ in 0..n {
        let id = gen_id(&mut r);
        match r.below(10) {
            0 => {
                let len = gen_len(&mut r) + if r.chance(1, 20) { 100 } else { 0 };
                exec(&mut rep, &format!("tohex {} {len}", hex(&id)));
            }
            1 => {
                let t = match r.below(4) {
                    0 => gen_text(&mut r, &id).into_bytes(),
                    1 => {
                        let mut b = mixed_case(&mut r, &hexs(&id)).into_bytes();
                        let i = r.usize(40);
                        b[i] = r.byte();
                        b
                    }
                    _ => mixed_case(&mut r, &hexs(&id)).into_bytes(),
                };
                exec(&mut rep, &format!("idfromhex {}", hex(&t)));
            }
            2 => {
                let len = gen_len(&mut r);
                exec(&mut rep, &format!("pnew {} {len}", hex(&id)));
            }
            3 | 4 => {
                let t = gen_text(&mut r, &id);
                exec(&mut rep, &format!("pfromhex {}", hex(t.as_bytes())));
            }
            5..=7 => {
                let len = if r.chance(1, 10) { gen_len(&mut r) } else { 4 + r.usize(37) };
                let c = gen_cand(&mut r, &id, len);
                exec(&mut rep, &format!("pcmpnew {} {len} {}", hex(&id), hex(&c)));
            }
            _ => {
                let len = 4 + r.usize(37);
                let text = mixed_case(&mut r, &hexs(&id)[..len]);
                let c = gen_cand(&mut r, &id, len);
                exec(&mut rep, &format!("pcmphex {} {}", hex(text.as_bytes()), hex(&c)));
            }
        }
    }
    rep.finish();
}
