//! C23 — registered tempfiles and termination signals.
//!
//! The harness (H) runs *scenarios*: a list of API calls (tokens) on gix-tempfile handles, executed by
//! a worker process (proc 0, this same binary re-executed with `C23_WORKER` set) and by the children
//! it forks (proc 1, 2, …), one token at a time in the order of the list. H is the master of the
//! order (a shared-memory page holds `turn`, the per-token results, the pids) and H is the one who
//! sends the signals (SIGTERM/SIGINT/SIGQUIT are handled by gix-tempfile, SIGHUP is not):
//!   * `S<p>`  between two calls of proc p,
//!   * `<call>@k` inside a call, after its k-th atomic step: the worker stops at the
//!     `#[cfg(gix_verif)]` hook points of gix-tempfile (`created`, `with_mut`, `close`, `persist`,
//!     `drop`) or inside the closure given to `with_mut`, tells H, and H sends the signal there.
//! After each signal H takes a directory snapshot and evaluates the property itself with its own
//! bookkeeping (independent of the Lean model). The op line + (results;final listing) go to the Lean
//! driver, which must predict exactly the same.
//!
//! `rnd` scenarios: the worker runs freely (really writing through `io::Write`), H sends the signal
//! after a random delay and asks the model whether SOME position of the signal explains the
//! directory listing.
use std::collections::{BTreeMap, BTreeSet};
use std::io::Write as _;
use std::path::{Path, PathBuf};
use std::sync::atomic::{AtomicI32, AtomicU32, AtomicUsize, Ordering::SeqCst};
use std::time::{Duration, Instant};

use gix_tempfile::{
    handle::{Closed, Writable},
    AutoRemove, ContainingDirectory, Handle,
};
use hcommon::{replay_ops, Args, Report, Rng, Scratch};

const MAX_TOK: usize = 160;
const MAX_PROC: usize = 8;
const NO_TURN: u32 = u32::MAX;

#[repr(C)]
struct Shm {
    turn: AtomicU32,
    at_point: AtomicU32,
    resume: AtomicU32,
    sig_seen: [AtomicU32; MAX_PROC],
    pids: [AtomicI32; MAX_PROC],
    result: [AtomicU32; MAX_TOK],
}

fn map_shm(path: &Path, create: bool) -> &'static Shm {
    use std::os::unix::io::AsRawFd;
    let len = std::mem::size_of::<Shm>();
    let f = std::fs::OpenOptions::new()
        .read(true)
        .write(true)
        .create(create)
        .truncate(create)
        .open(path)
        .expect("open shm file");
    if create {
        f.set_len(len as u64).expect("size shm file");
    }
    // SAFETY: plain shared mapping of a file of the right size; all fields are atomics.
    unsafe {
        let p = libc::mmap(
            std::ptr::null_mut(),
            len,
            libc::PROT_READ | libc::PROT_WRITE,
            libc::MAP_SHARED,
            f.as_raw_fd(),
            0,
        );
        assert!(p != libc::MAP_FAILED, "mmap failed");
        &*(p as *const Shm)
    }
}

#[derive(Clone, Copy, PartialEq, Eq, Debug)]
enum Op {
    At,
    Mark,
    With,
    Close,
    Persist,
    Drop,
    Take,
    DropTaken,
    Fork,
    Signal,
    Exit,
}

#[derive(Clone, Copy, Debug)]
struct Tok {
    op: Op,
    p: usize,
    /// handle label, or the child of a fork
    a: usize,
    /// name index (t<n> for At/Mark, d<n> for Persist)
    n: usize,
    at: Option<u32>,
}

fn fmt_tok(t: &Tok) -> String {
    let body = match t.op {
        Op::At => format!("A{}.{}.{}", t.p, t.a, t.n),
        Op::Mark => format!("M{}.{}.{}", t.p, t.a, t.n),
        Op::With => format!("W{}.{}", t.p, t.a),
        Op::Close => format!("C{}.{}", t.p, t.a),
        Op::Persist => format!("P{}.{}.{}", t.p, t.a, t.n),
        Op::Drop => format!("D{}.{}", t.p, t.a),
        Op::Take => format!("T{}.{}", t.p, t.a),
        Op::DropTaken => format!("X{}.{}", t.p, t.a),
        Op::Fork => format!("F{}.{}", t.p, t.a),
        Op::Signal => format!("S{}", t.p),
        Op::Exit => format!("E{}", t.p),
    };
    match t.at {
        Some(k) => format!("{body}@{k}"),
        None => body,
    }
}

fn parse_tok(w: &str) -> Option<Tok> {
    let (body, at) = match w.split_once('@') {
        Some((b, k)) => (b, Some(k.parse::<u32>().ok()?)),
        None => (w, None),
    };
    let c = body.chars().next()?;
    let nums: Vec<usize> = body[1..].split('.').map(|x| x.parse::<usize>()).collect::<Result<_, _>>().ok()?;
    let (op, want) = match c {
        'A' => (Op::At, 3),
        'M' => (Op::Mark, 3),
        'W' => (Op::With, 2),
        'C' => (Op::Close, 2),
        'P' => (Op::Persist, 3),
        'D' => (Op::Drop, 2),
        'T' => (Op::Take, 2),
        'X' => (Op::DropTaken, 2),
        'F' => (Op::Fork, 2),
        'S' => (Op::Signal, 1),
        'E' => (Op::Exit, 1),
        _ => return None,
    };
    if nums.len() != want || nums[0] >= MAX_PROC {
        return None;
    }
    Some(Tok {
        op,
        p: nums[0],
        a: *nums.get(1).unwrap_or(&0),
        n: *nums.get(2).unwrap_or(&0),
        at,
    })
}

fn parse_toks(ws: &[&str]) -> Option<Vec<Tok>> {
    let v: Option<Vec<Tok>> = ws.iter().map(|w| parse_tok(w)).collect();
    let v = v?;
    if v.len() > MAX_TOK - 1 {
        return None;
    }
    Some(v)
}

const R_OK: u32 = 1;
const R_GONE: u32 = 2;
const R_ERR: u32 = 3;
const R_EXISTS: u32 = 4;
const R_DEAD: u32 = 5;
const R_KILLED: u32 = 6;
const R_BADKIND: u32 = 7;

fn res_str(c: u32) -> &'static str {
    match c {
        R_OK => "ok",
        R_GONE => "gone",
        R_ERR => "err",
        R_EXISTS => "exists",
        R_DEAD => "dead",
        R_KILLED => "killed",
        R_BADKIND => "badkind",
        _ => "?",
    }
}

// ------------------------------------------------------------------------------------------------
// worker side
// ------------------------------------------------------------------------------------------------

static W_SHM: AtomicUsize = AtomicUsize::new(0);
static W_ME: AtomicUsize = AtomicUsize::new(0);
/// the hook point at which to stop (0 = none)
static W_ARMED: AtomicU32 = AtomicU32::new(0);

const PT_CREATED: u32 = 1;
const PT_WITH_MUT: u32 = 2;
const PT_CLOSE: u32 = 3;
const PT_PERSIST: u32 = 4;
const PT_DROP: u32 = 5;
const PT_CLOSURE: u32 = 6;
const PT_END: u32 = 7;

fn w_shm() -> &'static Shm {
    // SAFETY: set once at worker start to the mapping
    unsafe { &*(W_SHM.load(SeqCst) as *const Shm) }
}

fn nap() {
    std::thread::sleep(Duration::from_micros(40));
}

/// tell H we are at the point, and wait until it lets us go on (or we die here)
fn w_pause() {
    let shm = w_shm();
    let ticket = shm.resume.load(SeqCst);
    shm.at_point.store(1, SeqCst);
    while shm.resume.load(SeqCst) == ticket {
        nap();
    }
}

fn w_hook(name: &'static str) {
    let id = match name {
        "created" => PT_CREATED,
        "with_mut" => PT_WITH_MUT,
        "close" => PT_CLOSE,
        "persist" => PT_PERSIST,
        "drop" => PT_DROP,
        _ => 0,
    };
    if id != 0 && W_ARMED.load(SeqCst) == id {
        W_ARMED.store(0, SeqCst);
        w_pause();
    }
}

enum Slot {
    Empty,
    W(Handle<Writable>),
    C(Handle<Closed>),
    TW(tempfile::NamedTempFile),
    TC(tempfile::TempPath),
    /// the handle was consumed (persisted, dropped, failed close/take)
    Dead { closed: bool },
    /// a taken file that has been dropped
    Spent,
}

fn arm_for(t: &Tok) -> u32 {
    match (t.op, t.at) {
        (_, None) => 0,
        (_, Some(0)) => 0,
        (Op::At | Op::Mark, Some(1)) => PT_CREATED,
        (Op::With, Some(1)) => PT_WITH_MUT,
        (Op::With, Some(2)) => PT_CLOSURE,
        (Op::Close, Some(1)) => PT_CLOSE,
        (Op::Persist, Some(1)) => PT_PERSIST,
        (Op::Drop, Some(1)) => PT_DROP,
        _ => PT_END,
    }
}

fn exec_tok(t: &Tok, slots: &mut Vec<Slot>, dir: &Path, big: bool) -> u32 {
    if slots.len() <= t.a {
        slots.resize_with(t.a + 1, || Slot::Empty);
    }
    match t.op {
        Op::At => match gix_tempfile::writable_at(
            dir.join(format!("t{}", t.n)),
            ContainingDirectory::Exists,
            AutoRemove::Tempfile,
        ) {
            Ok(h) => {
                slots[t.a] = Slot::W(h);
                R_OK
            }
            Err(e) if e.kind() == std::io::ErrorKind::AlreadyExists => R_EXISTS,
            Err(_) => R_ERR,
        },
        Op::Mark => match gix_tempfile::mark_at(
            dir.join(format!("t{}", t.n)),
            ContainingDirectory::Exists,
            AutoRemove::Tempfile,
        ) {
            Ok(h) => {
                slots[t.a] = Slot::C(h);
                R_OK
            }
            Err(e) if e.kind() == std::io::ErrorKind::AlreadyExists => R_EXISTS,
            Err(_) => R_ERR,
        },
        Op::With => match &mut slots[t.a] {
            Slot::W(h) => {
                if big {
                    // through the io::Write impl: many with_mut calls
                    let buf = vec![b'x'; 1 << 16];
                    match h.write_all(&buf).and_then(|_| h.flush()) {
                        Ok(()) => R_OK,
                        Err(_) => R_GONE,
                    }
                } else {
                    let r = h.with_mut(|f| {
                        let _ = f.write_all(b"x");
                        if W_ARMED.load(SeqCst) == PT_CLOSURE {
                            W_ARMED.store(0, SeqCst);
                            w_pause();
                        }
                    });
                    if r.is_ok() {
                        R_OK
                    } else {
                        R_GONE
                    }
                }
            }
            Slot::Dead { closed: false } => R_GONE,
            _ => R_BADKIND,
        },
        Op::Close => match std::mem::replace(&mut slots[t.a], Slot::Empty) {
            Slot::W(h) => match h.close() {
                Ok(c) => {
                    slots[t.a] = Slot::C(c);
                    R_OK
                }
                Err(_) => {
                    slots[t.a] = Slot::Dead { closed: false };
                    R_GONE
                }
            },
            Slot::Dead { closed: false } => {
                slots[t.a] = Slot::Dead { closed: false };
                R_GONE
            }
            other => {
                slots[t.a] = other;
                R_BADKIND
            }
        },
        Op::Persist => {
            let target = dir.join(format!("d{}", t.n));
            match std::mem::replace(&mut slots[t.a], Slot::Empty) {
                Slot::W(h) => match h.persist(&target) {
                    Ok(Some(_f)) => {
                        slots[t.a] = Slot::Dead { closed: false };
                        R_OK
                    }
                    Ok(None) => {
                        slots[t.a] = Slot::Dead { closed: false };
                        R_GONE
                    }
                    Err(e) => {
                        slots[t.a] = Slot::W(e.handle);
                        R_ERR
                    }
                },
                Slot::C(h) => match h.persist(&target) {
                    Ok(()) => {
                        slots[t.a] = Slot::Dead { closed: true };
                        R_OK
                    }
                    Err(e) => {
                        slots[t.a] = Slot::C(e.handle);
                        R_ERR
                    }
                },
                Slot::Dead { closed } => {
                    slots[t.a] = Slot::Dead { closed };
                    if closed {
                        R_OK
                    } else {
                        R_GONE
                    }
                }
                other => {
                    slots[t.a] = other;
                    R_BADKIND
                }
            }
        }
        Op::Drop => match std::mem::replace(&mut slots[t.a], Slot::Empty) {
            Slot::W(h) => {
                drop(h);
                slots[t.a] = Slot::Dead { closed: false };
                R_OK
            }
            Slot::C(h) => {
                drop(h);
                slots[t.a] = Slot::Dead { closed: true };
                R_OK
            }
            Slot::Dead { closed } => {
                slots[t.a] = Slot::Dead { closed };
                R_OK
            }
            other => {
                slots[t.a] = other;
                R_BADKIND
            }
        },
        Op::Take => match std::mem::replace(&mut slots[t.a], Slot::Empty) {
            Slot::W(h) => match h.take() {
                Some(f) => {
                    slots[t.a] = Slot::TW(f);
                    R_OK
                }
                None => {
                    slots[t.a] = Slot::Dead { closed: false };
                    R_GONE
                }
            },
            Slot::C(h) => match h.take() {
                Some(f) => {
                    slots[t.a] = Slot::TC(f);
                    R_OK
                }
                None => {
                    slots[t.a] = Slot::Dead { closed: true };
                    R_GONE
                }
            },
            Slot::Dead { closed } => {
                slots[t.a] = Slot::Dead { closed };
                R_GONE
            }
            other => {
                slots[t.a] = other;
                R_BADKIND
            }
        },
        Op::DropTaken => match std::mem::replace(&mut slots[t.a], Slot::Empty) {
            Slot::TW(f) => {
                drop(f);
                slots[t.a] = Slot::Spent;
                R_OK
            }
            Slot::TC(f) => {
                drop(f);
                slots[t.a] = Slot::Spent;
                R_OK
            }
            other => {
                slots[t.a] = other;
                R_BADKIND
            }
        },
        Op::Fork | Op::Signal | Op::Exit => unreachable!("handled by the loop"),
    }
}

const STORM_TID: usize = 0; // result[0..8]: thread ids
const STORM_CNT: usize = 16; // result[16..24]: progress counters
const STORM_DONE: usize = 32;

/// The registry is hammered by `nthreads` threads of a forked child (`with_mut` in a tight loop on
/// tempfiles registered by the parent, so the handler never removes them and nothing is allocated)
/// while the harness directs termination signals at exactly these threads: the handler runs on a
/// thread that may be inside `REGISTRY.insert/remove`, holding a shard lock.
fn storm_worker(shm: &'static Shm, dir: &Path, nthreads: usize) -> ! {
    let handles: Vec<Handle<Writable>> = (0..nthreads)
        .map(|i| {
            gix_tempfile::writable_at(dir.join(format!("t{i}")), ContainingDirectory::Exists, AutoRemove::Tempfile)
                .expect("create tempfile")
        })
        .collect();
    // SAFETY: getpid / fork in a single-threaded process
    shm.pids[0].store(unsafe { libc::getpid() }, SeqCst);
    let pid = unsafe { libc::fork() };
    if pid == 0 {
        W_ME.store(1, SeqCst);
        let mut joins = Vec::new();
        for (i, mut h) in handles.into_iter().enumerate() {
            joins.push(std::thread::spawn(move || {
                // SAFETY: gettid
                let tid = unsafe { libc::syscall(libc::SYS_gettid) } as u32;
                shm.result[STORM_TID + i].store(tid, SeqCst);
                let mut n = 0u32;
                while shm.turn.load(SeqCst) == NO_TURN {
                    let _ = h.with_mut(|_| ());
                    n = n.wrapping_add(1);
                    if n % 256 == 0 {
                        shm.result[STORM_CNT + i].store(n, SeqCst);
                    }
                }
                std::mem::forget(h);
            }));
        }
        // SAFETY: getpid
        shm.pids[1].store(unsafe { libc::getpid() }, SeqCst);
        for j in joins {
            let _ = j.join();
        }
        shm.result[STORM_DONE].store(1, SeqCst);
        // SAFETY: end without destructors
        unsafe { libc::_exit(0) }
    }
    std::mem::forget(handles);
    while shm.turn.load(SeqCst) == NO_TURN {
        nap();
    }
    // SAFETY: end without destructors
    unsafe { libc::_exit(0) }
}

fn worker_main(shm_path: &str) -> ! {
    let shm = map_shm(Path::new(shm_path), false);
    W_SHM.store(shm as *const Shm as usize, SeqCst);
    let dir = PathBuf::from(std::env::var("C23_DIR").expect("C23_DIR"));
    let script = std::env::var("C23_SCRIPT").expect("C23_SCRIPT");
    let words: Vec<&str> = script.split(' ').filter(|w| !w.is_empty()).collect();
    let toks = parse_toks(&words).expect("script parses");
    let cont = std::env::var("C23_MODE").as_deref() == Ok("cont");
    let free = std::env::var("C23_FREE").is_ok();
    // SAFETY: plain libc calls
    unsafe {
        let lim = libc::rlimit { rlim_cur: 0, rlim_max: 0 };
        libc::setrlimit(libc::RLIMIT_CORE, &lim);
        libc::signal(libc::SIGCHLD, libc::SIG_IGN);
        // Ignored signals and the signal mask survive exec: a harness started under nohup (or by a runner that
        // ignores / blocks them) would hand SIG_IGN for SIGHUP to the worker, which then never dies of it.
        for sig in [libc::SIGHUP, libc::SIGTERM, libc::SIGINT, libc::SIGQUIT] {
            libc::signal(sig, libc::SIG_DFL);
        }
        let mut empty: libc::sigset_t = std::mem::zeroed();
        libc::sigemptyset(&mut empty);
        libc::sigprocmask(libc::SIG_SETMASK, &empty, std::ptr::null_mut());
    }
    gix_tempfile::verif::set_hook(w_hook);
    gix_tempfile::signal::setup(if cont {
        gix_tempfile::signal::handler::Mode::DeleteTempfilesOnTermination
    } else {
        gix_tempfile::signal::handler::Mode::DeleteTempfilesOnTerminationAndRestoreDefaultBehaviour
    });
    for sig in [libc::SIGTERM, libc::SIGINT, libc::SIGQUIT] {
        // SAFETY: the action only touches an atomic in shared memory (async-signal-safe)
        unsafe {
            signal_hook::low_level::register(sig, || {
                w_shm().sig_seen[W_ME.load(SeqCst)].fetch_add(1, SeqCst);
            })
            .expect("register");
        }
    }
    let mut slots: Vec<Slot> = Vec::new();
    if let Ok(nt) = std::env::var("C23_STORM") {
        storm_worker(shm, &dir, nt.parse().unwrap_or(4));
    }
    // SAFETY: getpid
    shm.pids[0].store(unsafe { libc::getpid() }, SeqCst);
    let n = toks.len();
    if free {
        while shm.turn.load(SeqCst) == NO_TURN {
            std::hint::spin_loop();
        }
        for (i, t) in toks.iter().enumerate() {
            let r = exec_tok(t, &mut slots, &dir, true);
            shm.result[i].store(r, SeqCst);
        }
        shm.result[n].store(R_OK, SeqCst);
        loop {
            nap();
        }
    }
    let mut i = 0;
    while i < n {
        let t = toks[i];
        let me = W_ME.load(SeqCst);
        if t.p != me || t.op == Op::Signal {
            i += 1;
            continue;
        }
        while shm.turn.load(SeqCst) != i as u32 {
            nap();
        }
        match t.op {
            Op::Fork => {
                // SAFETY: the worker is single-threaded
                let pid = unsafe { libc::fork() };
                if pid == 0 {
                    W_ME.store(t.a, SeqCst);
                    // SAFETY: getpid
                    shm.pids[t.a].store(unsafe { libc::getpid() }, SeqCst);
                    i += 1;
                    continue;
                }
                if pid < 0 {
                    shm.result[i].store(R_ERR, SeqCst);
                } else {
                    while shm.pids[t.a].load(SeqCst) == 0 {
                        nap();
                    }
                    shm.result[i].store(R_OK, SeqCst);
                }
            }
            Op::Exit => {
                shm.result[i].store(R_OK, SeqCst);
                // SAFETY: end without running destructors
                unsafe { libc::_exit(0) }
            }
            _ => {
                if t.at == Some(0) {
                    w_pause();
                }
                W_ARMED.store(arm_for(&t), SeqCst);
                let r = exec_tok(&t, &mut slots, &dir, false);
                if W_ARMED.swap(0, SeqCst) != 0 {
                    // the point was not passed (entry already gone) or is the end of the call
                    w_pause();
                }
                shm.result[i].store(r, SeqCst);
            }
        }
        i += 1;
    }
    while shm.turn.load(SeqCst) != n as u32 {
        nap();
    }
    // SAFETY: end without running destructors: what is on disk stays
    unsafe { libc::_exit(0) }
}

// ------------------------------------------------------------------------------------------------
// harness side
// ------------------------------------------------------------------------------------------------

fn snapshot(dir: &Path) -> BTreeSet<String> {
    std::fs::read_dir(dir)
        .map(|rd| rd.filter_map(|e| e.ok()).map(|e| e.file_name().to_string_lossy().into_owned()).collect())
        .unwrap_or_default()
}

fn listing(s: &BTreeSet<String>) -> String {
    if s.is_empty() {
        "-".into()
    } else {
        s.iter().cloned().collect::<Vec<_>>().join(",")
    }
}

fn proc_gone(pid: i32) -> bool {
    match std::fs::read_to_string(format!("/proc/{pid}/stat")) {
        Err(_) => true,
        Ok(s) => {
            // pid (comm) S ...
            match s.rfind(')') {
                Some(i) => s[i + 1..].trim_start().starts_with('Z') || s[i + 1..].trim_start().starts_with('X'),
                None => true,
            }
        }
    }
}

const WINDOW_KEY: &str =
    "window: a signal while a handle operation (with_mut/close/persist/drop) has the tempfile out of the registry leaves it on disk";
const SIGHUP_KEY: &str = "sighup: SIGHUP is not among the handled signals, registered tempfiles remain";

struct Finding {
    key: String,
    detail: String,
    violation: bool,
}

struct Outcome {
    results: Vec<&'static str>,
    listing: String,
    findings: Vec<Finding>,
    notes: Vec<String>,
    infra: Option<String>,
}

struct Book {
    /// label -> name
    label_name: BTreeMap<usize, String>,
    /// tmp name -> proc that registered the file now at that name
    reg_owner: BTreeMap<String, usize>,
}

struct Ctl<'a> {
    shm: &'static Shm,
    dir: &'a Path,
    sig: i32,
    handled: bool,
    die: bool,
    dead: [bool; MAX_PROC],
    deadline: Instant,
    book: Book,
    findings: Vec<Finding>,
    notes: Vec<String>,
    op_line: &'a str,
}

impl<'a> Ctl<'a> {
    fn timed_out(&self) -> bool {
        Instant::now() > self.deadline
    }

    /// send the signal to `p`; `inflight` = the call that is stopped at a point inside
    fn do_signal(&mut self, p: usize, inflight: Option<&Tok>) -> Result<(), String> {
        let pid = self.shm.pids[p].load(SeqCst);
        if pid <= 0 {
            return Err(format!("no pid for proc {p}"));
        }
        let before = snapshot(self.dir);
        let seen0 = self.shm.sig_seen[p].load(SeqCst);
        // SAFETY: kill
        unsafe { libc::kill(pid, self.sig) };
        let dies = self.die || !self.handled;
        loop {
            if dies {
                if proc_gone(pid) {
                    break;
                }
            } else if self.shm.sig_seen[p].load(SeqCst) != seen0 {
                break;
            }
            if self.timed_out() {
                return Err(format!("timeout waiting for the signal to act on proc {p}"));
            }
            nap();
        }
        if dies {
            self.dead[p] = true;
        }
        let after = snapshot(self.dir);
        self.judge(p, inflight, &before, &after);
        Ok(())
    }

    /// the property itself, from H's own bookkeeping
    fn judge(&mut self, p: usize, inflight: Option<&Tok>, before: &BTreeSet<String>, after: &BTreeSet<String>) {
        let inflight_name: Option<(Op, String)> = inflight.and_then(|t| match (t.op, t.at) {
            (Op::With, Some(1 | 2)) | (Op::Close | Op::Persist | Op::Drop, Some(1)) => {
                self.book.label_name.get(&t.a).map(|n| (t.op, n.clone()))
            }
            _ => None,
        });
        for name in before {
            if name.starts_with('d') && !after.contains(name) {
                self.findings.push(Finding {
                    key: format!("persisted-removed {}", self.op_line),
                    detail: format!("persisted file {name} was removed by a signal to proc {p}"),
                    violation: true,
                });
            }
        }
        // `take()` hands the file over to the caller: from its first step on it is no registered tempfile any more
        let taken_name: Option<String> = inflight.and_then(|t| match (t.op, t.at) {
            (Op::Take, Some(1)) => self.book.label_name.get(&t.a).cloned(),
            _ => None,
        });
        let owners: Vec<(String, usize)> = self.book.reg_owner.iter().map(|(k, v)| (k.clone(), *v)).collect();
        for (name, owner) in owners {
            if owner != p {
                if before.contains(&name) && !after.contains(&name) {
                    self.findings.push(Finding {
                        key: format!("foreign-removed {}", self.op_line),
                        detail: format!("{name} registered by proc {owner} was removed by a signal to proc {p}"),
                        violation: true,
                    });
                }
                continue;
            }
            let survived = after.contains(&name);
            if taken_name.as_deref() == Some(name.as_str()) {
                continue;
            }
            if !self.handled {
                if survived {
                    self.findings.push(Finding {
                        key: SIGHUP_KEY.into(),
                        detail: format!("{name} registered by the signalled process is still there after SIGHUP ({})", self.op_line),
                        violation: false,
                    });
                }
                continue;
            }
            match &inflight_name {
                Some((op, n)) if *n == name => {
                    if survived {
                        self.findings.push(Finding {
                            key: WINDOW_KEY.into(),
                            detail: format!("{name} survived signal {} delivered inside {:?} ({})", self.sig, op, self.op_line),
                            violation: false,
                        });
                    }
                }
                _ => {
                    if survived {
                        self.findings.push(Finding {
                            key: format!("survivor-idle {}", self.op_line),
                            detail: format!("{name}, registered by proc {p} and not in use, survived signal {}", self.sig),
                            violation: true,
                        });
                    }
                }
            }
            if !survived {
                self.book.reg_owner.remove(&name);
            }
        }
        if let Some(t) = inflight {
            if matches!(t.op, Op::At | Op::Mark) && t.at == Some(1) && after.contains(&format!("t{}", t.n)) {
                self.notes.push("a file created but not yet registered stays (signal between creation and REGISTRY.insert): not a registered tempfile yet".into());
            }
        }
    }

    fn account(&mut self, t: &Tok, res: u32) {
        match t.op {
            Op::At | Op::Mark => {
                if res == R_OK {
                    let name = format!("t{}", t.n);
                    self.book.label_name.insert(t.a, name.clone());
                    self.book.reg_owner.insert(name, t.p);
                }
            }
            Op::Persist | Op::Drop | Op::Take => {
                if res == R_OK || res == R_KILLED {
                    if let Some(n) = self.book.label_name.get(&t.a) {
                        // only if that file is still the one this label registered
                        let _ = n;
                        let n = n.clone();
                        self.book.reg_owner.remove(&n);
                    }
                }
            }
            _ => {}
        }
    }
}

fn spawn_worker(shm_path: &Path, dir: &Path, script: &str, cont: bool, free: bool) -> std::process::Child {
    let exe = std::env::current_exe().expect("current exe");
    let mut c = std::process::Command::new(exe);
    c.env("C23_WORKER", shm_path)
        .env("C23_DIR", dir)
        .env("C23_SCRIPT", script)
        .env("C23_MODE", if cont { "cont" } else { "die" })
        .stdin(std::process::Stdio::null());
    if free {
        c.env("C23_FREE", "1");
    }
    for _ in 0..20 {
        match c.spawn() {
            Ok(child) => return child,
            Err(_) => std::thread::sleep(Duration::from_millis(250)), // EAGAIN under load
        }
    }
    c.spawn().expect("spawn worker")
}

fn kill_all(shm: &Shm) {
    for p in 0..MAX_PROC {
        let pid = shm.pids[p].load(SeqCst);
        if pid > 0 && !proc_gone(pid) {
            // SAFETY: kill
            unsafe { libc::kill(pid, libc::SIGKILL) };
        }
    }
}

fn pick_sig(op_line: &str, handled: bool) -> i32 {
    if !handled {
        return libc::SIGHUP;
    }
    let mut h: u64 = 0xcbf29ce484222325;
    for b in op_line.bytes() {
        h ^= b as u64;
        h = h.wrapping_mul(0x100000001b3);
    }
    [libc::SIGTERM, libc::SIGINT, libc::SIGQUIT][(h % 3) as usize]
}

fn run_scenario(base: &Path, serial: u64, op_line: &str, toks: &[Tok], die: bool, handled: bool) -> Outcome {
    let dir = base.join(format!("s{serial}"));
    let _ = std::fs::remove_dir_all(&dir);
    std::fs::create_dir_all(&dir).expect("scenario dir");
    let shm_path = base.join(format!("shm{serial}"));
    let shm = map_shm(&shm_path, true);
    shm.turn.store(NO_TURN, SeqCst);
    let script: String = toks.iter().map(fmt_tok).collect::<Vec<_>>().join(" ");
    let mut child = spawn_worker(&shm_path, &dir, &script, !die, false);
    let mut ctl = Ctl {
        shm,
        dir: &dir,
        sig: pick_sig(op_line, handled),
        handled,
        die,
        dead: [false; MAX_PROC],
        deadline: Instant::now() + Duration::from_secs(25),
        book: Book {
            label_name: BTreeMap::new(),
            reg_owner: BTreeMap::new(),
        },
        findings: Vec::new(),
        notes: Vec::new(),
        op_line,
    };
    let mut results: Vec<&'static str> = Vec::new();
    let mut infra: Option<String> = None;
    while shm.pids[0].load(SeqCst) == 0 {
        if ctl.timed_out() {
            infra = Some("worker did not start".into());
            break;
        }
        nap();
    }
    let mut born = [false; MAX_PROC];
    born[0] = true;
    if infra.is_none() {
        'toks: for (i, t) in toks.iter().enumerate() {
            if !born[t.p] {
                infra = Some(format!("token {} of unborn proc", fmt_tok(t)));
                break;
            }
            if ctl.dead[t.p] {
                results.push("dead");
                continue;
            }
            if t.op == Op::Signal {
                match ctl.do_signal(t.p, None) {
                    Ok(()) => results.push(if ctl.dead[t.p] { "killed" } else { "ok" }),
                    Err(e) => {
                        infra = Some(e);
                        break;
                    }
                }
                continue;
            }
            shm.at_point.store(0, SeqCst);
            shm.turn.store(i as u32, SeqCst);
            let mut signalled = false;
            loop {
                let r = shm.result[i].load(SeqCst);
                if r != 0 {
                    ctl.account(t, r);
                    results.push(res_str(r));
                    break;
                }
                if shm.at_point.load(SeqCst) == 1 && !signalled {
                    if t.at.is_none() {
                        infra = Some("worker paused without being asked".into());
                        break 'toks;
                    }
                    signalled = true;
                    if let Err(e) = ctl.do_signal(t.p, Some(t)) {
                        infra = Some(e);
                        break 'toks;
                    }
                    if ctl.dead[t.p] {
                        ctl.account(t, R_KILLED);
                        results.push("killed");
                        break;
                    }
                    shm.at_point.store(0, SeqCst);
                    shm.resume.fetch_add(1, SeqCst);
                }
                if ctl.timed_out() {
                    infra = Some(format!("timeout in token {}", fmt_tok(t)));
                    break 'toks;
                }
                nap();
            }
            if t.at.is_some() && !signalled && infra.is_none() {
                infra = Some(format!("token {} finished without reaching its point", fmt_tok(t)));
                break;
            }
            if t.op == Op::Fork && results.last() == Some(&"ok") {
                born[t.a] = true;
            }
            if t.op == Op::Exit {
                let pid = shm.pids[t.p].load(SeqCst);
                while !proc_gone(pid) {
                    if ctl.timed_out() {
                        infra = Some("timeout waiting for exit".into());
                        break 'toks;
                    }
                    nap();
                }
                ctl.dead[t.p] = true;
            }
        }
    }
    shm.turn.store(toks.len() as u32, SeqCst);
    // everybody leaves by _exit once the turn is past the end
    let t_end = Instant::now() + Duration::from_secs(10);
    loop {
        let all_gone = (0..MAX_PROC).all(|p| {
            let pid = shm.pids[p].load(SeqCst);
            pid <= 0 || proc_gone(pid)
        });
        if all_gone || Instant::now() > t_end || infra.is_some() {
            break;
        }
        nap();
    }
    kill_all(shm);
    let _ = child.wait();
    let final_listing = listing(&snapshot(&dir));
    let _ = std::fs::remove_dir_all(&dir);
    let _ = std::fs::remove_file(&shm_path);
    // SAFETY: unmap the page again
    unsafe { libc::munmap(shm as *const Shm as *mut libc::c_void, std::mem::size_of::<Shm>()) };
    Outcome {
        results,
        listing: final_listing,
        findings: ctl.findings,
        notes: ctl.notes,
        infra,
    }
}

// ------------------------------------------------------------------------------------------------
// generator
// ------------------------------------------------------------------------------------------------

#[derive(Clone, Copy, PartialEq)]
enum GKind {
    Writable,
    Closed,
    Taken,
    Done,
}

struct GHandle {
    label: usize,
    creator: usize,
    /// the creation may have failed (the name was in use before): never signal inside calls on it
    uncertain: bool,
    /// kind of this handle in each process that has it (creator + children forked later)
    kinds: BTreeMap<usize, GKind>,
}

/// a random scenario; every scenario is well-behaved (children never drop/persist/take inherited handles)
fn gen_scenario(rng: &mut Rng, die: bool) -> Vec<Tok> {
    let mut toks: Vec<Tok> = Vec::new();
    let mut handles: Vec<GHandle> = Vec::new();
    let mut procs: Vec<usize> = vec![0];
    let mut dead: Vec<usize> = Vec::new();
    let mut used_names: BTreeSet<usize> = BTreeSet::new();
    let mut next_label = 0usize;
    let len = 4 + rng.usize(12);
    let mut signals_left = if die { 1 + rng.usize(2) } else { 1 + rng.usize(3) };
    let sig_slot = rng.usize(len);
    for step in 0..len {
        let live: Vec<usize> = procs.iter().copied().filter(|p| !dead.contains(p)).collect();
        let p = if live.is_empty() || rng.chance(1, 12) {
            *rng.pick(&procs)
        } else {
            *rng.pick(&live)
        };
        // fork now and then
        if procs.len() < 3 && rng.chance(1, 7) && !dead.contains(&p) {
            let c = procs.len();
            toks.push(Tok { op: Op::Fork, p, a: c, n: 0, at: None });
            procs.push(c);
            for h in handles.iter_mut() {
                if let Some(k) = h.kinds.get(&p).copied() {
                    h.kinds.insert(c, k);
                }
            }
            continue;
        }
        let want_signal = signals_left > 0 && (step == sig_slot || rng.chance(1, 6));
        if want_signal && rng.chance(1, 3) {
            toks.push(Tok { op: Op::Signal, p, a: 0, n: 0, at: None });
            signals_left -= 1;
            if die {
                dead.push(p);
            }
            continue;
        }
        let mine: Vec<usize> = (0..handles.len()).filter(|&i| handles[i].kinds.contains_key(&p)).collect();
        let choice = rng.usize(10);
        let mut tok;
        let mut at_choices: &[u32] = &[];
        if mine.is_empty() || choice < 3 {
            let n = rng.usize(6);
            let label = next_label;
            next_label += 1;
            let closed = rng.chance(1, 3);
            let uncertain = used_names.contains(&n);
            let mut kinds = BTreeMap::new();
            kinds.insert(p, if closed { GKind::Closed } else { GKind::Writable });
            handles.push(GHandle { label, creator: p, uncertain, kinds });
            used_names.insert(n);
            tok = Tok { op: if closed { Op::Mark } else { Op::At }, p, a: label, n, at: None };
            if !uncertain {
                at_choices = &[0, 1];
            }
        } else {
            let hi = *rng.pick(&mine);
            let own = handles[hi].creator == p;
            let label = handles[hi].label;
            let kind = handles[hi].kinds[&p];
            let live_kind = matches!(kind, GKind::Writable | GKind::Closed);
            let op = match (kind, choice) {
                (GKind::Taken, _) if own => Op::DropTaken,
                (GKind::Writable, 3 | 4 | 5) => Op::With,
                (GKind::Writable, 6) => Op::Close,
                (_, 7) if own && live_kind => Op::Persist,
                (_, 8) if own && live_kind => Op::Drop,
                (_, 9) if own && live_kind && rng.chance(1, 2) => Op::Take,
                (GKind::Writable, _) => Op::With,
                (GKind::Closed, _) if own => Op::Persist,
                _ => Op::With, // badkind on purpose (nothing happens)
            };
            if !handles[hi].uncertain {
                at_choices = match (op, kind) {
                    (Op::With, GKind::Writable) => &[0, 1, 1, 2, 2],
                    (Op::Close, GKind::Writable) => &[0, 1, 1],
                    (Op::Persist | Op::Drop | Op::Take, _) if live_kind => &[0, 1, 1],
                    _ => &[],
                };
            }
            match op {
                Op::Close => {
                    handles[hi].kinds.insert(p, GKind::Closed);
                }
                Op::Take => {
                    handles[hi].kinds.insert(p, GKind::Taken);
                }
                Op::DropTaken => {
                    handles[hi].kinds.insert(p, GKind::Done);
                }
                _ => {}
            }
            tok = Tok { op, p, a: label, n: rng.usize(4), at: None };
        }
        if want_signal && !dead.contains(&p) && !at_choices.is_empty() {
            tok.at = Some(*rng.pick(at_choices));
            signals_left -= 1;
            if die {
                dead.push(p);
            }
        }
        toks.push(tok);
    }
    toks
}

/// the parent registers tempfiles and forks; the child closes / writes to what it inherited (and
/// registers files of its own), then the CHILD is signalled; afterwards the parent goes on
fn gen_inherit(rng: &mut Rng, die: bool) -> Vec<Tok> {
    let mut toks = Vec::new();
    let nh = 1 + rng.usize(3);
    let mut kinds: Vec<GKind> = Vec::new();
    for h in 0..nh {
        let closed = rng.chance(1, 4);
        toks.push(Tok { op: if closed { Op::Mark } else { Op::At }, p: 0, a: h, n: h, at: None });
        kinds.push(if closed { GKind::Closed } else { GKind::Writable });
        if !closed && rng.chance(1, 3) {
            toks.push(Tok { op: Op::With, p: 0, a: h, n: 0, at: None });
        }
    }
    toks.push(Tok { op: Op::Fork, p: 0, a: 1, n: 0, at: None });
    let mut child_kinds = kinds.clone();
    let mut label = nh;
    let steps = 1 + rng.usize(4);
    let mut signalled = false;
    for s in 0..steps {
        let last = s + 1 == steps;
        if rng.chance(1, 5) {
            toks.push(Tok { op: if rng.chance(1, 3) { Op::Mark } else { Op::At }, p: 1, a: label, n: 3 + rng.usize(3), at: None });
            label += 1;
            continue;
        }
        let h = rng.usize(nh);
        let op = if child_kinds[h] == GKind::Writable && rng.chance(1, 2) { Op::Close } else { Op::With };
        let mut tok = Tok { op, p: 1, a: h, n: 0, at: None };
        if child_kinds[h] == GKind::Writable && (last || rng.chance(1, 4)) && rng.chance(1, 3) && !signalled {
            tok.at = Some(*rng.pick(&[1u32, 1, 2][..if op == Op::With { 3 } else { 2 }]));
            signalled = true;
        }
        if op == Op::Close && child_kinds[h] == GKind::Writable {
            child_kinds[h] = GKind::Closed;
        }
        toks.push(tok);
        if signalled && die {
            break;
        }
    }
    if !signalled {
        toks.push(Tok { op: Op::Signal, p: 1, a: 0, n: 0, at: None });
    }
    // the parent's files must still be there and still be the parent's
    for h in 0..nh {
        if kinds[h] == GKind::Writable && rng.chance(1, 2) {
            toks.push(Tok { op: Op::With, p: 0, a: h, n: 0, at: None });
        }
    }
    if rng.chance(1, 2) {
        toks.push(Tok { op: Op::Signal, p: 0, a: 0, n: 0, at: None });
    }
    toks
}

/// `@k` on a call that turns out to be a `badkind` no-op is not a valid scenario (the model says
/// bad-op): the generator knows the kinds exactly except after a signal has emptied slots, which
/// does not change kinds. Close/Take change kind only on success; on `gone` the worker's slot is
/// dead and the model keeps the old kind, both answer `gone`/`badkind` alike afterwards.
fn corpus() -> Vec<(bool, bool, &'static str)> {
    vec![
        // (die, handled, tokens)
        (true, true, "A0.0.0 S0"),
        (false, true, "A0.0.0 M0.1.1 S0 W0.0 P0.1.0 D0.0"),
        (true, true, "A0.0.0 A0.1.1 W0.0@1"),
        (true, true, "A0.0.0 A0.1.1 W0.0@2"),
        (false, true, "A0.0.0 A0.1.1 W0.0@1 W0.0 W0.1 D0.0"),
        (true, true, "A0.0.0 A0.1.1 C0.0@1"),
        (true, true, "A0.0.0 A0.1.1 P0.0.0@1"),
        (false, true, "A0.0.0 A0.1.1 P0.0.0@1 P0.1.1"),
        (true, true, "A0.0.0 A0.1.1 D0.0@1"),
        (true, true, "A0.0.0 A0.1.1@1"),
        (false, true, "A0.0.0 A0.1.1@1 W0.1 S0 W0.1"),
        (true, true, "A0.0.0 T0.0 S0"),
        (false, true, "M0.0.0 T0.0@1 X0.0"),
        (true, true, "A0.0.0 P0.0.0 A0.1.1 S0"),
        (true, true, "A0.0.0 F0.1 A1.1.1 S1 W0.0 S0"),
        (true, true, "A0.0.0 F0.1 A1.1.1 S0 W1.1 W1.0 S1"),
        (false, true, "A0.0.0 F0.1 A1.1.1 P1.1.0 A1.2.2 S1 S0"),
        (true, true, "A0.0.0 F0.1 F1.2 A2.1.1 A1.2.2 S2 S1 S0"),
        (true, false, "A0.0.0 M0.1.1 S0"),
        (true, false, "A0.0.0 P0.0.0 A0.1.1 W0.1@1"),
        // a forked child works with the handles it inherited, then it is the child that is signalled
        (true, true, "A0.0.0 F0.1 C1.0 S1 W0.0 S0"),
        (false, true, "A0.0.0 A0.1.1 F0.1 W1.0 C1.1 S1 W1.0 W0.0 W0.1 S0"),
        (true, true, "A0.0.0 M0.1.1 F0.1 W1.0 A1.2.2 C1.0@1"),
        (false, true, "A0.0.0 F0.1 C1.0@1 C1.0 S1 F0.2 C2.0 S2 C0.0 S0"),
        (true, true, "A0.0.0 A0.1.0 E0"),
        (false, true, "A0.0.0 S0 A0.1.0 S0 P0.0.1 C0.1 P0.1.2"),
    ]
}

fn op_line_of(die: bool, handled: bool, toks: &[Tok]) -> String {
    format!(
        "sc {} {} {}",
        if die { "die" } else { "cont" },
        if handled { "H" } else { "U" },
        toks.iter().map(fmt_tok).collect::<Vec<_>>().join(" ")
    )
}

fn run_sc(rep: &mut Report, base: &Path, serial: &mut u64, die: bool, handled: bool, toks: &[Tok]) {
    let op = op_line_of(die, handled, toks);
    // a time-out of the harness' own choreography (start-up, shared-memory handshake, signal acknowledgement):
    // tear everything down and try again with fresh processes; give up on the scenario, never on the run
    let mut attempt = 0;
    let out = loop {
        *serial += 1;
        attempt += 1;
        let out = run_scenario(base, *serial, &op, toks, die, handled);
        match &out.infra {
            None => break out,
            Some(e) => {
                eprintln!("c23: harness problem in `{op}` (attempt {attempt}): {e}");
                rep.bucket("harness-retry");
                if attempt >= MAX_ATTEMPTS {
                    rep.note(&format!("scenario skipped after {attempt} attempts, harness problem in `{op}`: {e}"));
                    rep.bucket("harness-skipped-scenario");
                    return;
                }
            }
        }
    };
    let obs = format!("{};{}", out.results.join(","), out.listing);
    let nontrivial = toks.iter().any(|t| t.op == Op::Signal || t.at.is_some());
    rep.case(&op, &obs, nontrivial);
    rep.oracle_checked();
    rep.bucket(if die { "mode:die" } else { "mode:cont" });
    rep.bucket(if handled { "signal:handled" } else { "signal:sighup" });
    if toks.iter().any(|t| t.op == Op::Fork) {
        rep.bucket("with-fork");
    }
    for t in toks {
        if let Some(k) = t.at {
            rep.bucket(&format!("signal-inside:{:?}@{k}", t.op));
        }
        if t.op == Op::Signal {
            rep.bucket("signal-between-calls");
        }
    }
    for r in &out.results {
        rep.bucket(&format!("result:{r}"));
    }
    for n in out.notes {
        rep.outside_domain(&n);
    }
    for f in out.findings {
        rep.bucket(if f.violation { "oracle:violation" } else { "oracle:known-window-or-sighup" });
        rep.oracle_failure(&f.key, &f.detail, &op);
    }
}

// ------------------------------------------------------------------------------------------------
// free-running worker, signal after a random delay
// ------------------------------------------------------------------------------------------------

fn gen_free(rng: &mut Rng) -> Vec<Tok> {
    let mut toks = Vec::new();
    let mut label = 0usize;
    let mut open: Vec<(usize, bool)> = Vec::new(); // (label, closed)
    let mut free_names: Vec<usize> = (0..8).collect();
    let mut name_of: BTreeMap<usize, usize> = BTreeMap::new();
    for _ in 0..(30 + rng.usize(30)) {
        let c = rng.usize(10);
        if (open.is_empty() || c < 3) && !free_names.is_empty() && open.len() < 5 {
            let i = rng.usize(free_names.len());
            let n = free_names.remove(i);
            let closed = rng.chance(1, 4);
            toks.push(Tok { op: if closed { Op::Mark } else { Op::At }, p: 0, a: label, n, at: None });
            open.push((label, closed));
            name_of.insert(label, n);
            label += 1;
        } else if !open.is_empty() {
            let i = rng.usize(open.len());
            let (l, closed) = open[i];
            match c {
                3..=6 if !closed => toks.push(Tok { op: Op::With, p: 0, a: l, n: 0, at: None }),
                7 if !closed => {
                    toks.push(Tok { op: Op::Close, p: 0, a: l, n: 0, at: None });
                    open[i].1 = true;
                }
                8 => {
                    toks.push(Tok { op: Op::Persist, p: 0, a: l, n: rng.usize(4), at: None });
                    open.remove(i);
                    free_names.push(name_of[&l]);
                }
                _ => {
                    toks.push(Tok { op: Op::Drop, p: 0, a: l, n: 0, at: None });
                    open.remove(i);
                    free_names.push(name_of[&l]);
                }
            }
        }
    }
    toks
}

/// returns (number of completed calls, listing, wall time of the script if it ran to the end)
fn run_free(base: &Path, serial: u64, toks: &[Tok], delay: Option<Duration>, sig: i32) -> Result<(usize, BTreeSet<String>, Duration), String> {
    let dir = base.join(format!("f{serial}"));
    let _ = std::fs::remove_dir_all(&dir);
    std::fs::create_dir_all(&dir).expect("scenario dir");
    let shm_path = base.join(format!("fshm{serial}"));
    let shm = map_shm(&shm_path, true);
    shm.turn.store(NO_TURN, SeqCst);
    let script: String = toks.iter().map(fmt_tok).collect::<Vec<_>>().join(" ");
    let mut child = spawn_worker(&shm_path, &dir, &script, false, true);
    let deadline = Instant::now() + Duration::from_secs(25);
    let mut err = None;
    while shm.pids[0].load(SeqCst) == 0 {
        if Instant::now() > deadline {
            err = Some("worker did not start".to_string());
            break;
        }
        nap();
    }
    let pid = shm.pids[0].load(SeqCst);
    let t0 = Instant::now();
    let mut took = Duration::ZERO;
    if err.is_none() {
        shm.turn.store(0, SeqCst);
        match delay {
            Some(d) => {
                // busy-wait: sleep granularity is too coarse for sub-millisecond delays
                while t0.elapsed() < d {
                    std::hint::spin_loop();
                }
            }
            None => {
                while shm.result[toks.len()].load(SeqCst) == 0 {
                    if Instant::now() > deadline {
                        err = Some("free worker did not finish".to_string());
                        break;
                    }
                    std::hint::spin_loop();
                }
                took = t0.elapsed();
            }
        }
        // SAFETY: kill
        unsafe { libc::kill(pid, sig) };
        while !proc_gone(pid) {
            if Instant::now() > deadline {
                err = Some("free worker did not die".to_string());
                break;
            }
            nap();
        }
    }
    kill_all(shm);
    let _ = child.wait();
    let nfin = (0..toks.len()).take_while(|&i| shm.result[i].load(SeqCst) != 0).count();
    let results: Vec<u32> = (0..nfin).map(|i| shm.result[i].load(SeqCst)).collect();
    let snap = snapshot(&dir);
    let _ = std::fs::remove_dir_all(&dir);
    let _ = std::fs::remove_file(&shm_path);
    // SAFETY: unmap
    unsafe { libc::munmap(shm as *const Shm as *mut libc::c_void, std::mem::size_of::<Shm>()) };
    if let Some(e) = err {
        return Err(e);
    }
    if results.iter().any(|&r| r != R_OK) {
        // every call of a free script succeeds unless the code under test misbehaves
        return Err(format!("UNEXPECTED {}", results.iter().map(|&r| res_str(r)).collect::<Vec<_>>().join(",")));
    }
    Ok((nfin, snap, took))
}

/// `run_free`, tried again with fresh processes when the harness' own choreography timed out
fn run_free_retry(
    rep: &mut Report,
    base: &Path,
    serial: &mut u64,
    toks: &[Tok],
    delay: Option<Duration>,
    sig: i32,
) -> Result<(usize, BTreeSet<String>, Duration), String> {
    let mut last = String::new();
    for _ in 0..MAX_ATTEMPTS {
        *serial += 1;
        match run_free(base, *serial, toks, delay, sig) {
            Err(e) if !e.starts_with("UNEXPECTED") => {
                eprintln!("c23: harness problem in a free run: {e}");
                rep.bucket("harness-retry");
                last = e;
            }
            other => return other,
        }
    }
    Err(last)
}

fn judge_free(rep: &mut Report, op: &str, toks: &[Tok], nfin: usize, snap: &BTreeSet<String>) {
    // H's own bookkeeping over the completed calls
    let mut registered: BTreeMap<usize, String> = BTreeMap::new(); // label -> name
    let mut persisted: BTreeSet<String> = BTreeSet::new();
    for t in &toks[..nfin] {
        match t.op {
            Op::At | Op::Mark => {
                registered.insert(t.a, format!("t{}", t.n));
            }
            Op::Persist => {
                registered.remove(&t.a);
                persisted.insert(format!("d{}", t.n));
            }
            Op::Drop => {
                registered.remove(&t.a);
            }
            _ => {}
        }
    }
    let inflight = toks.get(nfin);
    for d in &persisted {
        // a later in-flight persist onto the same name can only replace it
        if !snap.contains(d) {
            rep.oracle_failure(&format!("persisted-removed {op}"), &format!("{d} was persisted and is gone after the signal"), op);
        }
    }
    for name in snap.iter().filter(|n| n.starts_with('t')) {
        let by_inflight = inflight.and_then(|t| match t.op {
            Op::At | Op::Mark if format!("t{}", t.n) == *name => Some("create"),
            Op::With | Op::Close | Op::Persist | Op::Drop if registered.get(&t.a) == Some(name) => Some("op"),
            _ => None,
        });
        match by_inflight {
            Some("create") => rep.outside_domain("free run: a file created but not yet registered stays"),
            Some(_) => {
                rep.bucket("free:window-hit");
                rep.oracle_failure(WINDOW_KEY, &format!("{name} survived a signal sent after a random delay; in flight: {} ({op})", fmt_tok(inflight.unwrap())), op)
            }
            None => rep.oracle_failure(&format!("survivor-idle {op}"), &format!("{name} is registered, not in use, and survived the signal"), op),
        }
    }
}

fn main() {
    if let Ok(p) = std::env::var("C23_WORKER") {
        worker_main(&p);
    }
    let args = Args::parse();
    let mut rep = Report::new("C23", &args);
    let mut rng = Rng::new(args.seed);
    let scratch = Scratch::new("c23");
    let base = scratch.path.clone();
    let mut serial = 0u64;

    if let Some(ops) = replay_ops(&args) {
        for op in ops {
            let ws: Vec<&str> = op.split(' ').collect();
            match ws.as_slice() {
                ["sc", mode, hd, rest @ ..] => {
                    let die = *mode == "die";
                    let handled = *hd == "H";
                    if let Some(toks) = parse_toks(rest) {
                        run_sc(&mut rep, &base, &mut serial, die, handled, &toks);
                    }
                }
                ["storm", nt, ns] => {
                    storm_run(&mut rep, &base, &mut serial, nt.parse().unwrap_or(4), ns.parse().unwrap_or(6000));
                }
                ["rnd", _hd, _nfin, _obs, rest @ ..] => {
                    // timing cannot be replayed: run the same script with fresh random delays
                    if let Some(toks) = parse_toks(rest) {
                        free_runs(&mut rep, &base, &mut serial, &mut rng, &toks, 20);
                    }
                }
                _ => {}
            }
        }
        rep.finish();
        return;
    }

    for (die, handled, s) in corpus() {
        let ws: Vec<&str> = s.split(' ').collect();
        let toks = parse_toks(&ws).expect("corpus parses");
        run_sc(&mut rep, &base, &mut serial, die, handled, &toks);
    }
    let n = args.budget(90, 1500);
    for i in 0..n {
        let die = rng.chance(3, 5);
        let handled = !rng.chance(1, 12);
        let toks = gen_scenario(&mut rng, die || !handled);
        let _ = i;
        run_sc(&mut rep, &base, &mut serial, die || !handled, handled, &toks);
    }
    let n_inherit = args.budget(30, 400);
    for _ in 0..n_inherit {
        let die = rng.chance(1, 2);
        let toks = gen_inherit(&mut rng, die);
        run_sc(&mut rep, &base, &mut serial, die, true, &toks);
    }
    for _ in 0..args.budget(2, 10) {
        let nthreads = 2 + rng.usize(5);
        storm_run(&mut rep, &base, &mut serial, nthreads, if args.thorough { 20000 } else { 6000 });
    }
    let scripts = args.budget(2, 12);
    let per = if args.thorough { 60 } else { 20 };
    for _ in 0..scripts {
        let toks = gen_free(&mut rng);
        free_runs(&mut rep, &base, &mut serial, &mut rng, &toks, per);
    }
    rep.finish();
}

const MAX_ATTEMPTS: u32 = 3;

const HANG_KEY: &str = "handler-hang: a termination signal delivered to a thread that is inside the registry never returns";

/// see `storm_worker`; the process must keep going and finish when told to
fn storm_run(rep: &mut Report, base: &Path, serial: &mut u64, nthreads: usize, nsignals: u64) {
    for attempt in 1..=MAX_ATTEMPTS {
        if storm_once(rep, base, serial, nthreads, nsignals) {
            return;
        }
        rep.bucket("harness-retry");
        if attempt == MAX_ATTEMPTS {
            rep.note(&format!("storm {nthreads} {nsignals} skipped after {attempt} attempts: the worker did not start"));
            rep.bucket("harness-skipped-scenario");
        }
    }
}

/// `false`: the worker did not come up (nothing was judged)
fn storm_once(rep: &mut Report, base: &Path, serial: &mut u64, nthreads: usize, nsignals: u64) -> bool {
    *serial += 1;
    let op = format!("storm {nthreads} {nsignals}");
    let dir = base.join(format!("st{serial}"));
    let _ = std::fs::remove_dir_all(&dir);
    std::fs::create_dir_all(&dir).expect("scenario dir");
    let shm_path = base.join(format!("stshm{serial}"));
    let shm = map_shm(&shm_path, true);
    shm.turn.store(NO_TURN, SeqCst);
    let exe = std::env::current_exe().expect("current exe");
    let mut child = std::process::Command::new(exe)
        .env("C23_WORKER", &shm_path)
        .env("C23_DIR", &dir)
        .env("C23_SCRIPT", "")
        .env("C23_MODE", "cont")
        .env("C23_STORM", nthreads.to_string())
        .stdin(std::process::Stdio::null())
        .spawn()
        .expect("spawn worker");
    let deadline = Instant::now() + Duration::from_secs(25);
    let ready = |shm: &Shm| shm.pids[1].load(SeqCst) != 0 && (0..nthreads).all(|i| shm.result[STORM_TID + i].load(SeqCst) != 0);
    while !ready(shm) && Instant::now() < deadline {
        nap();
    }
    let mut problem: Option<String> = None;
    if !ready(shm) {
        eprintln!("c23: storm worker did not start");
        shm.turn.store(0, SeqCst);
        kill_all(shm);
        let _ = child.kill();
        let _ = child.wait();
        let _ = std::fs::remove_dir_all(&dir);
        let _ = std::fs::remove_file(&shm_path);
        // SAFETY: unmap
        unsafe { libc::munmap(shm as *const Shm as *mut libc::c_void, std::mem::size_of::<Shm>()) };
        return false;
    }
    rep.oracle_only(&op, true);
    rep.oracle_checked();
    rep.bucket("storm");
    let pid = shm.pids[1].load(SeqCst);
    let mut sent = 0u64;
    let mut last_seen = shm.sig_seen[1].load(SeqCst);
    let mut last_change = Instant::now();
    while sent < nsignals {
        let tid = shm.result[STORM_TID + (sent as usize % nthreads)].load(SeqCst) as i32;
        let sig = [libc::SIGTERM, libc::SIGINT][(sent % 2) as usize];
        // SAFETY: tgkill directs the signal at one thread of the child
        unsafe { libc::syscall(libc::SYS_tgkill, pid, tid, sig) };
        sent += 1;
        let t = Instant::now();
        while t.elapsed() < Duration::from_micros(15) {
            std::hint::spin_loop();
        }
        let seen = shm.sig_seen[1].load(SeqCst);
        if seen != last_seen {
            last_seen = seen;
            last_change = Instant::now();
        } else if last_change.elapsed() > Duration::from_secs(8) {
            problem = Some(format!("no signal was handled for 8 s after {sent} signals ({seen} handled)"));
            break;
        }
    }
    shm.turn.store(0, SeqCst);
    let t_end = Instant::now() + Duration::from_secs(15);
    while shm.result[STORM_DONE].load(SeqCst) == 0 && Instant::now() < t_end {
        nap();
    }
    if shm.result[STORM_DONE].load(SeqCst) == 0 && problem.is_none() {
        let counts: Vec<u32> = (0..nthreads).map(|i| shm.result[STORM_CNT + i].load(SeqCst)).collect();
        problem = Some(format!(
            "the threads did not finish within 15 s of being told to stop ({sent} signals sent, {} handled, with_mut counts {counts:?})",
            shm.sig_seen[1].load(SeqCst)
        ));
    }
    if let Some(pb) = problem {
        rep.oracle_failure(HANG_KEY, &pb, &op);
    }
    kill_all(shm);
    let _ = child.wait();
    let _ = std::fs::remove_dir_all(&dir);
    let _ = std::fs::remove_file(&shm_path);
    // SAFETY: unmap
    unsafe { libc::munmap(shm as *const Shm as *mut libc::c_void, std::mem::size_of::<Shm>()) };
    true
}

fn free_runs(rep: &mut Report, base: &Path, serial: &mut u64, rng: &mut Rng, toks: &[Tok], runs: u64) {
    *serial += 1;
    let script = toks.iter().map(fmt_tok).collect::<Vec<_>>().join(" ");
    let total = match run_free_retry(rep, base, serial, toks, None, libc::SIGTERM) {
        Ok((_, _, took)) => took,
        Err(e) if e.starts_with("UNEXPECTED") => {
            rep.oracle_only(&format!("free {script}"), true);
            rep.oracle_failure(
                &format!("free-script-call-failed {script}"),
                &format!("a script of calls that must all succeed (no signal sent) returned {e}"),
                &format!("rnd H 0 - {script}"),
            );
            return;
        }
        Err(e) => {
            rep.note(&format!("free script skipped, harness problem in the calibration run: {e}"));
            rep.bucket("harness-skipped-scenario");
            return;
        }
    };
    for _ in 0..runs {
        *serial += 1;
        let sig = *rng.pick(&[libc::SIGTERM, libc::SIGINT, libc::SIGQUIT]);
        let d = Duration::from_nanos(rng.below((total.as_nanos() as u64).max(1000) * 11 / 10));
        match run_free_retry(rep, base, serial, toks, Some(d), sig) {
            Ok((nfin, snap, _)) => {
                let obs = listing(&snap);
                let op = format!("rnd H {nfin} {obs} {script}");
                rep.case(&op, &obs, true);
                rep.oracle_checked();
                rep.bucket("free-run");
                rep.bucket(&format!(
                    "free:inflight:{}",
                    toks.get(nfin).map(|t| format!("{:?}", t.op)).unwrap_or_else(|| "none".into())
                ));
                judge_free(rep, &op, toks, nfin, &snap);
            }
            Err(e) if e.starts_with("UNEXPECTED") => {
                rep.oracle_only(&format!("free {script}"), true);
                rep.oracle_failure(
                    &format!("free-script-call-failed {script}"),
                    &format!("a script of calls that must all succeed returned {e} before the signal"),
                    &format!("rnd H 0 - {script}"),
                );
            }
            Err(e) => {
                rep.note(&format!("free run skipped, harness problem: {e}"));
                rep.bucket("harness-skipped-scenario");
            }
        }
    }
}
