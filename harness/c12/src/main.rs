//! C12 — object lookups stay correct while the object directory is repacked.
//!
//! (1) scripted scenarios (correspondence + oracle): one store, several handles, the objects directory
//!     changed by the REAL git between API calls (`git repack -d`, `git repack -ad`, `git prune-packed`,
//!     new packs through `git pack-objects | git index-pack --stdin`; with `use_multi_pack_index`: `git
//!     multi-pack-index write`, `git repack -ad --write-midx`). The scenario is exported as one
//!     op line (directory listings as the consolidation sees them, handle operations) and the Lean model
//!     (`Model/C12.lean`, the control flow of `contains` / `try_find` run over the protocol transition
//!     system) must predict every `contains` / `try_find` result and every `Store::metrics()`.
//!     Oracle on the real code, independent of the model: whatever `try_find` returns hashes to the
//!     requested id; an object that is on disk is found (when the slot map is big enough); no panic.
//! (2) stress (oracle only): 8–16 threads of `try_find` / `contains` through their own handles (some
//!     recreated, some with `prevent_pack_unload()`), while a driver thread mutates the directory with
//!     real git (`repack -d`, `repack -ad`, `multi-pack-index write`, `prune-packed`, `index-pack`).
//!     Every returned object must hash to the requested id, objects on disk throughout must be found.
use gix_object::{Exists, Find};
use hcommon::*;
use std::collections::{BTreeMap, BTreeSet};
use std::path::{Path, PathBuf};
use std::sync::atomic::{AtomicBool, AtomicU64, Ordering};
use std::sync::{Arc, Mutex};

type Handle = gix_odb::store::Handle<Arc<gix_odb::Store>>;

fn open_store(objects: &Path, slots: u16, midx: bool) -> Arc<gix_odb::Store> {
    Arc::new(
        gix_odb::Store::at_opts(
            objects.to_owned(),
            &mut None.into_iter(),
            gix_odb::store::init::Options {
                slots: gix_odb::store::init::Slots::Given(slots),
                object_hash: gix_hash::Kind::Sha1,
                use_multi_pack_index: midx,
                current_dir: None,
            },
        )
        .expect("store"),
    )
}

fn oid(hex: &str) -> gix_hash::ObjectId {
    gix_hash::ObjectId::from_hex(hex.trim().as_bytes()).expect("hex oid")
}

/// a work tree repository driven with the real git
struct Repo {
    dir: PathBuf,
    n: usize,
}

impl Repo {
    fn new(dir: PathBuf) -> Repo {
        std::fs::create_dir_all(&dir).unwrap();
        git_ok(&dir, &["init", "-q"], None);
        Repo { dir, n: 0 }
    }
    fn objects(&self) -> PathBuf {
        self.dir.join(".git/objects")
    }
    fn pack_dir(&self) -> PathBuf {
        self.dir.join(".git/objects/pack")
    }
    fn commit(&mut self, salt: u64) -> gix_hash::ObjectId {
        self.n += 1;
        let n = self.n;
        std::fs::write(self.dir.join(format!("f{}", n % 5)), format!("content {n} {salt}\n")).unwrap();
        git_ok(&self.dir, &["add", "."], None);
        git_ok(&self.dir, &["commit", "-q", "-m", &format!("c{n}")], None);
        oid(&git_ok(&self.dir, &["rev-parse", "HEAD"], None))
    }
    fn all_objects(&self) -> Vec<gix_hash::ObjectId> {
        git_ok(&self.dir, &["rev-list", "--objects", "--all"], None)
            .lines()
            .filter_map(|l| l.split(' ').next())
            .map(oid)
            .collect()
    }
    fn num_packs(&self) -> usize {
        listing(&self.pack_dir()).len()
    }
    /// pack the loose objects of the last commit through `pack-objects | index-pack --stdin`
    fn index_pack_last_commit(&self) -> bool {
        let has_parent = git(&self.dir, &["rev-parse", "-q", "--verify", "HEAD~1"], None).ok;
        let list = if has_parent {
            git_ok(&self.dir, &["rev-list", "--objects", "HEAD~1..HEAD"], None)
        } else {
            git_ok(&self.dir, &["rev-list", "--objects", "HEAD"], None)
        };
        let ids: String = list.lines().filter_map(|l| l.split(' ').next()).map(|l| format!("{l}\n")).collect();
        if ids.is_empty() {
            return false;
        }
        let pack = git(&self.dir, &["pack-objects", "-q", "--stdout"], Some(ids.as_bytes()));
        if !pack.ok {
            return false;
        }
        git(&self.dir, &["index-pack", "--stdin"], Some(&pack.stdout)).ok
    }
}

/// `Store::collect_indices_and_mtime_sorted_by_size` for one object directory without multi-pack index:
/// `.idx` files with a `.pack` next to them, in `read_dir` order, stably sorted by size, biggest first.
fn listing(pack_dir: &Path) -> Vec<PathBuf> {
    let Ok(rd) = std::fs::read_dir(pack_dir) else { return Vec::new() };
    let mut v: Vec<(PathBuf, u64)> = rd
        .filter_map(Result::ok)
        .filter_map(|e| e.metadata().map(|md| (e.path(), md)).ok())
        .filter(|(_, md)| md.file_type().is_file())
        .filter(|(p, _)| p.extension() == Some(std::ffi::OsStr::new("idx")) && p.with_extension("pack").is_file())
        .map(|(p, md)| (p, md.len()))
        .collect();
    v.sort_by(|l, r| l.1.cmp(&r.1).reverse());
    v.into_iter().map(|t| t.0).collect()
}

/// one element of what `collect_indices_and_mtime_sorted_by_size` yields with `use_multi_pack_index`
enum Listed {
    Idx(PathBuf),
    /// version tag (length and mtime), and per pack: the name of its index file and the objects assigned to it
    Midx(String, Vec<(String, Vec<gix_hash::ObjectId>)>),
}

/// the same listing with the multi-pack index: it comes first, the index files it names are left out, then
/// everything is stably sorted by size, biggest first
fn listing_with_midx(pack_dir: &Path) -> Vec<Listed> {
    let Ok(rd) = std::fs::read_dir(pack_dir) else { return Vec::new() };
    let entries: Vec<(PathBuf, std::fs::Metadata)> = rd
        .filter_map(Result::ok)
        .filter_map(|e| e.metadata().map(|md| (e.path(), md)).ok())
        .filter(|(_, md)| md.file_type().is_file())
        .collect();
    let midx_path = pack_dir.join("multi-pack-index");
    let midx = entries
        .iter()
        .find(|(p, _)| *p == midx_path)
        .and_then(|(p, md)| gix_pack::multi_index::File::at(p).ok().map(|f| (f, md.len(), md.modified().ok())));
    let mut out: Vec<(Listed, u64)> = Vec::new();
    let mut covered: Vec<String> = Vec::new();
    if let Some((f, len, mtime)) = &midx {
        covered = f.index_names().iter().map(|n| n.to_string_lossy().to_string()).collect();
        let mut packs: Vec<(String, Vec<gix_hash::ObjectId>)> = covered.iter().map(|n| (n.clone(), Vec::new())).collect();
        for e in f.iter() {
            packs[e.pack_index as usize].1.push(e.oid);
        }
        out.push((Listed::Midx(format!("{len}:{mtime:?}"), packs), *len));
    }
    for (p, md) in &entries {
        if p.extension() == Some(std::ffi::OsStr::new("idx")) && p.with_extension("pack").is_file() {
            let name = p.file_name().unwrap().to_string_lossy().to_string();
            if !covered.contains(&name) {
                out.push((Listed::Idx(p.clone()), md.len()));
            }
        }
    }
    out.sort_by(|l, r| l.1.cmp(&r.1).reverse());
    out.into_iter().map(|t| t.0).collect()
}

fn idx_objects(dir: &Path, idx: &Path) -> Vec<gix_hash::ObjectId> {
    let data = std::fs::read(idx).unwrap_or_default();
    let out = git(dir, &["show-index"], Some(&data));
    String::from_utf8_lossy(&out.stdout)
        .lines()
        .filter_map(|l| l.split(' ').nth(1).map(oid))
        .collect()
}

fn loose_objects(objects: &Path) -> Vec<gix_hash::ObjectId> {
    let mut v = Vec::new();
    let Ok(rd) = std::fs::read_dir(objects) else { return v };
    for e in rd.filter_map(Result::ok) {
        let name = e.file_name().to_string_lossy().to_string();
        if name.len() == 2 && name.bytes().all(|b| b.is_ascii_hexdigit()) {
            if let Ok(rd2) = std::fs::read_dir(e.path()) {
                for f in rd2.filter_map(Result::ok) {
                    let rest = f.file_name().to_string_lossy().to_string();
                    if rest.len() == 38 && rest.bytes().all(|b| b.is_ascii_hexdigit()) {
                        v.push(oid(&format!("{name}{rest}")));
                    }
                }
            }
        }
    }
    v.sort();
    v
}

fn metrics_line(st: &gix_odb::Store) -> String {
    let m = st.metrics();
    format!(
        "{}/{}/{}/{}/{}/{}/{}/{}/{}",
        m.open_reachable_indices,
        m.known_reachable_indices,
        m.open_reachable_packs,
        m.known_packs,
        m.unused_slots,
        m.unreachable_indices,
        m.unreachable_packs,
        m.num_refreshes,
        m.num_handles
    )
}

fn find_obs(h: &Handle, id: &gix_hash::oid) -> String {
    let mut buf = Vec::new();
    match catch(|| {
        h.try_find(id, &mut buf)
            .map(|o| o.map(|d| gix_object::compute_hash(gix_hash::Kind::Sha1, d.kind, d.data)))
    }) {
        Err(_) => "panic".into(),
        Ok(Err(_)) => "err".into(),
        Ok(Ok(None)) => "none".into(),
        Ok(Ok(Some(got))) => {
            if got == id {
                "ok".into()
            } else {
                "wrong".into()
            }
        }
    }
}

fn contains_obs(h: &Handle, id: &gix_hash::oid) -> String {
    match catch(|| h.exists(id)) {
        Err(_) => "panic".into(),
        Ok(true) => "1".into(),
        Ok(false) => "0".into(),
    }
}

/// one scripted scenario: runs the steps against the real code, collecting the op line and observations
struct Scn<'a> {
    repo: Repo,
    store: Arc<gix_odb::Store>,
    slots: usize,
    handles: Vec<Option<Handle>>,
    never: Vec<bool>,
    objnum: BTreeMap<gix_hash::ObjectId, usize>,
    filenum: BTreeMap<String, usize>,
    idx_cache: BTreeMap<String, Vec<gix_hash::ObjectId>>,
    steps: Vec<String>,
    obs: Vec<String>,
    last_disk: String,
    last_loose: String,
    on_disk: BTreeSet<gix_hash::ObjectId>,
    rep: &'a mut Report,
    missing: Vec<gix_hash::ObjectId>,
    /// the store uses the multi-pack index
    midx: bool,
    /// number of elements of the last listing
    elements: usize,
}

impl<'a> Scn<'a> {
    fn new(rep: &'a mut Report, dir: PathBuf, slots: usize) -> Scn<'a> {
        Self::new_opts(rep, dir, slots, false)
    }
    fn new_opts(rep: &'a mut Report, dir: PathBuf, slots: usize, midx: bool) -> Scn<'a> {
        let repo = Repo::new(dir);
        let store = open_store(&repo.objects(), slots as u16, midx);
        Scn {
            midx,
            elements: 0,
            repo,
            store,
            slots,
            handles: Vec::new(),
            never: Vec::new(),
            objnum: BTreeMap::new(),
            filenum: BTreeMap::new(),
            idx_cache: BTreeMap::new(),
            steps: Vec::new(),
            obs: Vec::new(),
            last_disk: "?".into(),
            last_loose: "?".into(),
            on_disk: BTreeSet::new(),
            rep,
            missing: Vec::new(),
        }
    }
    fn num(&mut self, id: gix_hash::ObjectId) -> usize {
        let n = self.objnum.len();
        *self.objnum.entry(id).or_insert(n)
    }
    /// look at the objects directory and emit `D` / `L` steps if it changed
    fn sync_disk(&mut self) {
        let files = listing(&self.repo.pack_dir());
        let mut parts = Vec::new();
        let mut on_disk = BTreeSet::new();
        for p in &files {
            let objs = self.objs_of(p);
            on_disk.extend(objs.iter().cloned());
        }
        let mut elements = 0;
        if self.midx {
            for item in listing_with_midx(&self.repo.pack_dir()) {
                elements += 1;
                match item {
                    Listed::Idx(p) => {
                        let name = p.file_name().unwrap().to_string_lossy().to_string();
                        let n = self.filenum.len();
                        let f = *self.filenum.entry(name).or_insert(n);
                        let objs = self.objs_of(&p);
                        let nums: Vec<String> = objs.into_iter().map(|o| self.num(o).to_string()).collect();
                        parts.push(format!("{f}:{}", nums.join(".")));
                    }
                    Listed::Midx(tag, packs) => {
                        let n = self.filenum.len();
                        let f = *self.filenum.entry(format!("multi-pack-index@{tag}")).or_insert(n);
                        let mut ps = Vec::new();
                        for (name, objs) in packs {
                            let n = self.filenum.len();
                            let pf = *self.filenum.entry(name).or_insert(n);
                            let nums: Vec<String> = objs.into_iter().map(|o| self.num(o).to_string()).collect();
                            ps.push(format!("{pf}={}", nums.join(".")));
                        }
                        parts.push(format!("M{f}:{}", ps.join("|")));
                    }
                }
            }
        } else {
            for p in &files {
                let name = p.file_name().unwrap().to_string_lossy().to_string();
                let n = self.filenum.len();
                let f = *self.filenum.entry(name).or_insert(n);
                let objs = self.objs_of(p);
                let nums: Vec<String> = objs.into_iter().map(|o| self.num(o).to_string()).collect();
                parts.push(format!("{f}:{}", nums.join(".")));
                elements += 1;
            }
        }
        self.elements = elements;
        let disk = format!("D{}", parts.join("+"));
        if disk != self.last_disk {
            self.steps.push(disk.clone());
            self.last_disk = disk;
        }
        let loose = loose_objects(&self.repo.objects());
        on_disk.extend(loose.iter().cloned());
        let nums: Vec<String> = loose.into_iter().map(|o| self.num(o).to_string()).collect();
        let l = format!("L{}", nums.join("."));
        if l != self.last_loose {
            self.steps.push(l.clone());
            self.last_loose = l;
        }
        self.on_disk = on_disk;
        self.rep.bucket(&format!("packs-{}", files.len().min(5)));
    }
    fn objs_of(&mut self, p: &Path) -> Vec<gix_hash::ObjectId> {
        let name = p.file_name().unwrap().to_string_lossy().to_string();
        if let Some(o) = self.idx_cache.get(&name) {
            return o.clone();
        }
        let o = idx_objects(&self.repo.dir, p);
        self.idx_cache.insert(name, o.clone());
        o
    }
    /// Remove (by hand, like a concurrent `git repack -d` / `git gc` would) one pack all of whose objects are also
    /// in another pack or loose: the next refresh sees a change that ONLY removes an index. `false` if there is none.
    fn remove_redundant_pack(&mut self, pick: usize) -> bool {
        let files = listing(&self.repo.pack_dir());
        let loose: BTreeSet<gix_hash::ObjectId> = loose_objects(&self.repo.objects()).into_iter().collect();
        let objs: Vec<Vec<gix_hash::ObjectId>> = files.iter().map(|p| self.objs_of(p)).collect();
        let mut cand = Vec::new();
        for i in 0..files.len() {
            let mut others = loose.clone();
            for (j, o) in objs.iter().enumerate() {
                if j != i {
                    others.extend(o.iter().cloned());
                }
            }
            if objs[i].iter().all(|o| others.contains(o)) {
                cand.push(i);
            }
        }
        if cand.is_empty() {
            return false;
        }
        let p = &files[cand[pick % cand.len()]];
        for ext in ["idx", "pack", "rev", "bitmap", "mtimes", "keep"] {
            let _ = std::fs::remove_file(p.with_extension(ext));
        }
        self.rep.bucket("rm-redundant-pack");
        true
    }
    fn new_handle(&mut self) {
        self.steps.push("N".into());
        let h = self.store.to_handle_arc();
        self.handles.push(Some(h));
        self.never.push(false);
    }
    fn live(&self) -> Vec<usize> {
        self.handles.iter().enumerate().filter(|(_, h)| h.is_some()).map(|(i, _)| i).collect()
    }
    fn op_line(&self) -> String {
        format!("scn {} {}", self.slots, self.steps.join(" "))
    }
    fn oracle(&mut self, what: &str, h: usize, id: gix_hash::ObjectId, obs: &str) {
        self.rep.oracle_checked();
        let present = self.on_disk.contains(&id);
        // a rewritten multi-pack index needs a free slot next to its old one
        let enough_slots = self.elements + usize::from(self.midx) <= self.slots;
        let key = match obs {
            "panic" => Some("scripted: lookup panics"),
            "wrong" => Some("scripted: try_find returned another object's content"),
            "0" | "none" if present && enough_slots && !self.never[h] => Some("scripted: object on disk not found"),
            "err" if enough_slots => Some("scripted: lookup error although the slot map is big enough"),
            "1" | "ok" if !present => Some("scripted: object that is not on disk found"),
            _ => None,
        };
        if let Some(key) = key {
            let line = self.op_line();
            let n = self.objnum.get(&id).copied().unwrap_or(usize::MAX);
            self.rep.oracle_failure(
                key,
                &format!("{what} handle {h} object #{n} ({id}) -> {obs}; slots={} scenario: {}", self.slots, line),
                &line,
            );
        }
    }
    fn contains(&mut self, h: usize, id: gix_hash::ObjectId) {
        let n = self.num(id);
        self.steps.push(format!("H{h}:{n}"));
        let o = contains_obs(self.handles[h].as_ref().unwrap(), &id);
        self.oracle("contains", h, id, &o);
        self.rep.bucket(&format!("contains-{o}"));
        self.obs.push(o);
    }
    fn find(&mut self, h: usize, id: gix_hash::ObjectId) -> String {
        let n = self.num(id);
        self.steps.push(format!("F{h}:{n}"));
        let o = find_obs(self.handles[h].as_ref().unwrap(), &id);
        self.oracle("try_find", h, id, &o);
        self.rep.bucket(&format!("find-{o}"));
        self.obs.push(o.clone());
        o
    }
    fn metrics(&mut self) {
        self.steps.push("M".into());
        self.obs.push(metrics_line(&self.store));
    }
    fn finish(self, class: &str) {
        let line = self.op_line();
        let obs = if self.obs.is_empty() { "-".to_string() } else { self.obs.join(",") };
        self.rep.bucket(class);
        self.rep.case(&line, &obs, true);
    }
}

fn some_missing_id(rng: &mut Rng) -> gix_hash::ObjectId {
    gix_hash::ObjectId::from_bytes_or_panic(&rng.bytes(20))
}

/// the three scenarios that failed before the fixes in /repo (see known-findings.txt)
fn corpus(rep: &mut Report, sc: &Scratch) {
    // (a) two handles, one repack: the stale handle used to hit unreachable!() in load_pack()
    // (b) 2 slots, two repacks: the stale handle used to get commit3's bytes for commit1
    for (tag, slots, repacks) in [("a", 32usize, 1usize), ("b", 2, 2), ("b3", 3, 3), ("b1", 1, 1)] {
        let mut s = Scn::new(rep, sc.join(format!("corpus-{tag}")), slots);
        let c1 = s.repo.commit(0);
        git_ok(&s.repo.dir, &["repack", "-adq"], None);
        s.sync_disk();
        s.new_handle();
        s.new_handle();
        s.contains(0, c1);
        s.metrics();
        for _ in 0..repacks {
            let c = s.repo.commit(0);
            git_ok(&s.repo.dir, &["repack", "-adq"], None);
            s.sync_disk();
            s.contains(1, c);
            s.metrics();
        }
        s.find(0, c1);
        s.metrics();
        let all = s.repo.all_objects();
        for o in all {
            s.find(0, o);
            s.find(1, o);
        }
        s.metrics();
        s.finish("corpus");
    }
    // (c) more index files than slots: Err(InsufficientSlots), the indices in use stay usable
    {
        let mut s = Scn::new(rep, sc.join("corpus-c"), 2);
        let c1 = s.repo.commit(0);
        git_ok(&s.repo.dir, &["repack", "-adq"], None);
        s.sync_disk();
        s.new_handle();
        s.contains(0, c1);
        let c2 = s.repo.commit(0);
        git_ok(&s.repo.dir, &["repack", "-dq"], None);
        s.sync_disk();
        s.contains(0, c2);
        s.metrics();
        let c3 = s.repo.commit(0);
        git_ok(&s.repo.dir, &["repack", "-dq"], None);
        s.sync_disk();
        s.find(0, c3);
        s.metrics();
        s.find(0, c1);
        s.find(0, c2);
        s.new_handle();
        s.find(1, c1);
        s.find(1, c2);
        s.find(1, c3);
        s.metrics();
        s.finish("corpus");
    }
    // (d) stable handle keeps removed packs available; slots are not reused for it
    {
        let mut s = Scn::new(rep, sc.join("corpus-d"), 4);
        let c1 = s.repo.commit(0);
        git_ok(&s.repo.dir, &["repack", "-adq"], None);
        s.sync_disk();
        s.new_handle();
        s.new_handle();
        s.steps.push("S1".into());
        s.handles[1].as_mut().unwrap().prevent_pack_unload();
        s.find(0, c1);
        s.find(1, c1);
        for _ in 0..2 {
            let c = s.repo.commit(0);
            git_ok(&s.repo.dir, &["repack", "-adq"], None);
            s.sync_disk();
            s.find(0, c);
            s.metrics();
            s.find(1, c1);
            s.metrics();
        }
        s.steps.push("X1".into());
        s.handles[1] = None;
        for _ in 0..3 {
            let c = s.repo.commit(0);
            git_ok(&s.repo.dir, &["repack", "-adq"], None);
            s.sync_disk();
            s.find(0, c);
            s.find(0, c1);
            s.metrics();
        }
        s.finish("corpus");
    }
    // (e) a refresh that ONLY removes an index (a redundant pack disappears, nothing new appears): the slot is
    // cleared, so the generation has to change although nothing is added. Handles 0 and 2 have the index of
    // the removed pack but not its pack: handle 0 comes back while the slot is empty (unreachable!() in
    // load_pack() without the new generation), handle 2 after the slot was given to the next pack (another
    // object's bytes without it).
    let absent = gix_hash::ObjectId::from_bytes_or_panic(&[0xee; 20]);
    for slots in 1..=4usize {
        let mut s = Scn::new(rep, sc.join(format!("corpus-e{slots}")), slots);
        let c1 = s.repo.commit(0);
        git_ok(&s.repo.dir, &["repack", "-adq"], None);
        s.sync_disk();
        for _ in 0..3 {
            s.new_handle();
        }
        // no loose copy yet: the lookups have to load the index of the pack (and only the index)
        s.contains(0, c1);
        s.contains(2, c1);
        s.metrics();
        // loose copies of everything in the pack (`unpack-objects` skips what the repository has, so the pack is
        // out of sight while it runs; no API call in between, the store does not see that)
        {
            let p = listing(&s.repo.pack_dir()).pop().expect("one pack");
            let aside = s.repo.dir.join("aside");
            std::fs::create_dir_all(&aside).unwrap();
            let exts: Vec<&str> = ["idx", "pack", "rev"].into_iter().filter(|e| p.with_extension(e).is_file()).collect();
            for e in &exts {
                std::fs::rename(p.with_extension(e), aside.join(format!("p.{e}"))).unwrap();
            }
            let data = std::fs::read(aside.join("p.pack")).unwrap();
            let out = git(&s.repo.dir, &["unpack-objects", "-q"], Some(&data));
            assert!(out.ok, "unpack-objects");
            for e in &exts {
                std::fs::rename(aside.join(format!("p.{e}")), p.with_extension(e)).unwrap();
            }
        }
        s.sync_disk();
        s.metrics();
        assert!(s.remove_redundant_pack(0), "the pack is redundant to the loose objects");
        s.sync_disk();
        s.contains(1, absent);
        s.metrics();
        s.find(0, c1);
        s.metrics();
        let c2 = s.repo.commit(0);
        git_ok(&s.repo.dir, &["repack", "-dq"], None);
        s.sync_disk();
        s.contains(1, c2);
        s.metrics();
        s.find(2, c1);
        s.metrics();
        for o in s.repo.all_objects() {
            s.find(0, o);
            s.find(1, o);
            s.find(2, o);
        }
        s.metrics();
        s.finish("corpus");
    }
    // (f) the same with the slot map full of other packs that stay: pack A (slot 0), fillers, then an all-in-one
    // pack in the last slot makes A redundant; A is removed alone; the next new pack wraps around into slot 0.
    for slots in 2..=4usize {
        let mut s = Scn::new(rep, sc.join(format!("corpus-f{slots}")), slots);
        let c1 = s.repo.commit(0);
        git_ok(&s.repo.dir, &["repack", "-adq"], None);
        s.sync_disk();
        for _ in 0..3 {
            s.new_handle();
        }
        s.contains(0, c1);
        s.contains(2, c1);
        for _ in 0..slots - 2 {
            let c = s.repo.commit(0);
            git_ok(&s.repo.dir, &["repack", "-dq"], None);
            s.sync_disk();
            s.contains(1, c);
        }
        let c = s.repo.commit(0);
        git_ok(&s.repo.dir, &["repack", "-aq"], None);
        git_ok(&s.repo.dir, &["prune-packed", "-q"], None);
        s.sync_disk();
        s.contains(1, c);
        s.metrics();
        // remove pack A (the one holding c1 that handle 0 knows): the smallest index of the redundant ones is not
        // necessarily A, so look for it
        let files = listing(&s.repo.pack_dir());
        let a = files
            .iter()
            .filter(|p| {
                let o = s.idx_cache.get(&p.file_name().unwrap().to_string_lossy().to_string()).cloned();
                o.map_or(false, |o| o.contains(&c1))
            })
            .min_by_key(|p| std::fs::metadata(p).map(|m| m.len()).unwrap_or(0))
            .cloned()
            .expect("pack A");
        for ext in ["idx", "pack", "rev"] {
            let _ = std::fs::remove_file(a.with_extension(ext));
        }
        s.rep.bucket("rm-redundant-pack");
        s.sync_disk();
        s.contains(1, absent);
        s.metrics();
        s.find(0, c1);
        s.metrics();
        let c2 = s.repo.commit(0);
        git_ok(&s.repo.dir, &["repack", "-dq"], None);
        s.sync_disk();
        s.contains(1, c2);
        s.metrics();
        s.find(2, c1);
        s.metrics();
        for o in s.repo.all_objects() {
            s.find(0, o);
            s.find(1, o);
            s.find(2, o);
        }
        s.metrics();
        s.finish("corpus");
    }
    // (g) multi-pack index. Handles 0 and 2 find an object through the multi-pack index without
    // loading its pack. Then ONLY the multi-pack index is rewritten (`git multi-pack-index write` after a new
    // pack; no index file the store knows disappears): the store moves it to another slot and clears the old
    // one, which needs a new generation. Handle 0 comes back while the old slot is empty, handle 2 after
    // `git repack -ad --write-midx` put the next multi-pack index (one pack, other pack numbering) into it.
    for slots in 2..=4usize {
        for variant in 0..2 {
            let mut s = Scn::new_opts(rep, sc.join(format!("corpus-g{slots}-{variant}")), slots, true);
            let c1 = s.repo.commit(0);
            git_ok(&s.repo.dir, &["repack", "-adq"], None);
            let c2 = s.repo.commit(0);
            git_ok(&s.repo.dir, &["repack", "-dq"], None);
            git_ok(&s.repo.dir, &["multi-pack-index", "write"], None);
            s.sync_disk();
            for _ in 0..3 {
                s.new_handle();
            }
            s.contains(0, c1);
            s.contains(0, c2);
            s.contains(2, c2);
            s.contains(2, c1);
            s.metrics();
            let c3 = s.repo.commit(0);
            if variant == 0 {
                git_ok(&s.repo.dir, &["repack", "-dq"], None);
            }
            // make sure the rewritten file has another mtime
            std::thread::sleep(std::time::Duration::from_millis(20));
            git_ok(&s.repo.dir, &["multi-pack-index", "write"], None);
            s.rep.bucket("git-midx-rewrite-only");
            s.sync_disk();
            s.contains(1, absent);
            s.metrics();
            s.find(0, c1);
            s.find(0, c2);
            s.metrics();
            std::thread::sleep(std::time::Duration::from_millis(20));
            git_ok(&s.repo.dir, &["repack", "-adq", "--write-midx"], None);
            s.rep.bucket("git-repack-ad-write-midx");
            s.sync_disk();
            s.contains(1, absent);
            s.metrics();
            s.find(2, c2);
            s.find(2, c1);
            s.find(1, c3);
            s.metrics();
            for o in s.repo.all_objects() {
                s.find(0, o);
                s.find(1, o);
                s.find(2, o);
            }
            s.metrics();
            s.finish("corpus-midx");
        }
    }
}

fn random_scenario(rep: &mut Report, sc: &Scratch, rng: &mut Rng, idx: u64) {
    let stable_family = rng.chance(1, 4);
    let slots: usize = if stable_family { 32 } else { *rng.pick(&[1usize, 2, 2, 2, 3, 3, 4, 4, 8]) };
    let mut s = Scn::new(rep, sc.join(format!("s{idx}")), slots);
    let salt = rng.u64();
    let _ = s.repo.commit(salt);
    if rng.chance(2, 3) {
        git_ok(&s.repo.dir, &["repack", "-adq"], None);
    }
    s.sync_disk();
    s.new_handle();
    let nsteps = 8 + rng.usize(14);
    for _ in 0..nsteps {
        let live = s.live();
        let r = rng.below(100);
        let packs = s.repo.num_packs();
        if r < 12 {
            s.repo.commit(salt);
            s.sync_disk();
            s.rep.bucket("git-commit");
        } else if r < 22 {
            // adds a pack if there are loose objects
            if packs + 1 <= slots {
                git_ok(&s.repo.dir, &["repack", "-dq"], None);
                s.rep.bucket("git-repack-d");
            } else {
                git_ok(&s.repo.dir, &["repack", "-adq"], None);
                s.rep.bucket("git-repack-ad");
            }
            s.sync_disk();
        } else if r < 32 {
            git_ok(&s.repo.dir, &["repack", "-adq"], None);
            s.rep.bucket("git-repack-ad");
            s.sync_disk();
        } else if r < 37 {
            if packs + 1 <= slots {
                s.repo.commit(salt);
                if s.repo.index_pack_last_commit() {
                    s.rep.bucket("git-index-pack");
                }
                if rng.chance(1, 2) {
                    git_ok(&s.repo.dir, &["prune-packed", "-q"], None);
                    s.rep.bucket("git-prune-packed");
                }
                s.sync_disk();
            }
        } else if r < 40 {
            git_ok(&s.repo.dir, &["prune-packed", "-q"], None);
            s.rep.bucket("git-prune-packed");
            s.sync_disk();
        } else if r < 46 {
            if s.handles.len() < 4 {
                s.new_handle();
            }
        } else if r < 49 {
            if live.len() > 1 {
                let h = *rng.pick(&live);
                s.steps.push(format!("X{h}"));
                s.handles[h] = None;
            }
        } else if r < 52 {
            if stable_family && !live.is_empty() {
                let h = *rng.pick(&live);
                s.steps.push(format!("S{h}"));
                s.handles[h].as_mut().unwrap().prevent_pack_unload();
                s.rep.bucket("stable-handle");
            }
        } else if r < 54 {
            if !live.is_empty() {
                let h = *rng.pick(&live);
                s.steps.push(format!("R{h}"));
                s.handles[h].as_mut().unwrap().refresh_never();
                s.never[h] = true;
                s.rep.bucket("refresh-never");
            }
        } else if r < 62 {
            s.metrics();
        } else if r < 66 {
            // an all-in-one pack next to the existing ones (which become redundant)
            if packs + 1 <= slots {
                git_ok(&s.repo.dir, &["repack", "-aq"], None);
                s.rep.bucket("git-repack-a");
                s.sync_disk();
            }
        } else if r < 73 {
            // a change that only removes: a redundant pack disappears, nothing is added
            if s.remove_redundant_pack(rng.usize(8)) {
                s.sync_disk();
            }
        } else if !live.is_empty() {
            let h = *rng.pick(&live);
            let known: Vec<gix_hash::ObjectId> = s.objnum.keys().cloned().collect();
            let id = if known.is_empty() || rng.chance(1, 8) {
                if s.missing.is_empty() || rng.chance(1, 2) {
                    let m = some_missing_id(rng);
                    s.missing.push(m);
                    m
                } else {
                    *rng.pick(&s.missing)
                }
            } else {
                // numbers are handed out in order of appearance: bias towards the newest and the oldest
                let mut by_num: Vec<(usize, gix_hash::ObjectId)> = s.objnum.iter().map(|(k, v)| (*v, *k)).collect();
                by_num.sort();
                let n = by_num.len();
                let i = match rng.below(4) {
                    0 => n - 1 - rng.usize(n.min(3)),
                    1 => rng.usize(n.min(3)),
                    _ => rng.usize(n),
                };
                by_num[i].1
            };
            if rng.chance(1, 2) {
                s.contains(h, id);
            } else {
                s.find(h, id);
            }
        }
    }
    s.metrics();
    s.finish(if stable_family { "random-stable" } else { "random" });
}

/// random scenarios with a store that uses the multi-pack index; git writes, rewrites and drops it
fn random_midx_scenario(rep: &mut Report, sc: &Scratch, rng: &mut Rng, idx: u64) {
    let slots: usize = *rng.pick(&[2usize, 3, 3, 4, 4, 6, 8]);
    let mut s = Scn::new_opts(rep, sc.join(format!("m{idx}")), slots, true);
    let salt = rng.u64();
    let _ = s.repo.commit(salt);
    git_ok(&s.repo.dir, &["repack", "-adq"], None);
    if rng.chance(2, 3) {
        let _ = s.repo.commit(salt);
        git_ok(&s.repo.dir, &["repack", "-dq"], None);
    }
    if rng.chance(3, 4) {
        git_ok(&s.repo.dir, &["multi-pack-index", "write"], None);
    }
    s.sync_disk();
    s.new_handle();
    s.new_handle();
    let nsteps = 8 + rng.usize(14);
    for _ in 0..nsteps {
        let live = s.live();
        let r = rng.below(100);
        // what the listing shows, plus room for a moved multi-pack index and a new pack
        let room = s.elements + 2 <= slots;
        if r < 10 {
            s.repo.commit(salt);
            s.sync_disk();
            s.rep.bucket("git-commit");
        } else if r < 20 {
            if room {
                git_ok(&s.repo.dir, &["repack", "-dq"], None);
                s.rep.bucket("git-repack-d");
                s.sync_disk();
            }
        } else if r < 34 {
            std::thread::sleep(std::time::Duration::from_millis(15));
            git_ok(&s.repo.dir, &["multi-pack-index", "write"], None);
            s.rep.bucket("git-midx-write");
            s.sync_disk();
        } else if r < 44 {
            std::thread::sleep(std::time::Duration::from_millis(15));
            git_ok(&s.repo.dir, &["repack", "-adq", "--write-midx"], None);
            s.rep.bucket("git-repack-ad-write-midx");
            s.sync_disk();
        } else if r < 49 {
            git_ok(&s.repo.dir, &["repack", "-adq"], None);
            s.rep.bucket("git-repack-ad");
            s.sync_disk();
        } else if r < 52 {
            git_ok(&s.repo.dir, &["prune-packed", "-q"], None);
            s.rep.bucket("git-prune-packed");
            s.sync_disk();
        } else if r < 56 {
            if s.handles.len() < 4 {
                s.new_handle();
            }
        } else if r < 58 {
            if live.len() > 1 {
                let h = *rng.pick(&live);
                s.steps.push(format!("X{h}"));
                s.handles[h] = None;
            }
        } else if r < 66 {
            s.metrics();
        } else if !live.is_empty() {
            let h = *rng.pick(&live);
            let id = if s.objnum.is_empty() || rng.chance(1, 8) {
                if s.missing.is_empty() || rng.chance(1, 2) {
                    let m = some_missing_id(rng);
                    s.missing.push(m);
                    m
                } else {
                    *rng.pick(&s.missing)
                }
            } else {
                let mut by_num: Vec<(usize, gix_hash::ObjectId)> = s.objnum.iter().map(|(k, v)| (*v, *k)).collect();
                by_num.sort();
                let n = by_num.len();
                let i = match rng.below(4) {
                    0 => n - 1 - rng.usize(n.min(3)),
                    1 => rng.usize(n.min(3)),
                    _ => rng.usize(n),
                };
                by_num[i].1
            };
            if rng.chance(1, 2) {
                s.contains(h, id);
            } else {
                s.find(h, id);
            }
        }
    }
    s.metrics();
    s.finish("random-midx");
}

// ---------------------------------------------------------------------------------------------
// stress
// ---------------------------------------------------------------------------------------------

#[derive(Default)]
struct StressOut {
    lookups: AtomicU64,
    found: AtomicU64,
    fails: Mutex<Vec<(String, String)>>,
}

fn stress_run(rep: &mut Report, sc: &Scratch, seed: u64, idx: u64, min_ops: u64, max_millis: u64) {
    let mut rng = Rng::new(seed ^ (0x5EED << 8) ^ idx);
    // handles with stable pack ids keep every slot of a removed pack occupied: give those runs a big slot map
    let with_stable = rng.chance(1, 3);
    let slots: u16 = if with_stable { 96 } else { *rng.pick(&[8u16, 8, 12, 32]) };
    let midx = rng.chance(1, 2);
    let threads = 8 + rng.usize(9);
    let max_packs = 4usize;
    let mut repo = Repo::new(sc.join(format!("stress{idx}")));
    for _ in 0..4 {
        repo.commit(idx);
        if rng.chance(1, 2) {
            git_ok(&repo.dir, &["repack", "-dq"], None);
        }
    }
    if rng.chance(1, 2) {
        git_ok(&repo.dir, &["repack", "-adq"], None);
    }
    let store = open_store(&repo.objects(), slots, midx);
    let stable_set: Arc<Vec<gix_hash::ObjectId>> = Arc::new(repo.all_objects());
    let recent: Arc<Mutex<Vec<gix_hash::ObjectId>>> = Arc::new(Mutex::new(Vec::new()));
    let stop = Arc::new(AtomicBool::new(false));
    let out = Arc::new(StressOut::default());
    rep.bucket(&format!("stress-slots-{slots}"));
    rep.bucket(if midx { "stress-midx" } else { "stress-no-midx" });
    rep.bucket(if with_stable { "stress-with-stable-handles" } else { "stress-without-stable-handles" });
    let mut joins = Vec::new();
    for t in 0..threads {
        let store = store.clone();
        let stable_set = stable_set.clone();
        let recent = recent.clone();
        let stop = stop.clone();
        let out = out.clone();
        let mut rng = Rng::new(seed.wrapping_mul(31).wrapping_add(idx * 1000 + t as u64));
        joins.push(std::thread::spawn(move || {
            let keep = with_stable && t % 4 == 1;
            let make = |keep: bool| {
                let mut h = store.to_handle_arc();
                if keep {
                    h.prevent_pack_unload();
                }
                h
            };
            let mut h = make(keep);
            let mut n = 0u64;
            while !stop.load(Ordering::Relaxed) {
                n += 1;
                if t % 3 == 0 && n % 40 == 0 {
                    h = make(keep);
                }
                let (id, is_recent) = {
                    let rec = recent.lock().unwrap();
                    if !rec.is_empty() && rng.chance(2, 5) {
                        let k = rec.len();
                        (rec[k - 1 - rng.usize(k.min(12))], true)
                    } else {
                        (*rng.pick(&stable_set), false)
                    }
                };
                out.lookups.fetch_add(1, Ordering::Relaxed);
                let (what, o) = if rng.chance(1, 3) {
                    ("contains", contains_obs(&h, &id))
                } else {
                    ("try_find", find_obs(&h, &id))
                };
                // leave the CPU to the git processes of the driver thread
                std::thread::sleep(std::time::Duration::from_micros(60));
                match o.as_str() {
                    "ok" | "1" => {
                        out.found.fetch_add(1, Ordering::Relaxed);
                    }
                    other => {
                        let key = match other {
                            "wrong" => "stress: try_find returned another object's content",
                            "panic" => "stress: lookup panics",
                            "err" => "stress: lookup error for an object on disk",
                            _ => "stress: object on disk throughout the lookup not found",
                        };
                        let mut f = out.fails.lock().unwrap();
                        if f.len() < 20 {
                            // the state of the directory right after the miss
                            let diag = {
                                let objects = store.path().to_owned();
                                let loose = {
                                    let hex = id.to_hex().to_string();
                                    objects.join(&hex[..2]).join(&hex[2..]).is_file()
                                };
                                let files = listing(&objects.join("pack"));
                                let holding: Vec<String> = files
                                    .iter()
                                    .filter(|p| {
                                        gix_pack::index::File::at(p.as_path(), gix_hash::Kind::Sha1)
                                            .map(|f| f.lookup(id).is_some())
                                            .unwrap_or(false)
                                    })
                                    .map(|p| p.file_name().unwrap().to_string_lossy()[5..12].to_string())
                                    .collect();
                                let m = store.metrics();
                                format!(
                                    "loose-file={loose} packs-listed={} packs-holding-it={holding:?} midx-file={} metrics: refreshes={} known-indices={} open-indices={} unused-slots={}",
                                    files.len(),
                                    objects.join("pack/multi-pack-index").is_file(),
                                    m.num_refreshes,
                                    m.known_reachable_indices,
                                    m.open_reachable_indices,
                                    m.unused_slots
                                )
                            };
                            let retry = {
                                let mut buf = Vec::new();
                                match catch(|| h.try_find(&id, &mut buf).map(|o| o.is_some())) {
                                    Ok(Ok(true)) => "found".to_string(),
                                    Ok(Ok(false)) => "none".to_string(),
                                    Ok(Err(e)) => {
                                        let mut msg = e.to_string();
                                        let mut src: Option<&dyn std::error::Error> = std::error::Error::source(&*e);
                                        while let Some(s2) = src {
                                            msg.push_str(": ");
                                            msg.push_str(&s2.to_string());
                                            src = s2.source();
                                        }
                                        format!("error {msg}")
                                    }
                                    Err(p) => format!("panic {p}"),
                                }
                            };
                            f.push((
                                key.to_string(),
                                format!(
                                    "{what} {id} -> {other} (thread {t}, lookup #{n} of the thread, stable handle: {keep}, object {}; {diag}; retry through the same handle: {retry})",
                                    if is_recent { "committed during the run" } else { "present from the start" }
                                ),
                            ));
                        }
                    }
                }
            }
        }));
    }
    // the driver: real git changing the directory
    let t0 = std::time::Instant::now();
    let mut ops = 0u64;
    while ops < min_ops && t0.elapsed().as_millis() < max_millis as u128 {
        ops += 1;
        let packs = repo.num_packs();
        let r = rng.below(100);
        if r < 30 {
            let c = repo.commit(idx);
            let mut new: Vec<gix_hash::ObjectId> = git_ok(&repo.dir, &["rev-list", "--objects", "--no-walk", "HEAD"], None)
                .lines()
                .filter_map(|l| l.split(' ').next())
                .map(oid)
                .collect();
            new.push(c);
            recent.lock().unwrap().extend(new);
            rep.bucket("stress-git-commit");
        } else if r < 50 {
            if packs < max_packs {
                git_ok(&repo.dir, &["repack", "-dq"], None);
                rep.bucket("stress-git-repack-d");
            } else {
                git_ok(&repo.dir, &["repack", "-adq"], None);
                rep.bucket("stress-git-repack-ad");
            }
        } else if r < 65 {
            git_ok(&repo.dir, &["repack", "-adq"], None);
            rep.bucket("stress-git-repack-ad");
        } else if r < 78 {
            let _ = git(&repo.dir, &["multi-pack-index", "write"], None);
            rep.bucket("stress-git-midx-write");
        } else if r < 88 {
            if packs < max_packs {
                let c = repo.commit(idx);
                repo.index_pack_last_commit();
                recent.lock().unwrap().push(c);
                rep.bucket("stress-git-index-pack");
            }
        } else {
            git_ok(&repo.dir, &["prune-packed", "-q"], None);
            rep.bucket("stress-git-prune-packed");
        }
    }
    stop.store(true, Ordering::Relaxed);
    let mut panicked = 0;
    for j in joins {
        if j.join().is_err() {
            panicked += 1;
        }
    }
    let desc = format!("stress run {idx}: slots={slots} midx={midx} threads={threads} git-ops={ops}");
    rep.oracle_only(&desc, true);
    let lookups = out.lookups.load(Ordering::Relaxed);
    for _ in 0..lookups.min(100_000) {
        rep.oracle_checked();
    }
    rep.note(&format!("{desc} lookups={lookups} found={}", out.found.load(Ordering::Relaxed)));
    if panicked > 0 {
        rep.oracle_failure("stress: reader thread died", &desc, "");
    }
    for (key, detail) in out.fails.lock().unwrap().iter() {
        rep.note(&format!("stress run {idx} failure: {key}: {detail}"));
        rep.oracle_failure(key, &format!("{detail}; {desc}"), "");
    }
    let m = store.metrics();
    rep.note(&format!("stress run {idx} final metrics: refreshes={} unused_slots={}", m.num_refreshes, m.unused_slots));
}

// ---------------------------------------------------------------------------------------------
// forced interleavings (the cfg(gix_verif) interleaving points of gix-odb)
// ---------------------------------------------------------------------------------------------

thread_local! {
    static ROLE: std::cell::Cell<u32> = const { std::cell::Cell::new(0) };
}

/// holds the thread with a given role at a named interleaving point until released
#[derive(Default)]
struct Gate {
    want: Mutex<Option<(u32, &'static str)>>,
    arrived: (Mutex<bool>, std::sync::Condvar),
    release: (Mutex<bool>, std::sync::Condvar),
}

impl Gate {
    fn install() -> Arc<Gate> {
        let g = Arc::new(Gate::default());
        let g2 = g.clone();
        gix_odb::store::load_index::verif::set(Some(Box::new(move |name| {
            let role = ROLE.with(|r| r.get());
            let hit = {
                let mut w = g2.want.lock().unwrap();
                if *w == Some((role, name)) {
                    *w = None;
                    true
                } else {
                    false
                }
            };
            if hit {
                *g2.arrived.0.lock().unwrap() = true;
                g2.arrived.1.notify_all();
                let mut rel = g2.release.0.lock().unwrap();
                while !*rel {
                    rel = g2.release.1.wait(rel).unwrap();
                }
            }
        })));
        g
    }
    fn arm(&self, role: u32, point: &'static str) {
        *self.arrived.0.lock().unwrap() = false;
        *self.release.0.lock().unwrap() = false;
        *self.want.lock().unwrap() = Some((role, point));
    }
    /// wait until the armed thread is held at its point; false on timeout
    fn wait_arrived(&self, millis: u64) -> bool {
        let guard = self.arrived.0.lock().unwrap();
        let (guard, _) = self
            .arrived
            .1
            .wait_timeout_while(guard, std::time::Duration::from_millis(millis), |a| !*a)
            .unwrap();
        *guard
    }
    fn release(&self) {
        *self.want.lock().unwrap() = None;
        *self.release.0.lock().unwrap() = true;
        self.release.1.notify_all();
    }
}

fn uninstall_gate() {
    gix_odb::store::load_index::verif::set(None);
}

fn join_with_deadline<T: Send + 'static>(j: std::thread::JoinHandle<T>, millis: u64) -> Option<T> {
    let t0 = std::time::Instant::now();
    while !j.is_finished() {
        if t0.elapsed().as_millis() > millis as u128 {
            return None;
        }
        std::thread::sleep(std::time::Duration::from_millis(2));
    }
    j.join().ok()
}

/// the Lean protocol core run on an explicit event list: `ev <bumpOnClear> <recheck> <slots> <events…>`
fn sched_case(rep: &mut Report, name: &str, slots: usize, events: &str, wrong: bool, panicked: bool) {
    rep.bucket(&format!("forced-{name}"));
    rep.case(
        &format!("ev 1 1 {slots} {events}"),
        &format!("wrong={} panic={} rejected=-", wrong as u8, panicked as u8),
        true,
    );
}

/// (S1) a thread is held between claiming the last index to load and announcing the load; a second
/// thread looks up an object of that index in the meantime.
fn forced_claim_window(rep: &mut Report, sc: &Scratch) {
    let mut repo = Repo::new(sc.join("forced-s1"));
    let c1 = repo.commit(1);
    git_ok(&repo.dir, &["repack", "-adq"], None);
    let store = open_store(&repo.objects(), 8, false);
    let gate = Gate::install();
    gate.arm(1, "load_next_index:claimed");
    let st = store.clone();
    let a = std::thread::spawn(move || {
        ROLE.with(|r| r.set(1));
        let h = st.to_handle_arc();
        find_obs(&h, &c1)
    });
    let held = gate.wait_arrived(20_000);
    let st = store.clone();
    let (btx, brx) = std::sync::mpsc::channel::<String>();
    std::thread::spawn(move || {
        ROLE.with(|r| r.set(2));
        let h = st.to_handle_arc();
        let _ = btx.send(find_obs(&h, &c1));
    });
    // while A is held, B may wait for it, but must not come back without the object
    let early = brx.recv_timeout(std::time::Duration::from_millis(1500)).ok();
    gate.release();
    let a_res = join_with_deadline(a, 20_000).unwrap_or_else(|| "hang".into());
    let b_res = match &early {
        Some(r) => r.clone(),
        None => brx.recv_timeout(std::time::Duration::from_millis(20_000)).unwrap_or_else(|_| "hang".into()),
    };
    uninstall_gate();
    rep.oracle_checked();
    rep.bucket("forced-claim-window");
    let desc = format!("held={held} B-while-A-held={early:?} B={b_res} A={a_res}");
    rep.note(&format!("forced claim window: {desc}"));
    if !held {
        rep.oracle_failure("forced: interleaving point load_next_index:claimed not reached", &desc, "");
    }
    if b_res != "ok" || a_res != "ok" {
        rep.oracle_failure(
            "forced: object on disk not found while another thread is about to load its index",
            &format!("thread A held between next_index_to_load.fetch_update() and the increment of num_indices_currently_being_loaded; thread B try_find of a packed object: {desc}"),
            "",
        );
    }
}

/// (S2) a reader is held between the generation check of `load_pack` and its critical section while a
/// consolidation overwrites the slot (1 slot: the only slot is reused for the new pack).
fn forced_recheck_window(rep: &mut Report, sc: &Scratch) {
    let mut repo = Repo::new(sc.join("forced-s2"));
    let c1 = repo.commit(1);
    git_ok(&repo.dir, &["repack", "-adq"], None);
    let store = open_store(&repo.objects(), 1, false);
    let gate = Gate::install();
    let (tx, rx) = std::sync::mpsc::channel::<()>();
    let (tx2, rx2) = std::sync::mpsc::channel::<()>();
    let st = store.clone();
    let g2 = gate.clone();
    let a = std::thread::spawn(move || {
        ROLE.with(|r| r.set(1));
        let h = st.to_handle_arc();
        let first = contains_obs(&h, &c1); // index loaded, pack not
        tx2.send(()).unwrap();
        rx.recv().unwrap(); // wait for the repack
        g2.arm(1, "load_pack:generation_checked");
        (first, find_obs(&h, &c1))
    });
    rx2.recv().unwrap();
    let c2 = repo.commit(2);
    git_ok(&repo.dir, &["repack", "-adq"], None);
    tx.send(()).unwrap();
    let held = gate.wait_arrived(20_000);
    let h1 = store.to_handle_arc();
    let refreshed = contains_obs(&h1, &c2); // consolidation: the only slot now holds the new pack
    gate.release();
    let (first, a_res) = join_with_deadline(a, 20_000).unwrap_or_else(|| ("hang".into(), "hang".into()));
    uninstall_gate();
    rep.oracle_checked();
    let desc = format!("held={held} first={first} refresh-by-other-handle={refreshed} A={a_res}");
    rep.note(&format!("forced recheck window: {desc}"));
    if !held {
        rep.oracle_failure("forced: interleaving point load_pack:generation_checked not reached", &desc, "");
    }
    let key = match a_res.as_str() {
        "ok" => None,
        "wrong" => Some("forced: try_find returned another object's content (slot overwritten between generation check and lock)"),
        "panic" => Some("forced: lookup panics (slot overwritten between generation check and lock)"),
        _ => Some("forced: object on disk not found (slot overwritten between generation check and lock)"),
    };
    if let Some(key) = key {
        rep.oracle_failure(key, &desc, "");
    }
    // the same interleaving in the Lean transition system
    sched_case(
        rep,
        "recheck-window",
        1,
        "ea:10:1.2 nh nh kb:0 kg:0 kf:0:10 kp:0:0 ke li:0:0 cb:0 cs:0 ce:0 ea:11:1.2.3 er:10 l1:0:0 l2:0 l3:0 kb:1 kg:0 kf:0:11 kp:0:0 ke l5:0",
        a_res == "wrong",
        a_res == "panic",
    );
}

/// (S3) the consolidating thread is held right after publishing the new slot map index, before it
/// clears the slot of the removed pack; a reader with the old snapshot looks up an object of that pack.
fn forced_publish_window(rep: &mut Report, sc: &Scratch) {
    let mut repo = Repo::new(sc.join("forced-s3"));
    let c1 = repo.commit(1);
    git_ok(&repo.dir, &["repack", "-adq"], None);
    let store = open_store(&repo.objects(), 4, false);
    let h0 = store.to_handle_arc();
    let first = contains_obs(&h0, &c1); // index loaded, pack not
    let c2 = repo.commit(2);
    git_ok(&repo.dir, &["repack", "-adq"], None);
    let gate = Gate::install();
    gate.arm(1, "consolidate:published");
    let st = store.clone();
    let b = std::thread::spawn(move || {
        ROLE.with(|r| r.set(1));
        let h = st.to_handle_arc();
        contains_obs(&h, &c2)
    });
    let held = gate.wait_arrived(20_000);
    // the old slot still holds the removed pack's index, the new generation is published
    let st = store.clone();
    let a = std::thread::spawn(move || find_obs(&h0, &c1));
    let _ = st;
    let a_early = join_with_deadline(a, 3000);
    gate.release();
    let b_res = join_with_deadline(b, 20_000).unwrap_or_else(|| "hang".into());
    uninstall_gate();
    rep.oracle_checked();
    let desc = format!("held={held} first={first} reader-while-held={a_early:?} consolidating-thread={b_res}");
    rep.note(&format!("forced publish window: {desc}"));
    if !held {
        rep.oracle_failure("forced: interleaving point consolidate:published not reached", &desc, "");
    }
    let a_res = a_early.unwrap_or_else(|| "blocked".into());
    if a_res != "ok" || b_res != "1" {
        let key = match a_res.as_str() {
            "wrong" => "forced: try_find returned another object's content (reader between publish and slot clearing)",
            "panic" => "forced: lookup panics (reader between publish and slot clearing)",
            _ => "forced: object on disk not found (reader between publish and slot clearing)",
        };
        rep.oracle_failure(key, &desc, "");
    }
    sched_case(
        rep,
        "publish-window",
        4,
        "ea:10:1.2 nh kb:0 kg:0 kf:0:10 kp:0:0 ke li:0:0 cb:0 cs:0 ce:0 ea:11:1.2.3 er:10 nh kb:1 kg:1 kf:1:11 kp:1:1 l1:0:0 cb:0 cs:0 ce:0 li:1:1 cb:0 cs:0 ce:0 l1:0:0 l2:0 l3:0 l5:0 kc:0 kx:0 ke",
        a_res == "wrong",
        a_res == "panic",
    );
}

/// (S4) a reader is held between `loose::Store::contains()` and `loose::Store::try_find()` while
/// `git repack -d` packs the loose object and removes its file.
fn forced_loose_window(rep: &mut Report, sc: &Scratch) {
    let mut repo = Repo::new(sc.join("forced-s4"));
    repo.commit(1);
    git_ok(&repo.dir, &["repack", "-adq"], None);
    let c2 = repo.commit(2); // loose
    let store = open_store(&repo.objects(), 8, false);
    let gate = Gate::install();
    gate.arm(1, "find:loose_object_exists");
    let st = store.clone();
    let a = std::thread::spawn(move || {
        ROLE.with(|r| r.set(1));
        let h = st.to_handle_arc();
        find_obs(&h, &c2)
    });
    let held = gate.wait_arrived(20_000);
    git_ok(&repo.dir, &["repack", "-dq"], None); // packs c2 and prunes the loose file
    let still_loose = loose_objects(&repo.objects()).contains(&c2);
    gate.release();
    let a_res = join_with_deadline(a, 20_000).unwrap_or_else(|| "hang".into());
    uninstall_gate();
    rep.oracle_checked();
    rep.bucket("forced-loose-window");
    let desc = format!("held={held} loose-file-still-there={still_loose} A={a_res}");
    rep.note(&format!("forced loose window: {desc}"));
    if !held {
        rep.oracle_failure("forced: interleaving point find:loose_object_exists not reached", &desc, "");
    }
    if a_res != "ok" {
        rep.oracle_failure(
            "forced: loose object packed between the existence check and the read is not found",
            &format!("try_find of a loose object; `git repack -d` ran between loose::Store::contains() and loose::Store::try_find(): {desc}"),
            "",
        );
    }
}

/// (S5) a reader is held right after `load_one_index()` found its marker to match the current index;
/// another thread loads the last index in the meantime.
fn forced_marker_window(rep: &mut Report, sc: &Scratch) {
    let mut repo = Repo::new(sc.join("forced-s5"));
    let c1 = repo.commit(1);
    git_ok(&repo.dir, &["repack", "-adq"], None);
    let store = open_store(&repo.objects(), 8, false);
    let gate = Gate::install();
    let st = store.clone();
    let g2 = gate.clone();
    let a = std::thread::spawn(move || {
        ROLE.with(|r| r.set(1));
        let h = st.to_handle_arc();
        // first round: initializes the index (nothing loaded yet); the second call of load_one_index() is held
        let mut n = 0;
        let _ = n;
        g2.arm(1, "load_one_index:marker_matches");
        n += 1;
        let _ = n;
        find_obs(&h, &c1)
    });
    let held = gate.wait_arrived(20_000);
    let h1 = store.to_handle_arc();
    let other = find_obs(&h1, &c1); // loads the only index
    gate.release();
    let a_res = join_with_deadline(a, 20_000).unwrap_or_else(|| "hang".into());
    uninstall_gate();
    rep.oracle_checked();
    rep.bucket("forced-marker-window");
    let desc = format!("held={held} other-handle={other} A={a_res}");
    rep.note(&format!("forced marker window: {desc}"));
    if !held {
        rep.oracle_failure("forced: interleaving point load_one_index:marker_matches not reached", &desc, "");
    }
    if a_res != "ok" || other != "ok" {
        rep.oracle_failure(
            "forced: object on disk not found after another thread loaded its index",
            &format!("thread A held in load_one_index() after its marker matched the current index; another handle loaded the index of the object meanwhile: {desc}"),
            "",
        );
    }
}

/// many threads look up a packed object through fresh handles of a fresh store at the same moment
fn startup_race(rep: &mut Report, sc: &Scratch, rounds: u64, threads: usize) {
    let mut repo = Repo::new(sc.join("startup"));
    for i in 0..3 {
        repo.commit(i);
        git_ok(&repo.dir, &["repack", "-dq"], None);
    }
    let objs = Arc::new(repo.all_objects());
    let mut misses = 0u64;
    let mut first = String::new();
    for round in 0..rounds {
        let store = open_store(&repo.objects(), 8, false);
        let barrier = Arc::new(std::sync::Barrier::new(threads));
        let joins: Vec<_> = (0..threads)
            .map(|t| {
                let store = store.clone();
                let objs = objs.clone();
                let barrier = barrier.clone();
                std::thread::spawn(move || {
                    let h = store.to_handle_arc();
                    let id = objs[(t + round as usize) % objs.len()];
                    barrier.wait();
                    (id, find_obs(&h, &id))
                })
            })
            .collect();
        for j in joins {
            if let Ok((id, o)) = j.join() {
                rep.oracle_checked();
                if o != "ok" {
                    misses += 1;
                    if first.is_empty() {
                        first = format!("round {round}: try_find {id} -> {o}");
                    }
                }
            }
        }
    }
    rep.note(&format!("startup race: {rounds} rounds x {threads} threads, {misses} lookups of a packed object failed"));
    rep.bucket("startup-race-rounds");
    if misses > 0 {
        rep.oracle_failure(
            "stress: object on disk throughout the lookup not found",
            &format!("{misses} of {} first lookups through fresh handles of a fresh store; first: {first}", rounds * threads as u64),
            "",
        );
    }
}

fn main() {
    let args = Args::parse();
    let mut rep = Report::new("C12", &args);
    let sc = Scratch::new("c12");
    if let Some(ops) = replay_ops(&args) {
        // scenarios depend on real git histories: a replay re-runs the corpus and the seed's scenarios
        rep.note(&format!("replay of {} op lines: the corpus and the scenarios of this seed are re-run", ops.len()));
    }
    if let Some(r) = std::env::var_os("C12_STARTUP") {
        let rounds: u64 = r.to_string_lossy().parse().unwrap_or(200);
        startup_race(&mut rep, &sc, rounds, 12);
        rep.finish();
        return;
    }
    if let Some(r) = std::env::var_os("C12_MIDX_ONLY") {
        let runs: u64 = r.to_string_lossy().parse().unwrap_or(10);
        let mut rng = Rng::new(args.seed ^ 0x6d69_6478);
        for i in 0..runs {
            random_midx_scenario(&mut rep, &sc, &mut rng, i);
        }
        rep.finish();
        return;
    }
    forced_claim_window(&mut rep, &sc);
    forced_recheck_window(&mut rep, &sc);
    forced_publish_window(&mut rep, &sc);
    forced_loose_window(&mut rep, &sc);
    forced_marker_window(&mut rep, &sc);
    if let Some(r) = std::env::var_os("C12_STRESS_ONLY") {
        let runs: u64 = r.to_string_lossy().parse().unwrap_or(4);
        for i in 0..runs {
            stress_run(&mut rep, &sc, args.seed, i, 18, 12_000);
        }
        rep.finish();
        return;
    }
    if std::env::var_os("C12_FORCED").is_some() {
        rep.finish();
        return;
    }
    startup_race(&mut rep, &sc, if args.thorough { 100 } else { 15 }, 12);
    corpus(&mut rep, &sc);
    let mut rng = Rng::new(args.seed);
    let n = args.budget(12, 70);
    for i in 0..n {
        random_scenario(&mut rep, &sc, &mut rng, i);
    }
    let mut rng_m = Rng::new(args.seed ^ 0x6d69_6478);
    for i in 0..args.budget(8, 40) {
        random_midx_scenario(&mut rep, &sc, &mut rng_m, i);
    }
    let (runs, min_ops, max_millis) = if args.thorough { (10 * args.scale, 30, 20_000) } else { (4 * args.scale, 18, 12_000) };
    let runs = if std::env::var_os("C12_NO_STRESS").is_some() { 0 } else { runs };
    for i in 0..runs {
        stress_run(&mut rep, &sc, args.seed, i, min_ops, max_millis);
    }
    rep.finish();
}
