//! C43 — content filters (eol + ident) of gix-filter against the Lean model and against git.
//!
//! Correspondence ops (real code vs Lean model): `stats`, `eolgit`, `eolwt`, `undo`, `apply`
//! (the public building blocks) and `pgit`, `pwt` (`Pipeline::convert_to_{git,worktree}` with the
//! attribute states gix-attributes resolved from the same `.gitattributes` bytes git reads).
//! Spec ops (`sgit`, `swt`): the Lean transcription of convert.c vs what the git binary did.
//! Oracle: the bytes the real pipeline produced vs the bytes git stored / checked out, batched per
//! configuration (`hash-object -w --stdin-paths`, `add` over a pre-filled index with
//! core.safecrlf=warn, `hash-object -w --path` with core.safecrlf=true, `checkout-index -f -a`),
//! `git ls-files --eol` for the text statistics, and the ident round trip on the real code.
use bstr::ByteSlice;
use gix_filter::eol::{self, AttributesDigest, AutoCrlf, Mode};
use gix_filter::pipeline::CrlfRoundTripCheck;
use hcommon::*;
use std::path::Path;

const K_SPACE: &str = "ident-to-worktree: gitoxide expands $Id$ to '$Id: <hex>$', git to '$Id: <hex> $'";
const K_STREAM: &str = "ident-to-worktree: git checkout's streaming ident filter (no backtracking after a partial '$Id' match, pending bytes dropped) differs from git's own in-memory ident_to_worktree, which gitoxide follows";
const K_EXPANDED: &str =
    "ident-to-worktree: an expanded/foreign '$Id: ...$' in stored content is left alone by gitoxide, re-expanded by git";

// ---------------------------------------------------------------------------------------------
// generators

const TOKENS: &[&[u8]] = &[
    b"\n", b"\n", b"\r\n", b"\r\n", b"\r", b"\0", b"\x1a", b"$Id$", b"$Id: x $", b"$Id: abc$", b"$Id:", b"$Id", b"$",
    b"Id", b":", b" ", b"a", b"word", b"\x7f", b"\x01", b"\x08", b"\t", b"\x1b", b"\x0c", b"\xc3\xa9", b"\n$",
    b"$Id: a b $", b"$Id: 0123456789012345678901234567890123456789 $", b"line of text", b"$Id:$", b"$Id: $",
];

fn corpus() -> Vec<Vec<u8>> {
    let mut v: Vec<Vec<u8>> = [
        &b""[..],
        b"\n",
        b"\r\n",
        b"\r",
        b"a",
        b"a\n",
        b"a\r\n",
        b"a\r\nb\n",
        b"a\rb\n",
        b"a\r\n\x1a",
        b"a\n\x1a",
        b"\x1a",
        b"a\x1a",
        b"\x1a\n",
        b"a\r\n\x1ab",
        b"\x1a\x1a",
        b"a\0b\r\n",
        b"$Id$",
        b"$Id$\r\n",
        b"a $Id$ b $Id$\n",
        b"$Id: x$",
        b"$Id: a b $",
        b"$Id: ab $",
        b"$Id:\n$",
        b"$Id:$",
        b"$Id: a\n$ $Id: b$\n",
        b"$Id: x",
        b"$Id:",
        b"$Id",
        b"$$Id$$",
        b"$Id:$Id$",
        b"$Id: $Id$",
        b"\r\n\r\n",
        b"\n\r",
        b"\r\r\n",
    ]
    .iter()
    .map(|s| s.to_vec())
    .collect();
    // the (printable >> 7) < non_printable boundary, with and without a trailing ^Z
    for k in 1..=2usize {
        for dp in [-1i64, 0, 1] {
            for dn in [0i64, 1] {
                for ctrlz in [false, true] {
                    let p = (128 * k as i64 + dp) as usize;
                    let n = (k as i64 + dn) as usize;
                    let mut s = Vec::new();
                    s.extend(std::iter::repeat(b'x').take(p / 2));
                    s.extend_from_slice(b"\r\n");
                    s.extend(std::iter::repeat(b'\x01').take(n));
                    s.extend(std::iter::repeat(b'y').take(p - p / 2));
                    s.extend_from_slice(b"\n");
                    if ctrlz {
                        s.push(0x1a);
                    }
                    v.push(s);
                }
            }
        }
    }
    v
}

fn gen_content(r: &mut Rng) -> Vec<u8> {
    let mut s = match r.below(12) {
        0 => r.over(b"\r\n\x1aa$", 4),
        1..=5 => {
            let n = r.usize(14);
            let mut s = Vec::new();
            for _ in 0..n {
                s.extend_from_slice(*r.pick(TOKENS));
            }
            s
        }
        6 | 7 => {
            // around the binary threshold
            let k = 1 + r.usize(3);
            let p = (128 * k as i64 + r.range(-2, 2)) as usize;
            let n = (k as i64 + r.range(-1, 1)).max(0) as usize;
            let mut s: Vec<u8> = Vec::new();
            let eols: &[&[u8]] = if r.chance(1, 2) { &[b"\r\n"] } else { &[b"\r\n", b"\n"] };
            let mut np_left = n;
            for i in 0..p {
                s.push(*r.pick(b"abcxyz .;\t"));
                if i % 37 == 36 {
                    s.extend_from_slice(*r.pick(eols));
                }
                if np_left > 0 && r.chance(1, 40) {
                    s.push(*r.pick(&[1u8, 2, 0x7f, 0x1a, 0x1f]));
                    np_left -= 1;
                }
            }
            for _ in 0..np_left {
                s.push(*r.pick(&[1u8, 0x7f, 0x1a]));
            }
            s
        }
        8 => {
            let n = 1 + r.usize(6);
            let mut s = Vec::new();
            for _ in 0..n {
                s.extend_from_slice(&r.over(b"ab c", 8));
                s.extend_from_slice(*r.pick(&[&b"\r\n"[..], b"\r\n", b"\n"]));
            }
            if r.chance(1, 3) {
                s.extend_from_slice(b"no newline at end");
            }
            s
        }
        9 => {
            let n = 1 + r.usize(5);
            let mut s = Vec::new();
            for _ in 0..n {
                s.extend_from_slice(*r.pick(&[
                    &b"$Id$"[..],
                    b"$Id: deadbeef $",
                    b"$Id: a b c $",
                    b"$Id:x$",
                    b"$Id: \n",
                    b"$Id: ",
                    b"$Id",
                    b"$",
                    b" ",
                    b"\n",
                    b"\r\n",
                    b"t",
                ]));
            }
            s
        }
        10 => r.over(b"\r\n$Id: \x1a\0ab", 24),
        _ => {
            let n = r.usize(24);
            r.bytes(n)
        }
    };
    if r.chance(1, 7) {
        s.push(0x1a);
    }
    s
}

const DIGESTS: &[(AttributesDigest, &str)] = &[
    (AttributesDigest::Binary, "Binary"),
    (AttributesDigest::Text, "Text"),
    (AttributesDigest::TextInput, "TextInput"),
    (AttributesDigest::TextCrlf, "TextCrlf"),
    (AttributesDigest::TextAuto, "TextAuto"),
    (AttributesDigest::TextAutoCrlf, "TextAutoCrlf"),
    (AttributesDigest::TextAutoInput, "TextAutoInput"),
];
const AUTOCRLF: &[(AutoCrlf, &str)] = &[
    (AutoCrlf::Enabled, "true"),
    (AutoCrlf::Disabled, "false"),
    (AutoCrlf::Input, "input"),
];
const EOLS: &[(Option<Mode>, &str)] = &[(Some(Mode::Lf), "lf"), (Some(Mode::CrLf), "crlf"), (None, "native")];
const CHECKS: &[(CrlfRoundTripCheck, &str)] = &[
    (CrlfRoundTripCheck::Fail, "fail"),
    (CrlfRoundTripCheck::Warn, "warn"),
    (CrlfRoundTripCheck::Skip, "skip"),
];

fn opt_hex(b: &Option<Vec<u8>>) -> String {
    match b {
        None => "none".into(),
        Some(b) => hex(b),
    }
}

fn short_key(b: &[u8]) -> String {
    if b.len() <= 48 {
        hex(b)
    } else {
        let mut h: u64 = 0xcbf29ce484222325;
        for x in b {
            h ^= *x as u64;
            h = h.wrapping_mul(0x100000001b3);
        }
        format!("{}..len{}#{:016x}", hex(&b[..16]), b.len(), h)
    }
}

fn rt_msg(msg: &str) -> &'static str {
    if msg.starts_with("CRLF would be replaced by LF") {
        "crlf-to-lf"
    } else if msg.starts_with("LF would be replaced by CRLF") {
        "lf-to-crlf"
    } else {
        "other"
    }
}

// ---------------------------------------------------------------------------------------------
// building blocks (no git involved)

fn do_stats(rep: &mut Report, src: &[u8]) {
    let op = format!("stats {}", hex(src));
    let obs = match catch(|| eol::Stats::from_bytes(src)) {
        Ok(s) => format!(
            "{} {} {} {} {} {} bin={}",
            s.null,
            s.lone_cr,
            s.lone_lf,
            s.crlf,
            s.printable,
            s.non_printable,
            s.is_binary() as u8
        ),
        Err(_) => "panic".into(),
    };
    rep.case(&op, &obs, true);
}

fn eol_to_git_real(
    src: &[u8],
    digest: AttributesDigest,
    config: eol::Configuration,
    check: CrlfRoundTripCheck,
    index: &Option<Vec<u8>>,
) -> String {
    let r = catch(|| {
        let mut buf = Vec::new();
        let rt = match check {
            CrlfRoundTripCheck::Fail => Some(eol::convert_to_git::RoundTripCheck::Fail {
                rela_path: Path::new("p"),
            }),
            CrlfRoundTripCheck::Warn => Some(eol::convert_to_git::RoundTripCheck::Warn {
                rela_path: Path::new("p"),
            }),
            CrlfRoundTripCheck::Skip => None,
        };
        let res = eol::convert_to_git(
            src,
            digest,
            &mut buf,
            &mut |b| match index {
                Some(i) => {
                    b.clear();
                    b.extend_from_slice(i);
                    Ok(Some(()))
                }
                None => Ok(None),
            },
            eol::convert_to_git::Options {
                round_trip_check: rt,
                config,
            },
        );
        match res {
            Ok(true) => format!("ok {}", hex(&buf)),
            Ok(false) => "unchanged".to_string(),
            Err(eol::convert_to_git::Error::RoundTrip { msg, .. }) => format!("err:{}", rt_msg(msg)),
            Err(_) => "err:other".to_string(),
        }
    });
    r.unwrap_or_else(|_| "panic".into())
}

fn do_eol_direct(rep: &mut Report, r: &mut Rng, src: &[u8], index: &Option<Vec<u8>>) {
    let (d, dn) = *r.pick(DIGESTS);
    let (a, an) = *r.pick(AUTOCRLF);
    let (e, en) = *r.pick(EOLS);
    let (c, cn) = *r.pick(CHECKS);
    let config = eol::Configuration { auto_crlf: a, eol: e };
    let op = format!("eolgit {dn} {an} {en} {cn} {} {}", opt_hex(index), hex(src));
    let obs = eol_to_git_real(src, d, config, c, index);
    rep.bucket(&format!(
        "eolgit:{}",
        if obs.starts_with("ok") { "converted" } else { obs.split(' ').next().unwrap() }
    ));
    rep.case(&op, &obs, true);

    let op = format!("eolwt {dn} {an} {en} {}", hex(src));
    let obs = catch(|| {
        let mut buf = Vec::new();
        match eol::convert_to_worktree(src, d, &mut buf, config) {
            Ok(true) => format!("ok {}", hex(&buf)),
            Ok(false) => "unchanged".to_string(),
            Err(_) => "err:other".to_string(),
        }
    })
    .unwrap_or_else(|_| "panic".into());
    rep.bucket(&format!("eolwt:{}", if obs.starts_with("ok") { "converted" } else { "unchanged" }));
    rep.case(&op, &obs, true);
}

fn blob_hex(src: &[u8]) -> String {
    gix_object::compute_hash(gix_hash::Kind::Sha1, gix_object::Kind::Blob, src).to_string()
}

fn ident_undo_real(src: &[u8]) -> Result<Option<Vec<u8>>, String> {
    catch(|| {
        let mut buf = Vec::new();
        match gix_filter::ident::undo(src, &mut buf) {
            Ok(true) => Some(buf),
            _ => None,
        }
    })
}

fn ident_apply_real(src: &[u8]) -> Result<Option<Vec<u8>>, String> {
    catch(|| {
        let mut buf = Vec::new();
        match gix_filter::ident::apply(src, gix_hash::Kind::Sha1, &mut buf) {
            Ok(true) => Some(buf),
            _ => None,
        }
    })
}

fn obs_opt(r: &Result<Option<Vec<u8>>, String>) -> String {
    match r {
        Ok(Some(b)) => format!("ok {}", hex(b)),
        Ok(None) => "unchanged".into(),
        Err(_) => "panic".into(),
    }
}

fn do_ident_direct(rep: &mut Report, src: &[u8]) {
    let u = ident_undo_real(src);
    rep.case(&format!("undo {}", hex(src)), &obs_opt(&u), true);
    rep.bucket(&format!("undo:{}", if matches!(u, Ok(Some(_))) { "collapsed" } else { "unchanged" }));
    let a = ident_apply_real(src);
    let idhex = blob_hex(src);
    rep.case(&format!("apply {} {}", hex(idhex.as_bytes()), hex(src)), &obs_opt(&a), true);
    rep.bucket(&format!("apply:{}", if matches!(a, Ok(Some(_))) { "expanded" } else { "unchanged" }));
    // the ident round trip on the real code: content that `undo` leaves alone (= what to-git stores)
    // survives expand + collapse
    rep.oracle_checked();
    if let (Ok(None), Ok(a)) = (&u, &a) {
        let expanded = a.clone().unwrap_or_else(|| src.to_vec());
        match ident_undo_real(&expanded) {
            Ok(back) => {
                let back = back.unwrap_or(expanded.clone());
                if back != src {
                    rep.oracle_failure(
                        &format!("ident-roundtrip {}", short_key(src)),
                        &format!(
                            "undo(apply(x)) != x for x={:?}: apply gives {:?}, undo gives {:?}",
                            src.as_bstr(),
                            expanded.as_bstr(),
                            back.as_bstr()
                        ),
                        &format!("undo {}", hex(src)),
                    );
                }
            }
            Err(_) => rep.oracle_failure(
                &format!("ident-roundtrip-panic {}", short_key(src)),
                "undo panicked on apply's output",
                &format!("undo {}", hex(&expanded)),
            ),
        }
    }
}

// ---------------------------------------------------------------------------------------------
// configurations

#[derive(Clone)]
struct Conf {
    attrs: String, // content of .gitattributes
    autocrlf: usize,
    eol: usize,
}

impl Conf {
    fn git_flags(&self, safecrlf: &str) -> Vec<String> {
        let mut v = vec![
            "-c".to_string(),
            format!("core.autocrlf={}", AUTOCRLF[self.autocrlf].1),
            "-c".to_string(),
            format!("core.safecrlf={safecrlf}"),
        ];
        if EOLS[self.eol].1 != "native" {
            v.push("-c".into());
            v.push(format!("core.eol={}", EOLS[self.eol].1));
        }
        v
    }
    fn eol_config(&self) -> eol::Configuration {
        eol::Configuration {
            auto_crlf: AUTOCRLF[self.autocrlf].0,
            eol: EOLS[self.eol].0,
        }
    }
    fn name(&self) -> String {
        format!(
            "[{}] autocrlf={} eol={}",
            self.attrs.trim_end().replace('\n', "; "),
            AUTOCRLF[self.autocrlf].1,
            EOLS[self.eol].1
        )
    }
}

fn core_confs() -> Vec<Conf> {
    let mut v = Vec::new();
    let attrs = [
        "",
        "* text\n",
        "* -text\n",
        "* text=auto\n",
        "* text eol=lf\n",
        "* text eol=crlf\n",
        "* text=auto eol=crlf\n",
        "* text=auto eol=lf\n",
        "* eol=crlf\n",
        "* eol=lf\n",
        "* crlf\n",
        "* -crlf\n",
        "* crlf=input\n",
        "* crlf=auto\n",
        "* ident\n",
        "* text=auto ident\n",
        "* text eol=crlf ident\n",
        "* binary\n",
        "* binary ident\n",
        "* text=input\n",
    ];
    for (i, a) in attrs.iter().enumerate() {
        v.push(Conf {
            attrs: a.to_string(),
            autocrlf: i % 3,
            eol: (i / 3) % 3,
        });
    }
    v
}

fn gen_conf(r: &mut Rng) -> Conf {
    let mut line = String::from("*");
    let text = ["", "", " text", " -text", " text=auto", " text=auto", " text=input", " text=foo", " !text"];
    let crlf = ["", "", "", " crlf", " -crlf", " crlf=input", " crlf=auto", " crlf=bar"];
    let eol = ["", "", " eol=lf", " eol=crlf", " eol=cr", " eol", " -eol"];
    let ident = ["", "", " ident", " ident", " -ident", " ident=yes"];
    let mut parts = vec![*r.pick(&text), *r.pick(&crlf), *r.pick(&eol), *r.pick(&ident)];
    if r.chance(1, 10) {
        parts.push(" binary");
    }
    r.shuffle(&mut parts);
    for p in parts {
        line.push_str(p);
    }
    let mut attrs = String::new();
    if r.chance(1, 6) {
        // an earlier line that the later one overrides attribute by attribute
        attrs.push_str(*r.pick(&["* text=auto eol=crlf ident\n", "* -text\n", "* binary\n", "* text eol=lf\n"]));
    }
    if line != "*" {
        attrs.push_str(&line);
        attrs.push('\n');
    }
    Conf {
        attrs,
        autocrlf: r.usize(3),
        eol: r.usize(3),
    }
}

/// resolved states of `text crlf eol ident` as wire tokens (`u`, `s`, `n`, `v<hex>`)
struct GixAttrs {
    search: gix_attributes::Search,
    collection: gix_attributes::search::MetadataCollection,
}

impl GixAttrs {
    fn new(content: &str) -> GixAttrs {
        let mut collection = gix_attributes::search::MetadataCollection::default();
        let mut buf = Vec::new();
        let mut search =
            gix_attributes::Search::new_globals(std::iter::empty::<std::path::PathBuf>(), &mut buf, &mut collection)
                .expect("no io");
        search.add_patterns_buffer(
            content.as_bytes(),
            ".gitattributes".into(),
            Some(Path::new("")),
            &mut collection,
            true,
        );
        GixAttrs { search, collection }
    }
    fn fill(&self, path: &bstr::BStr, out: &mut gix_attributes::search::Outcome) {
        out.initialize(&self.collection);
        self.search
            .pattern_matching_relative_path(path, gix_glob::pattern::Case::Sensitive, Some(false), out);
    }
    fn tokens(&self, path: &str) -> [String; 4] {
        let mut out = gix_attributes::search::Outcome::default();
        out.initialize_with_selection(&self.collection, ["text", "crlf", "eol", "ident"]);
        self.search
            .pattern_matching_relative_path(path.into(), gix_glob::pattern::Case::Sensitive, Some(false), &mut out);
        let mut v = Vec::new();
        for m in out.iter_selected() {
            v.push(match m.assignment.state {
                gix_attributes::StateRef::Set => "s".to_string(),
                gix_attributes::StateRef::Unset => "n".to_string(),
                gix_attributes::StateRef::Unspecified => "u".to_string(),
                gix_attributes::StateRef::Value(val) => format!("v{}", hex(val.as_bstr())),
            });
        }
        [v[0].clone(), v[1].clone(), v[2].clone(), v[3].clone()]
    }
}

fn git_attr_tokens(dir: &Path, path: &str) -> [String; 4] {
    let out = git_ok(dir, &["check-attr", "text", "crlf", "eol", "ident", "--", path], None);
    let mut v = vec![String::new(); 4];
    for l in out.lines() {
        let mut it = l.splitn(3, ": ");
        let _p = it.next();
        let name = it.next().unwrap_or("");
        let val = it.next().unwrap_or("");
        let tok = match val {
            "set" => "s".to_string(),
            "unset" => "n".to_string(),
            "unspecified" => "u".to_string(),
            v => format!("v{}", hex(v.as_bytes())),
        };
        let idx = match name {
            "text" => 0,
            "crlf" => 1,
            "eol" => 2,
            "ident" => 3,
            _ => continue,
        };
        v[idx] = tok;
    }
    [v[0].clone(), v[1].clone(), v[2].clone(), v[3].clone()]
}

struct Gix {
    pipe: gix_filter::Pipeline,
    attrs: GixAttrs,
}

impl Gix {
    fn new(conf: &Conf, check: CrlfRoundTripCheck) -> Gix {
        Gix {
            pipe: gix_filter::Pipeline::new(
                Default::default(),
                gix_filter::pipeline::Options {
                    drivers: vec![],
                    eol_config: conf.eol_config(),
                    crlf_roundtrip_check: check,
                    encodings_with_roundtrip_check: vec![],
                    object_hash: gix_hash::Kind::Sha1,
                },
            ),
            attrs: GixAttrs::new(&conf.attrs),
        }
    }
    /// observation + resulting bytes (None on error)
    fn to_git(&mut self, src: &[u8], path: &str, index: &Option<Vec<u8>>) -> (String, Option<Vec<u8>>) {
        let attrs = &self.attrs;
        let pipe = &mut self.pipe;
        let r = catch(move || {
            let res = pipe.convert_to_git(src, Path::new(path), &mut |p, out| attrs.fill(p, out), &mut |b| match index {
                Some(i) => {
                    b.clear();
                    b.extend_from_slice(i);
                    Ok(Some(()))
                }
                None => Ok(None),
            });
            match res {
                Ok(gix_filter::pipeline::convert::ToGitOutcome::Unchanged(_)) => ("unchanged".to_string(), Some(src.to_vec())),
                Ok(gix_filter::pipeline::convert::ToGitOutcome::Buffer(b)) => (format!("buf {}", hex(b)), Some(b.to_vec())),
                Ok(gix_filter::pipeline::convert::ToGitOutcome::Process(_)) => ("process".to_string(), None),
                Err(gix_filter::pipeline::convert::to_git::Error::Eol(eol::convert_to_git::Error::RoundTrip {
                    msg, ..
                })) => (format!("err:{}", rt_msg(msg)), None),
                Err(_) => ("err:other".to_string(), None),
            }
        });
        r.unwrap_or_else(|_| ("panic".into(), None))
    }
    fn to_worktree(&mut self, src: &[u8], path: &str) -> (String, Option<Vec<u8>>) {
        let attrs = &self.attrs;
        let pipe = &mut self.pipe;
        let r = catch(move || {
            let res = pipe.convert_to_worktree(
                src,
                path.into(),
                &mut |p, out| attrs.fill(p, out),
                gix_filter::driver::apply::Delay::Forbid,
            );
            match res {
                Ok(gix_filter::pipeline::convert::ToWorktreeOutcome::Unchanged(b)) => ("unchanged".to_string(), Some(b.to_vec())),
                Ok(gix_filter::pipeline::convert::ToWorktreeOutcome::Buffer(b)) => (format!("buf {}", hex(b)), Some(b.to_vec())),
                Ok(gix_filter::pipeline::convert::ToWorktreeOutcome::Process(_)) => ("process".to_string(), None),
                Err(_) => ("err:other".to_string(), None),
            }
        });
        r.unwrap_or_else(|_| ("panic".into(), None))
    }
}

fn git_flags<'a>(flags: &'a [String], rest: &[&'a str]) -> Vec<&'a str> {
    let mut v: Vec<&str> = flags.iter().map(|s| s.as_str()).collect();
    v.extend_from_slice(rest);
    v
}

/// `git cat-file --batch` for the given ids
fn cat_blobs(dir: &Path, ids: &[String]) -> std::collections::HashMap<String, Vec<u8>> {
    let mut uniq: Vec<&String> = ids.iter().collect();
    uniq.sort();
    uniq.dedup();
    let input: String = uniq.iter().map(|i| format!("{i}\n")).collect();
    let o = git(dir, &["cat-file", "--batch"], Some(input.as_bytes()));
    assert!(o.ok, "cat-file --batch");
    let mut map = std::collections::HashMap::new();
    let mut rest = &o.stdout[..];
    while !rest.is_empty() {
        let nl = rest.find_byte(b'\n').expect("header line");
        let header = std::str::from_utf8(&rest[..nl]).unwrap();
        let mut it = header.split(' ');
        let id = it.next().unwrap().to_string();
        let kind = it.next().unwrap();
        assert_eq!(kind, "blob", "{header}");
        let size: usize = it.next().unwrap().parse().unwrap();
        let body = rest[nl + 1..nl + 1 + size].to_vec();
        map.insert(id, body);
        rest = &rest[nl + 1 + size + 1..];
    }
    map
}

fn parse_warnings(stderr: &[u8]) -> std::collections::HashMap<String, &'static str> {
    let mut m = std::collections::HashMap::new();
    for l in stderr.lines() {
        let l = String::from_utf8_lossy(l).to_string();
        if let Some(rest) = l.strip_prefix("warning: in the working copy of '") {
            if let Some(q) = rest.find("', ") {
                let name = rest[..q].to_string();
                let msg = &rest[q + 3..];
                let kind = if msg.starts_with("CRLF will be replaced by LF") {
                    "crlf-to-lf"
                } else if msg.starts_with("LF will be replaced by CRLF") {
                    "lf-to-crlf"
                } else {
                    "other"
                };
                m.insert(name, kind);
            }
        }
    }
    m
}

fn eol_class(s: &eol::Stats, len: usize) -> &'static str {
    if len == 0 {
        "none"
    } else if s.is_binary() {
        "-text"
    } else if s.crlf > 0 && s.lone_lf > 0 {
        "mixed"
    } else if s.crlf > 0 {
        "crlf"
    } else if s.lone_lf > 0 {
        "lf"
    } else {
        "none"
    }
}

fn variant_for_index(r: &mut Rng, w: &[u8], pool: &[Vec<u8>]) -> Vec<u8> {
    let v = match r.below(6) {
        0 => w.replace(b"\r\n", b"\n"),
        1 => w.replace(b"\r\n", b"\n").replace(b"\n", b"\r\n"),
        2 => {
            let mut x = w.to_vec();
            x.extend_from_slice(b"x\r\n");
            x
        }
        3 => {
            let mut x = b"\0".to_vec();
            x.extend_from_slice(w);
            x
        }
        4 => b"only\r\ncrlf\r\n".to_vec(),
        _ => r.pick(pool).clone(),
    };
    if v == w {
        let mut x = v;
        x.extend_from_slice(b"\n");
        x
    } else {
        v
    }
}

/// three scratch repositories reused by all configurations of a run (`git init` is the most
/// expensive git command here): `a` for hash-object, `b` for add, `d` for checkout
struct Repos {
    _scratch: Scratch,
    a: std::path::PathBuf,
    b: std::path::PathBuf,
    d: std::path::PathBuf,
}

impl Repos {
    fn new() -> Repos {
        let scratch = Scratch::new("c43");
        let mk = |n: &str| {
            let p = scratch.join(n);
            std::fs::create_dir_all(&p).unwrap();
            git_ok(&p, &["init", "-q"], None);
            p
        };
        let (a, b, d) = (mk("a"), mk("b"), mk("d"));
        Repos { _scratch: scratch, a, b, d }
    }
    /// empty index, empty worktree (objects stay)
    fn reset(&self) {
        for p in [&self.a, &self.b, &self.d] {
            let _ = std::fs::remove_file(p.join(".git/index"));
            for e in std::fs::read_dir(p).unwrap() {
                let e = e.unwrap();
                if e.file_name() != ".git" {
                    let _ = std::fs::remove_file(e.path());
                }
            }
        }
    }
}

fn run_conf(rep: &mut Report, r: &mut Rng, repos: &Repos, conf: &Conf, contents: &[Vec<u8>], die_cases: usize, pool: &[Vec<u8>]) {
    let git_conflict = AUTOCRLF[conf.autocrlf].1 == "input" && EOLS[conf.eol].1 == "crlf";
    let (an, en) = (AUTOCRLF[conf.autocrlf].1, EOLS[conf.eol].1);
    let gix_tok = GixAttrs::new(&conf.attrs).tokens("w0");
    rep.bucket(&format!("conf:text={} crlf={} eol={} ident={}", &gix_tok[0], &gix_tok[1], &gix_tok[2], &gix_tok[3]));
    let gtok = format!("{} {} {} {}", gix_tok[0], gix_tok[1], gix_tok[2], gix_tok[3]);

    if git_conflict {
        // git refuses this configuration ("core.autocrlf=input conflicts with core.eol=crlf"): model only
        let mut skip = Gix::new(conf, CrlfRoundTripCheck::Skip);
        let mut fail = Gix::new(conf, CrlfRoundTripCheck::Fail);
        for w in contents {
            let (obs, _) = skip.to_git(w, "w0", &None);
            rep.case(&format!("pgit {gtok} {an} {en} skip none {}", hex(w)), &obs, true);
            let (obs, _) = fail.to_git(w, "w0", &None);
            rep.case(&format!("pgit {gtok} {an} {en} fail none {}", hex(w)), &obs, true);
            let (obs, _) = skip.to_worktree(w, "w0");
            rep.case(&format!("pwt {gtok} {an} {en} {} {}", hex(blob_hex(w).as_bytes()), hex(w)), &obs, true);
        }
        rep.outside_domain(&format!("{}: git refuses core.autocrlf=input with core.eol=crlf; model/implementation compared only", conf.name()));
        return;
    }

    let timing = std::env::var("C43_TIMING").is_ok();
    let mut t_last = std::time::Instant::now();
    let mut tick = |label: &str| {
        if timing {
            eprintln!("  {label}: {:.2}s", t_last.elapsed().as_secs_f64());
            t_last = std::time::Instant::now();
        }
    };
    repos.reset();
    let names: Vec<String> = (0..contents.len()).map(|i| format!("w{i}")).collect();
    let name_list: String = names.iter().map(|n| format!("{n}\n")).collect();

    // ---- A: to-git, empty index, no round-trip check: `git hash-object -w --stdin-paths`
    let a = repos.a.clone();
    std::fs::write(a.join(".gitattributes"), &conf.attrs).unwrap();
    for (n, w) in names.iter().zip(contents) {
        std::fs::write(a.join(n), w).unwrap();
    }
    let git_tok = git_attr_tokens(&a, "w0");
    let stok = format!("{} {} {} {}", git_tok[0], git_tok[1], git_tok[2], git_tok[3]);
    if git_tok != gix_tok {
        rep.outside_domain(&format!(
            "{}: gix-attributes resolves text/crlf/eol/ident to {:?}, git check-attr to {:?}",
            conf.name(),
            gix_tok,
            git_tok
        ));
    }
    let flags = conf.git_flags("false");
    let o = git(&a, &git_flags(&flags, &["hash-object", "-w", "--stdin-paths"]), Some(name_list.as_bytes()));
    assert!(o.ok, "hash-object --stdin-paths: {}", String::from_utf8_lossy(&o.stderr));
    let ids: Vec<String> = String::from_utf8_lossy(&o.stdout).lines().map(|s| s.to_string()).collect();
    assert_eq!(ids.len(), contents.len());
    let blobs = cat_blobs(&a, &ids);
    let mut skip = Gix::new(conf, CrlfRoundTripCheck::Skip);
    for ((w, id), n) in contents.iter().zip(&ids).zip(&names) {
        let g = &blobs[id];
        let (obs, bytes) = skip.to_git(w, n, &None);
        let op = format!("pgit {gtok} {an} {en} skip none {}", hex(w));
        rep.case(&op, &obs, true);
        rep.case(&format!("sgit {stok} {an} {en} skip none {}", hex(w)), &format!("{} warn=none", hex(g)), true);
        rep.oracle_checked();
        rep.git_checked(1);
        rep.bucket(if g == w { "to-git:unchanged" } else { "to-git:changed" });
        if bytes.as_deref() != Some(&g[..]) {
            rep.oracle_failure(
                &format!("to-git {} src={}", conf.name(), short_key(w)),
                &format!(
                    "Pipeline::convert_to_git gives {} but `git hash-object --path` stores {:?} for {:?}",
                    match &bytes {
                        Some(b) => format!("{:?}", b.as_bstr()),
                        None => obs.clone(),
                    },
                    g.as_bstr(),
                    w.as_bstr()
                ),
                &op,
            );
        }
    }

    tick("A");
    // ---- C: core.safecrlf=true dies exactly when the Fail check errors (empty index)
    let flags_die = conf.git_flags("true");
    let mut fail = Gix::new(conf, CrlfRoundTripCheck::Fail);
    for i in 0..die_cases.min(contents.len()) {
        let k = (i * 7 + r.usize(3)) % contents.len();
        let w = &contents[k];
        let path_arg = format!("--path={}", names[k]);
        let o = git(&a, &git_flags(&flags_die, &["hash-object", "-w", &path_arg, "--stdin"]), Some(w));
        let git_obs = if o.ok {
            "ok".to_string()
        } else {
            let e = String::from_utf8_lossy(&o.stderr).to_string();
            if e.contains("CRLF would be replaced by LF") {
                "crlf-to-lf".into()
            } else if e.contains("LF would be replaced by CRLF") {
                "lf-to-crlf".into()
            } else {
                panic!("unexpected git failure: {e}")
            }
        };
        let (obs, bytes) = fail.to_git(w, &names[k], &None);
        let op = format!("pgit {gtok} {an} {en} fail none {}", hex(w));
        rep.case(&op, &obs, true);
        let sobs = if o.ok {
            // warnings are not printed in die mode
            let id = String::from_utf8_lossy(&o.stdout).trim().to_string();
            // same content, same configuration: the blob is the one step A already fetched
            let g = blobs.get(&id).cloned().unwrap_or_else(|| cat_blobs(&a, &[id]).into_values().next().unwrap());
            format!("{} warn=none", hex(&g))
        } else {
            format!("die:{git_obs}")
        };
        rep.case(&format!("sgit {stok} {an} {en} fail none {}", hex(w)), &sobs, true);
        rep.oracle_checked();
        rep.git_checked(1);
        rep.bucket(&format!("safecrlf-true:{git_obs}"));
        let gix_obs = if bytes.is_some() { "ok".to_string() } else { obs.trim_start_matches("err:").to_string() };
        if gix_obs != git_obs {
            rep.oracle_failure(
                &format!("safecrlf-die {} src={}", conf.name(), short_key(w)),
                &format!("with core.safecrlf=true git says {git_obs}, CrlfRoundTripCheck::Fail says {gix_obs} for {:?}", w.as_bstr()),
                &op,
            );
        }
    }

    tick("C");
    // ---- B: to-git over a pre-filled index with core.safecrlf=warn (`git add`), plus `ls-files --eol`
    let b = repos.b.clone();
    std::fs::write(b.join(".gitattributes"), "* -text\n").unwrap();
    let mut index: Vec<Option<Vec<u8>>> = Vec::new();
    for (n, w) in names.iter().zip(contents) {
        if r.chance(1, 2) {
            let i = variant_for_index(r, w, pool);
            std::fs::write(b.join(n), &i).unwrap();
            index.push(Some(i));
        } else {
            index.push(None);
        }
    }
    git_ok(&b, &["add", "."], None);
    std::fs::write(b.join(".gitattributes"), &conf.attrs).unwrap();
    for (n, w) in names.iter().zip(contents) {
        std::fs::write(b.join(n), w).unwrap();
    }
    let flags_warn = conf.git_flags("warn");
    let o = git(&b, &git_flags(&flags_warn, &["add", "."]), None);
    assert!(o.ok, "git add: {}", String::from_utf8_lossy(&o.stderr));
    let warnings = parse_warnings(&o.stderr);
    let ls = git_ok(&b, &git_flags(&flags_warn, &["ls-files", "-s", "--eol"]), None);
    let mut id_of = std::collections::HashMap::new();
    let mut wclass = std::collections::HashMap::new();
    for l in ls.lines() {
        // "100644 <id> 0\ti/lf    w/crlf  attr/text=auto      \t<name>"
        let mut it = l.split('\t');
        let meta = it.next().unwrap();
        let eolinfo = it.next().unwrap();
        let name = it.next().unwrap();
        id_of.insert(name.to_string(), meta.split(' ').nth(1).unwrap().to_string());
        let w = eolinfo.split_whitespace().find(|t| t.starts_with("w/")).unwrap_or("w/");
        wclass.insert(name.to_string(), w[2..].to_string());
    }
    let ids_b: Vec<String> = names.iter().map(|n| id_of[n].clone()).collect();
    let blobs_b = cat_blobs(&b, &ids_b);
    let mut warn = Gix::new(conf, CrlfRoundTripCheck::Warn);
    for (k, ((w, n), idx)) in contents.iter().zip(&names).zip(&index).enumerate() {
        let g = &blobs_b[&ids_b[k]];
        let gw = warnings.get(n).copied();
        let (obs_w, bytes_w) = warn.to_git(w, n, idx);
        let op_w = format!("pgit {gtok} {an} {en} warn {} {}", opt_hex(idx), hex(w));
        rep.case(&op_w, &obs_w, true);
        let (obs_f, _) = fail.to_git(w, n, idx);
        let op_f = format!("pgit {gtok} {an} {en} fail {} {}", opt_hex(idx), hex(w));
        rep.case(&op_f, &obs_f, true);
        rep.case(
            &format!("sgit {stok} {an} {en} warn {} {}", opt_hex(idx), hex(w)),
            &format!("{} warn={}", hex(g), gw.unwrap_or("none")),
            true,
        );
        rep.oracle_checked();
        rep.git_checked(1);
        rep.bucket(&format!("to-git-index:{}:{}", if idx.is_some() { "entry" } else { "no-entry" }, gw.unwrap_or("quiet")));
        if bytes_w.as_deref() != Some(&g[..]) {
            rep.oracle_failure(
                &format!("to-git-index {} index={} src={}", conf.name(), idx.as_ref().map(|i| short_key(i)).unwrap_or("none".into()), short_key(w)),
                &format!(
                    "Pipeline::convert_to_git gives {:?} but `git add` stores {:?} for {:?} (index entry {:?})",
                    bytes_w.as_ref().map(|b| b.as_bstr()),
                    g.as_bstr(),
                    w.as_bstr(),
                    idx.as_ref().map(|b| b.as_bstr())
                ),
                &op_w,
            );
        }
        let gix_fail = obs_f.strip_prefix("err:");
        if gix_fail != gw {
            rep.oracle_failure(
                &format!("safecrlf-warn {} index={} src={}", conf.name(), idx.as_ref().map(|i| short_key(i)).unwrap_or("none".into()), short_key(w)),
                &format!("git add warns {:?}, CrlfRoundTripCheck::Fail reports {:?} for {:?}", gw, gix_fail, w.as_bstr()),
                &op_f,
            );
        }
        // statistics: git's classification of the worktree file
        if let Some(gc) = wclass.get(n) {
            let s = eol::Stats::from_bytes(w);
            let mine = eol_class(&s, w.len());
            rep.oracle_checked();
            rep.bucket(&format!("stats-class:{}", if mine.is_empty() { "empty" } else { mine }));
            if mine != gc {
                rep.oracle_failure(
                    &format!("stats-class src={}", short_key(w)),
                    &format!("git ls-files --eol classifies the content as w/{gc}, Stats::from_bytes/is_binary as w/{mine} ({s:?}) for {:?}", w.as_bstr()),
                    &format!("stats {}", hex(w)),
                );
            }
        }
    }

    tick("B");
    // ---- D: to-worktree: blobs stored verbatim, `git checkout-index -f -a`
    let d = repos.d.clone();
    for (n, w) in names.iter().zip(contents) {
        std::fs::write(d.join(n), w).unwrap();
    }
    let o = git(&d, &["hash-object", "-w", "--no-filters", "--stdin-paths"], Some(name_list.as_bytes()));
    assert!(o.ok, "hash-object --no-filters");
    let sids: Vec<String> = String::from_utf8_lossy(&o.stdout).lines().map(|s| s.to_string()).collect();
    let mut info = String::new();
    for (k, id) in sids.iter().enumerate() {
        info.push_str(&format!("100644 {id}\tx{k}\n"));
    }
    let o = git(&d, &["update-index", "--index-info"], Some(info.as_bytes()));
    assert!(o.ok, "update-index rc={} {}", o.code, String::from_utf8_lossy(&o.stderr));
    std::fs::write(d.join(".gitattributes"), &conf.attrs).unwrap();
    // git's in-memory ident_to_worktree reads out of bounds on `$Id:$` (memchr with length -1): the
    // batch commands may die from a signal; then every file is asked for on its own and the ones
    // git crashes on are skipped
    let o = git(&d, &git_flags(&flags, &["checkout-index", "-f", "-a"]), None);
    let mut checked_out: Vec<Option<Vec<u8>>> = Vec::new();
    if o.ok {
        for k in 0..contents.len() {
            checked_out.push(Some(std::fs::read(d.join(format!("x{k}"))).unwrap()));
        }
    } else {
        assert!(o.code == -1, "checkout-index rc={} {}", o.code, String::from_utf8_lossy(&o.stderr));
        for k in 0..contents.len() {
            let name = format!("x{k}");
            let _ = std::fs::remove_file(d.join(&name));
            let o = git(&d, &git_flags(&flags, &["checkout-index", "-f", "--", &name]), None);
            if o.ok {
                checked_out.push(Some(std::fs::read(d.join(&name)).unwrap()));
            } else {
                assert!(o.code == -1, "checkout-index {name} rc={} {}", o.code, String::from_utf8_lossy(&o.stderr));
                rep.outside_domain(&format!("git checkout-index dies from a signal on stored content {:?} ({})", contents[k].as_bstr(), conf.name()));
                checked_out.push(None);
            }
        }
    }
    // the in-memory conversion (`convert_to_working_tree`), as a second reference
    let mut req = String::new();
    for (k, id) in sids.iter().enumerate() {
        req.push_str(&format!("{id} x{k}\n"));
    }
    let o = git(&d, &git_flags(&flags, &["cat-file", "--batch", "--filters"]), Some(req.as_bytes()));
    let mut inmem: Vec<Option<Vec<u8>>> = Vec::new();
    if o.ok {
        // the header shows the size of the stored blob, not of the filtered output: find each
        // record's end by looking for the (known) next header
        let headers: Vec<String> = sids.iter().zip(contents).map(|(id, w)| format!("{id} blob {}\n", w.len())).collect();
        let mut rest = &o.stdout[..];
        for k in 0..headers.len() {
            assert!(rest.starts_with(headers[k].as_bytes()), "cat-file --batch --filters header {k}");
            rest = &rest[headers[k].len()..];
            let end = if k + 1 < headers.len() {
                let delim = format!("\n{}", headers[k + 1]);
                rest.find(delim.as_bytes()).expect("next header")
            } else {
                rest.len() - 1
            };
            inmem.push(Some(rest[..end].to_vec()));
            rest = &rest[end + 1..];
        }
    } else {
        assert!(o.code == -1, "cat-file --batch --filters rc={} {}", o.code, String::from_utf8_lossy(&o.stderr));
        for (k, id) in sids.iter().enumerate() {
            let path_arg = format!("--path=x{k}");
            let o = git(&d, &git_flags(&flags, &["cat-file", "--filters", &path_arg, id]), None);
            if o.ok {
                inmem.push(Some(o.stdout));
            } else {
                assert!(o.code == -1, "cat-file --filters rc={} {}", o.code, String::from_utf8_lossy(&o.stderr));
                rep.outside_domain(&format!("git cat-file --filters dies from a signal on stored content {:?} ({})", contents[k].as_bstr(), conf.name()));
                rep.bucket("to-worktree:git-in-memory-crashed");
                inmem.push(None);
            }
        }
    }
    assert_eq!(inmem.len(), contents.len());
    tick("D-git");
    let ident_on = gix_tok[3] == "s";
    for (k, w) in contents.iter().enumerate() {
        let idhex = &sids[k];
        if let Some(m) = &inmem[k] {
            rep.case(&format!("swtm {stok} {an} {en} {} {}", hex(idhex.as_bytes()), hex(w)), &hex(m), true);
        }
        let g = match &checked_out[k] {
            Some(g) => g.clone(),
            None => continue,
        };
        // without an answer from the in-memory conversion, the checkout result stands in for it
        let m = &inmem[k].clone().unwrap_or_else(|| g.clone());
        if *m != g {
            rep.bucket("to-worktree:git-streaming-differs-from-git-in-memory");
        }
        rep.oracle_checked();
        if *idhex != blob_hex(w) {
            rep.oracle_failure(&format!("blob-id src={}", short_key(w)), "compute_hash differs from git hash-object", "");
        }
        let (obs, bytes) = skip.to_worktree(w, &format!("x{k}"));
        let op = format!("pwt {gtok} {an} {en} {} {}", hex(idhex.as_bytes()), hex(w));
        rep.case(&op, &obs, true);
        rep.case(&format!("swt {stok} {an} {en} {} {}", hex(idhex.as_bytes()), hex(w)), &hex(&g), true);
        rep.oracle_checked();
        rep.git_checked(1);
        rep.bucket(if &g == w { "to-worktree:unchanged" } else { "to-worktree:changed" });
        if bytes.as_deref() != Some(&g[..]) {
            // the two documented/known deviations of ident::apply are recognised exactly
            let with_space = format!("$Id: {idhex} $");
            let without = format!("$Id: {idhex}$");
            let despaced = g.replace(with_space.as_bytes(), without.as_bytes());
            let despaced_m = m.replace(with_space.as_bytes(), without.as_bytes());
            let eg = format!("e.g. {} stored {:?}: gitoxide {:?}, git checkout {:?}, git cat-file --filters {:?}", conf.name(), w.as_bstr(), bytes.as_ref().map(|b| b.as_bstr()), g.as_bstr(), m.as_bstr());
            if ident_on && bytes.as_deref() == Some(&despaced[..]) {
                rep.bucket("to-worktree:known-ident-space");
                rep.oracle_failure(K_SPACE, &eg, &op);
            } else if ident_on && *m != g && bytes.as_deref() == Some(&despaced_m[..]) {
                // gitoxide agrees (up to the space) with git's in-memory conversion, which git's own
                // streaming checkout filter does not
                rep.bucket("to-worktree:known-ident-streaming");
                rep.oracle_failure(K_STREAM, &eg, &op);
                if despaced_m != *m {
                    rep.oracle_failure(K_SPACE, &eg, &op);
                }
            } else if ident_on && w.find(b"$Id:").is_some() && bytes.is_some() {
                rep.bucket("to-worktree:known-ident-expanded");
                rep.oracle_failure(K_EXPANDED, &format!("e.g. {} stored {:?}: gitoxide {:?}, git {:?}", conf.name(), w.as_bstr(), bytes.as_ref().map(|b| b.as_bstr()), g.as_bstr()), &op);
            } else {
                rep.oracle_failure(
                    &format!("to-worktree {} src={}", conf.name(), short_key(w)),
                    &format!(
                        "Pipeline::convert_to_worktree gives {} but `git checkout-index` writes {:?} for stored {:?}",
                        match &bytes {
                            Some(b) => format!("{:?}", b.as_bstr()),
                            None => obs.clone(),
                        },
                        g.as_bstr(),
                        w.as_bstr()
                    ),
                    &op,
                );
            }
        }
    }
}


// ---------------------------------------------------------------------------------------------
// the full cross product {text, -text, text=auto, text=input, crlf, -crlf, crlf=input, unset} ×
// {eol=lf, eol=crlf, eol unset} on distinct paths of ONE .gitattributes, under every
// core.autocrlf × core.eol, in both directions, judged by git and by the model

const CROSS_TEXT: &[&str] = &["text", "-text", "text=auto", "text=input", "crlf", "-crlf", "crlf=input", ""];
const CROSS_EOL: &[&str] = &["eol=lf", "eol=crlf", ""];
const CROSS_CONTENTS: &[&[u8]] = &[b"a\nb\r\nc\n", b"x\r\ny\r\n", b"p\nq\n", b"r\rs\n", b"no eol"];

fn run_cross(rep: &mut Report, repos: &Repos, autocrlf: usize, eol: usize) {
    let mut attrs = String::new();
    let mut files: Vec<(String, Vec<u8>)> = Vec::new();
    let mut i = 0;
    for t in CROSS_TEXT {
        for e in CROSS_EOL {
            if !(t.is_empty() && e.is_empty()) {
                attrs.push_str(&format!("c{i}_* {t} {e}\n"));
            }
            for (k, c) in CROSS_CONTENTS.iter().enumerate() {
                files.push((format!("c{i}_{k}"), c.to_vec()));
            }
            i += 1;
        }
    }
    let conf = Conf { attrs: attrs.clone(), autocrlf, eol };
    let (an, en) = (AUTOCRLF[autocrlf].1, EOLS[eol].1);
    let git_conflict = an == "input" && en == "crlf";
    let gattrs = GixAttrs::new(&attrs);
    let mut skip = Gix::new(&conf, CrlfRoundTripCheck::Skip);
    rep.bucket(&format!("cross:autocrlf={an} eol={en}"));
    if git_conflict {
        for (n, w) in &files {
            let t = gattrs.tokens(n);
            let gtok = format!("{} {} {} {}", t[0], t[1], t[2], t[3]);
            let (obs, _) = skip.to_git(w, n, &None);
            rep.case(&format!("pgit {gtok} {an} {en} skip none {}", hex(w)), &obs, true);
            let (obs, _) = skip.to_worktree(w, n);
            rep.case(&format!("pwt {gtok} {an} {en} {} {}", hex(blob_hex(w).as_bytes()), hex(w)), &obs, true);
        }
        return;
    }
    repos.reset();
    let flags = conf.git_flags("false");
    let name_list: String = files.iter().map(|(n, _)| format!("{n}\n")).collect();
    // git's view of the attributes of every path, in one call
    let a = repos.a.clone();
    std::fs::write(a.join(".gitattributes"), &attrs).unwrap();
    for (n, w) in &files {
        std::fs::write(a.join(n), w).unwrap();
    }
    let mut args: Vec<&str> = vec!["check-attr", "text", "crlf", "eol", "ident", "--"];
    args.extend(files.iter().map(|(n, _)| n.as_str()));
    let out = git_ok(&a, &args, None);
    let mut git_tok: std::collections::HashMap<String, [String; 4]> = std::collections::HashMap::new();
    for l in out.lines() {
        let mut it = l.splitn(3, ": ");
        let path = it.next().unwrap_or("").to_string();
        let name = it.next().unwrap_or("");
        let val = it.next().unwrap_or("");
        let tok = match val {
            "set" => "s".to_string(),
            "unset" => "n".to_string(),
            "unspecified" => "u".to_string(),
            v => format!("v{}", hex(v.as_bytes())),
        };
        let idx = match name {
            "text" => 0,
            "crlf" => 1,
            "eol" => 2,
            "ident" => 3,
            _ => continue,
        };
        git_tok.entry(path).or_insert_with(|| [String::new(), String::new(), String::new(), String::new()])[idx] = tok;
    }
    // to git
    let o = git(&a, &git_flags(&flags, &["hash-object", "-w", "--stdin-paths"]), Some(name_list.as_bytes()));
    assert!(o.ok, "cross hash-object: {}", String::from_utf8_lossy(&o.stderr));
    let ids: Vec<String> = String::from_utf8_lossy(&o.stdout).lines().map(|s| s.to_string()).collect();
    assert_eq!(ids.len(), files.len());
    let blobs = cat_blobs(&a, &ids);
    for ((n, w), id) in files.iter().zip(&ids) {
        let g = &blobs[id];
        let t = gattrs.tokens(n);
        let gtok = format!("{} {} {} {}", t[0], t[1], t[2], t[3]);
        let st = &git_tok[n];
        let stok = format!("{} {} {} {}", st[0], st[1], st[2], st[3]);
        let (obs, bytes) = skip.to_git(w, n, &None);
        let op = format!("pgit {gtok} {an} {en} skip none {}", hex(w));
        rep.case(&op, &obs, true);
        rep.case(&format!("sgit {stok} {an} {en} skip none {}", hex(w)), &format!("{} warn=none", hex(g)), true);
        rep.oracle_checked();
        rep.git_checked(1);
        if bytes.as_deref() != Some(&g[..]) {
            rep.oracle_failure(
                &format!("to-git [{}] autocrlf={an} eol={en} src={}", attrs_of(&attrs, n), short_key(w)),
                &format!("Pipeline::convert_to_git gives {:?} but `git hash-object --path` stores {:?} for {:?}",
                    bytes.as_ref().map(|b| b.as_bstr()), g.as_bstr(), w.as_bstr()),
                &op,
            );
        }
    }
    // to worktree
    let d = repos.d.clone();
    for (n, w) in &files {
        std::fs::write(d.join(format!("s{n}")), w).unwrap();
    }
    let src_list: String = files.iter().map(|(n, _)| format!("s{n}\n")).collect();
    let o = git(&d, &["hash-object", "-w", "--no-filters", "--stdin-paths"], Some(src_list.as_bytes()));
    assert!(o.ok, "cross hash-object --no-filters");
    let sids: Vec<String> = String::from_utf8_lossy(&o.stdout).lines().map(|s| s.to_string()).collect();
    let mut info = String::new();
    let mut req = String::new();
    for ((n, _), id) in files.iter().zip(&sids) {
        info.push_str(&format!("100644 {id}\t{n}\n"));
        req.push_str(&format!("{id} {n}\n"));
    }
    let o = git(&d, &["update-index", "--index-info"], Some(info.as_bytes()));
    assert!(o.ok, "cross update-index {}", String::from_utf8_lossy(&o.stderr));
    std::fs::write(d.join(".gitattributes"), &attrs).unwrap();
    let o = git(&d, &git_flags(&flags, &["checkout-index", "-f", "-a"]), None);
    assert!(o.ok, "cross checkout-index {}", String::from_utf8_lossy(&o.stderr));
    let o = git(&d, &git_flags(&flags, &["cat-file", "--batch", "--filters"]), Some(req.as_bytes()));
    assert!(o.ok, "cross cat-file --filters {}", String::from_utf8_lossy(&o.stderr));
    let headers: Vec<String> = sids.iter().zip(&files).map(|(id, (_, w))| format!("{id} blob {}\n", w.len())).collect();
    let mut rest = &o.stdout[..];
    let mut inmem: Vec<Vec<u8>> = Vec::new();
    for k in 0..headers.len() {
        assert!(rest.starts_with(headers[k].as_bytes()), "cross cat-file header {k}");
        rest = &rest[headers[k].len()..];
        let end = if k + 1 < headers.len() {
            let delim = format!("\n{}", headers[k + 1]);
            rest.find(delim.as_bytes()).expect("next header")
        } else {
            rest.len() - 1
        };
        inmem.push(rest[..end].to_vec());
        rest = &rest[end + 1..];
    }
    for (k, ((n, w), id)) in files.iter().zip(&sids).enumerate() {
        let g = std::fs::read(d.join(n)).unwrap();
        let t = gattrs.tokens(n);
        let gtok = format!("{} {} {} {}", t[0], t[1], t[2], t[3]);
        let st = &git_tok[n];
        let stok = format!("{} {} {} {}", st[0], st[1], st[2], st[3]);
        let (obs, bytes) = skip.to_worktree(w, n);
        let op = format!("pwt {gtok} {an} {en} {} {}", hex(id.as_bytes()), hex(w));
        rep.case(&op, &obs, true);
        rep.case(&format!("swt {stok} {an} {en} {} {}", hex(id.as_bytes()), hex(w)), &hex(&g), true);
        rep.case(&format!("swtm {stok} {an} {en} {} {}", hex(id.as_bytes()), hex(w)), &hex(&inmem[k]), true);
        rep.oracle_checked();
        rep.git_checked(2);
        if bytes.as_deref() != Some(&g[..]) || bytes.as_deref() != Some(&inmem[k][..]) {
            rep.oracle_failure(
                &format!("to-worktree [{}] autocrlf={an} eol={en} src={}", attrs_of(&attrs, n), short_key(w)),
                &format!(
                    "Pipeline::convert_to_worktree gives {:?} but `git checkout-index` writes {:?} (`git cat-file --filters`: {:?}) for stored {:?}",
                    bytes.as_ref().map(|b| b.as_bstr()), g.as_bstr(), inmem[k].as_bstr(), w.as_bstr()),
                &op,
            );
        }
    }
}

/// the attribute line that applies to `name` (`c<i>_<k>`) in the cross-product .gitattributes
fn attrs_of(attrs: &str, name: &str) -> String {
    let prefix = format!("{}_*", name.split('_').next().unwrap_or(""));
    attrs
        .lines()
        .find(|l| l.starts_with(&prefix))
        .map(|l| l[prefix.len()..].trim().to_string())
        .unwrap_or_default()
}

// ---------------------------------------------------------------------------------------------
// replay: re-run op lines (building blocks and pipeline ops; the pipeline ops are re-evaluated on
// the real code and re-checked against git with a one-file batch)

fn conf_from_tokens(t: &[&str]) -> Option<Conf> {
    // text crlf eol ident autocrlf eol
    fn attr(name: &str, tok: &str) -> Option<String> {
        Some(match tok {
            "u" => String::new(),
            "s" => format!(" {name}"),
            "n" => format!(" -{name}"),
            v if v.starts_with('v') => format!(" {name}={}", String::from_utf8(unhex(&v[1..])?).ok()?),
            _ => return None,
        })
    }
    let line = format!("*{}{}{}{}", attr("text", t[0])?, attr("crlf", t[1])?, attr("eol", t[2])?, attr("ident", t[3])?);
    Some(Conf {
        attrs: if line == "*" { String::new() } else { format!("{line}\n") },
        autocrlf: AUTOCRLF.iter().position(|x| x.1 == t[4])?,
        eol: EOLS.iter().position(|x| x.1 == t[5])?,
    })
}

fn replay(rep: &mut Report, r: &mut Rng, ops: Vec<String>) {
    let repos = Repos::new();
    for op in ops {
        let t: Vec<&str> = op.split(' ').collect();
        match t[0] {
            "stats" if t.len() == 2 => {
                if let Some(src) = unhex(t[1]) {
                    do_stats(rep, &src);
                    // git's view of the statistics
                    let c = Conf { attrs: String::new(), autocrlf: 1, eol: 2 };
                    run_conf(rep, r, &repos, &c, &[src], 0, &[b"x".to_vec()]);
                }
            }
            "undo" if t.len() == 2 => {
                if let Some(src) = unhex(t[1]) {
                    do_ident_direct(rep, &src);
                }
            }
            "apply" if t.len() == 3 => {
                if let Some(src) = unhex(t[2]) {
                    do_ident_direct(rep, &src);
                }
            }
            "eolgit" | "eolwt" => {
                let src = unhex(t[t.len() - 1]).unwrap_or_default();
                let d = DIGESTS.iter().find(|x| x.1 == t[1]).map(|x| x.0);
                let a = AUTOCRLF.iter().find(|x| x.1 == t[2]).map(|x| x.0);
                let e = EOLS.iter().find(|x| x.1 == t[3]).map(|x| x.0);
                if let (Some(d), Some(a), Some(e)) = (d, a, e) {
                    let config = eol::Configuration { auto_crlf: a, eol: e };
                    if t[0] == "eolgit" && t.len() == 7 {
                        let c = CHECKS.iter().find(|x| x.1 == t[4]).map(|x| x.0).unwrap_or(CrlfRoundTripCheck::Skip);
                        let index = if t[5] == "none" { None } else { unhex(t[5]) };
                        let obs = eol_to_git_real(&src, d, config, c, &index);
                        rep.case(&op, &obs, true);
                    } else if t.len() == 5 {
                        let mut buf = Vec::new();
                        let obs = match eol::convert_to_worktree(&src, d, &mut buf, config) {
                            Ok(true) => format!("ok {}", hex(&buf)),
                            Ok(false) => "unchanged".to_string(),
                            Err(_) => "err:other".to_string(),
                        };
                        rep.case(&op, &obs, true);
                    }
                }
            }
            "pgit" | "sgit" if t.len() == 10 => {
                if let (Some(conf), Some(src)) = (conf_from_tokens(&t[1..7]), unhex(t[9])) {
                    run_conf(rep, r, &repos, &conf, &[src], 1, &[b"a\r\nb\r\n".to_vec()]);
                }
            }
            "pwt" | "swt" if t.len() == 9 => {
                if let (Some(conf), Some(src)) = (conf_from_tokens(&t[1..7]), unhex(t[8])) {
                    run_conf(rep, r, &repos, &conf, &[src], 1, &[b"a\r\nb\r\n".to_vec()]);
                }
            }
            _ => {}
        }
    }
}

fn main() {
    // panics of the harness itself (not of the code under test) must be visible
    if let Err(msg) = catch(real_main) {
        eprintln!("harness panicked: {msg}");
        std::process::exit(101);
    }
}

fn real_main() {
    let args = Args::parse();
    let mut rep = Report::new("C43", &args);
    let mut r = Rng::new(args.seed);
    if let Some(ops) = replay_ops(&args) {
        replay(&mut rep, &mut r, ops);
        rep.finish();
        return;
    }
    let corpus = corpus();
    let t_start = std::time::Instant::now();

    // building blocks: corpus first, then generated contents
    let n_direct = args.budget(10_000, 60_000) as usize;
    for i in 0..corpus.len() + n_direct {
        let src = if i < corpus.len() { corpus[i].clone() } else { gen_content(&mut r) };
        do_stats(&mut rep, &src);
        let index = match r.below(4) {
            0 => Some(variant_for_index(&mut r, &src, &corpus)),
            1 => Some(gen_content(&mut r)),
            _ => None,
        };
        do_eol_direct(&mut rep, &mut r, &src, &index);
        do_eol_direct(&mut rep, &mut r, &src, &None);
        do_ident_direct(&mut rep, &src);
    }

    let t_direct = std::time::Instant::now();
    rep.note(&format!("building blocks took {:.1}s", t_direct.duration_since(t_start).as_secs_f64()));
    // the attribute cross product under every core.autocrlf x core.eol, both directions (both tiers)
    {
        let repos = Repos::new();
        for ac in 0..AUTOCRLF.len() {
            for e in 0..EOLS.len() {
                run_cross(&mut rep, &repos, ac, e);
            }
        }
    }
    // pipeline vs git, batched per configuration: the quick tier takes a seed-dependent third of the
    // fixed configurations plus a few random ones, the thorough tier all of them plus many
    let repos = Repos::new();
    let mut confs = core_confs();
    if !args.thorough {
        let keep = (args.seed % 3) as usize;
        confs = confs.into_iter().enumerate().filter(|(i, _)| i % 3 == keep).map(|(_, c)| c).collect();
    }
    let n_random = args.budget(5, 30) as usize;
    for _ in 0..n_random {
        confs.push(gen_conf(&mut r));
    }
    let per_conf = args.budget(40, 50) as usize;
    let die_cases = args.budget(3, 12) as usize;
    for (ci, conf) in confs.iter().enumerate() {
        let mut contents: Vec<Vec<u8>> = Vec::new();
        // a rotating slice of the corpus, then generated contents
        for j in 0..per_conf {
            if j < per_conf / 3 {
                contents.push(corpus[(ci * (per_conf / 3) + j) % corpus.len()].clone());
            } else {
                contents.push(gen_content(&mut r));
            }
        }
        run_conf(&mut rep, &mut r, &repos, conf, &contents, die_cases, &corpus);
    }
    rep.note(&format!("{} configurations against git took {:.1}s", confs.len(), t_direct.elapsed().as_secs_f64()));
    rep.finish();
}
