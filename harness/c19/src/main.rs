//! C19 — packed-refs lookup equals a linear scan.
//!
//! Real code exercised: `packed::Buffer::from_bytes` (header, in-memory sort when the `sorted`
//! trait is absent), `Buffer::try_find` (→ `try_find_full_name` → the byte-level
//! `binary_search_by` with its record-start recovery), `Buffer::iter` (the linear scan).
//!
//! Correspondence ops (answered by the Lean model `GixModel.C19.handle`):
//!   finds <buffer> <name>,<name>,…   open the buffer, look every name up
//!   scan <buffer>                    open the buffer, iterate it
//!
//! Oracle (the property on the real code, independent of the model), for every query:
//!   * buffer well-formed (every line parses, names strictly increasing — which is what `open`
//!     establishes for files without the `sorted` trait, and what the trait promises otherwise):
//!     `try_find` == first match of the linear `iter()` scan, `None` iff absent;
//!   * any other buffer (garbage, lying `sorted` header, duplicates): the result is an error, or
//!     `None`, or a record the linear scan yields under that very name — never a wrong record.
use gix_object::bstr::ByteSlice;
use gix_ref::packed;
use hcommon::*;

#[derive(Clone, PartialEq, Eq, Debug)]
struct Rec {
    name: Vec<u8>,
    target: Vec<u8>,
    object: Option<Vec<u8>>,
}

impl Rec {
    fn obs(&self) -> String {
        format!(
            "ok {} {} {}",
            hex(&self.name),
            hex(&self.target),
            match &self.object {
                Some(o) => hex(o),
                None => "none".into(),
            }
        )
    }
}

fn rec_of(r: &packed::Reference<'_>) -> Rec {
    Rec {
        name: r.name.as_bstr().to_vec(),
        target: r.target.to_vec(),
        object: r.object.map(|o| o.to_vec()),
    }
}

#[derive(Clone, PartialEq, Eq, Debug)]
enum Got {
    Ok(Rec),
    None,
    ParseErr,
    NameErr,
}

impl Got {
    fn obs(&self) -> String {
        match self {
            Got::Ok(r) => r.obs(),
            Got::None => "none".into(),
            Got::ParseErr => "err:parse".into(),
            Got::NameErr => "err:name".into(),
        }
    }
}

fn real_find(buf: &packed::Buffer, q: &[u8]) -> Got {
    match buf.try_find(q.as_bstr()) {
        Ok(Some(r)) => Got::Ok(rec_of(&r)),
        Ok(None) => Got::None,
        Err(packed::find::Error::Parse) => Got::ParseErr,
        Err(packed::find::Error::RefnameValidation(_)) => Got::NameErr,
    }
}

/// the linear scan: `None` = `iter()` itself failed; items: Some(rec) / None for a bad line
fn real_scan(buf: &packed::Buffer) -> Option<Vec<Option<Rec>>> {
    let it = buf.iter().ok()?;
    let mut out = Vec::new();
    for r in it {
        out.push(r.ok().map(|r| rec_of(&r)));
        if out.len() > 100_000 {
            break;
        }
    }
    Some(out)
}

fn open_obs(e: &packed::buffer::open::Error) -> &'static str {
    match e {
        packed::buffer::open::Error::HeaderParsing => "open-err:header",
        packed::buffer::open::Error::Iter(_) => "open-err:iter",
        packed::buffer::open::Error::Io(_) => "open-err:io",
    }
}

fn short(b: &[u8]) -> String {
    let h = hex(b);
    if h.len() > 300 {
        let mut f: u64 = 0xcbf29ce484222325;
        for x in b {
            f ^= *x as u64;
            f = f.wrapping_mul(0x100000001b3);
        }
        format!("{}…({} bytes, fnv {:016x})", &h[..300], b.len(), f)
    } else {
        h
    }
}

struct Limits {
    per_class: std::collections::BTreeMap<&'static str, u32>,
}

impl Limits {
    fn allow(&mut self, class: &'static str) -> bool {
        let c = self.per_class.entry(class).or_insert(0);
        *c += 1;
        *c <= 4
    }
}

/// One buffer: all `queries` against the oracle, the first `model_queries` of them also against the model.
fn do_buffer(rep: &mut Report, lim: &mut Limits, bytes: &[u8], queries: &[Vec<u8>], model_queries: usize, kind: &str) {
    let mq = &queries[..model_queries.min(queries.len())];
    let qlist = if mq.is_empty() {
        "-".to_string()
    } else {
        mq.iter().map(|q| hex(q)).collect::<Vec<_>>().join(",")
    };
    let op = format!("finds {} {}", hex(bytes), qlist);
    let scan_op = format!("scan {}", hex(bytes));
    let buf = match catch(|| packed::Buffer::from_bytes(bytes)) {
        Err(msg) => {
            rep.case(&op, "panic", true);
            rep.oracle_failure(&format!("open-panic buf={}", short(bytes)), &msg, &op);
            return;
        }
        Ok(Err(e)) => {
            rep.case(&op, open_obs(&e), true);
            rep.bucket(&format!("{kind}:{}", open_obs(&e)));
            return;
        }
        Ok(Ok(b)) => b,
    };
    let scan = real_scan(&buf);
    rep.case(
        &scan_op,
        &match &scan {
            None => "iter-err:header".to_string(),
            Some(items) if items.is_empty() => "-".to_string(),
            Some(items) => items
                .iter()
                .map(|i| match i {
                    Some(r) => r.obs(),
                    None => "bad".into(),
                })
                .collect::<Vec<_>>()
                .join(","),
        },
        !bytes.is_empty(),
    );
    let well_formed = match &scan {
        Some(items) => {
            items.iter().all(|i| i.is_some())
                && items.windows(2).all(|w| w[0].as_ref().unwrap().name < w[1].as_ref().unwrap().name)
        }
        None => false,
    };
    rep.bucket(&format!(
        "{kind}:{}:{}",
        if well_formed { "wellformed" } else { "malformed" },
        match scan.as_ref().map_or(0, |s| s.len()) {
            0 => "0",
            1 => "1",
            2..=9 => "2-9",
            10..=49 => "10-49",
            _ => "50+",
        }
    ));
    let mut obs = Vec::new();
    for (qi, q) in queries.iter().enumerate() {
        let got = match catch(|| real_find(&buf, q)) {
            Ok(g) => g,
            Err(msg) => {
                if lim.allow("panic") {
                    rep.oracle_failure(&format!("find-panic buf={} q={}", short(bytes), hex(q)), &msg, &op);
                }
                if qi < model_queries {
                    obs.push("panic".to_string());
                }
                continue;
            }
        };
        if qi < model_queries {
            obs.push(got.obs());
        }
        if got == Got::NameErr {
            rep.bucket("query:invalid-name");
            continue;
        }
        rep.oracle_checked();
        let items = match &scan {
            Some(i) => i,
            None => continue,
        };
        let linear_first = items.iter().flatten().find(|r| r.name == *q);
        rep.bucket(match (&got, linear_first.is_some()) {
            (Got::Ok(_), _) => "query:found",
            (Got::None, false) => "query:absent",
            (Got::None, true) => "query:missed",
            (Got::ParseErr, _) => "query:parse-error",
            (Got::NameErr, _) => unreachable!(),
        });
        if well_formed {
            let want = match linear_first {
                Some(r) => Got::Ok(r.clone()),
                None => Got::None,
            };
            if got != want && lim.allow("find-vs-linear") {
                rep.oracle_failure(
                    &format!("find!=linear buf={} q={}", short(bytes), hex(q)),
                    &format!("try_find gives {:?}, the linear scan gives {:?}", got, want),
                    &op,
                );
            }
        } else {
            match &got {
                Got::Ok(r) => {
                    let present = items.iter().flatten().any(|x| x == r);
                    if (r.name != *q || !present) && lim.allow("wrong-record") {
                        rep.oracle_failure(
                            &format!("wrong-record buf={} q={}", short(bytes), hex(q)),
                            &format!("try_find returned {:?}, which the linear scan does not yield under that name", r),
                            &op,
                        );
                    } else if linear_first != Some(r) {
                        rep.outside_domain("duplicate names: try_find returns a later duplicate than the linear scan");
                    }
                }
                Got::None if linear_first.is_some() => {
                    rep.outside_domain("malformed buffer (not sorted although the header says so, or unparseable lines): a present name is not found");
                }
                _ => {}
            }
        }
    }
    rep.case(&op, &if obs.is_empty() { "-".to_string() } else { obs.join(";") }, true);
}

// ---------------------------------------------------------------------------------- generators

fn gen_hex40(r: &mut Rng) -> Vec<u8> {
    hex(&r.bytes(20)).into_bytes()
}

fn gen_name(r: &mut Rng, pool: &[Vec<u8>]) -> Vec<u8> {
    let mut n: Vec<u8> = match r.below(10) {
        0 => b"refs/tags/".to_vec(),
        1 => b"refs/remotes/origin/".to_vec(),
        2 => b"refs/".to_vec(),
        3 if !pool.is_empty() => {
            // share a prefix with an existing name
            let p = r.pick(pool).clone();
            let cut = 5 + r.usize(p.len() - 4);
            let mut p = p[..cut.min(p.len())].to_vec();
            if p.last() == Some(&b'/') || p.last() == Some(&b'.') {
                p.push(b'x');
            }
            p
        }
        _ => b"refs/heads/".to_vec(),
    };
    let len = 1 + r.usize(6);
    for i in 0..len {
        let c = *r.pick(b"aab-._/0A\x80\xffz");
        let prev = *n.last().unwrap();
        let ok = match c {
            b'/' => prev != b'/' && i + 1 != len && prev != b'.',
            b'.' => prev != b'.' && prev != b'/' && i + 1 != len,
            _ => true,
        };
        n.push(if ok { c } else { b'a' });
    }
    if n.ends_with(b".lock") {
        n.push(b'x');
    }
    n
}

#[derive(Clone)]
struct Line {
    rec: Rec,
    crlf: bool,
    crlf2: bool,
}

fn render(lines: &[Line]) -> Vec<u8> {
    let mut v = Vec::new();
    for l in lines {
        v.extend_from_slice(&l.rec.target);
        v.push(b' ');
        v.extend_from_slice(&l.rec.name);
        if l.crlf {
            v.push(b'\r');
        }
        v.push(b'\n');
        if let Some(o) = &l.rec.object {
            v.push(b'^');
            v.extend_from_slice(o);
            if l.crlf2 {
                v.push(b'\r');
            }
            v.push(b'\n');
        }
    }
    v
}

fn gen_lines(r: &mut Rng) -> Vec<Line> {
    let n = match r.below(12) {
        0 => 0,
        1 => 1,
        2 => 2,
        3..=6 => 3 + r.usize(10),
        7..=9 => 10 + r.usize(40),
        _ => r.usize(201),
    };
    let crlf_mode = r.below(5); // 0..2 LF, 3 CRLF, 4 mixed
    let mut names: Vec<Vec<u8>> = Vec::new();
    for _ in 0..n {
        let nm = gen_name(r, &names);
        names.push(nm);
    }
    names.sort();
    names.dedup();
    names
        .into_iter()
        .map(|name| Line {
            rec: Rec {
                name,
                target: gen_hex40(r),
                object: if r.chance(1, 3) { Some(gen_hex40(r)) } else { None },
            },
            crlf: crlf_mode == 3 || (crlf_mode == 4 && r.chance(1, 2)),
            crlf2: crlf_mode == 3 || (crlf_mode == 4 && r.chance(1, 2)),
        })
        .collect()
}

fn header(r: &mut Rng, sorted: bool) -> Vec<u8> {
    let mut h = b"# pack-refs with:".to_vec();
    let mut toks: Vec<&[u8]> = vec![b"peeled", b"fully-peeled"];
    if sorted {
        toks.push(b"sorted");
    }
    if r.chance(1, 3) {
        r.shuffle(&mut toks);
    }
    for t in toks {
        h.push(b' ');
        h.extend_from_slice(t);
    }
    if r.chance(2, 3) {
        h.push(b' ');
    }
    if r.chance(1, 6) {
        h.push(b'\r');
    }
    h.push(b'\n');
    h
}

fn queries_for(r: &mut Rng, lines: &[Line]) -> Vec<Vec<u8>> {
    let mut qs: Vec<Vec<u8>> = Vec::new();
    for l in lines {
        let n = &l.rec.name;
        qs.push(n.clone());
        // ± one byte
        let mut a = n.clone();
        a.push(*r.pick(b"a0-/\x80"));
        if a.last() == Some(&b'/') {
            a.push(b'x');
        }
        qs.push(a);
        if n.len() > 6 {
            qs.push(n[..n.len() - 1].to_vec());
            let mut c = n.clone();
            let last = c.len() - 1;
            c[last] = c[last].wrapping_add(if r.chance(1, 2) { 1 } else { 255 });
            qs.push(c);
        }
    }
    // smaller / greater than everything, the bare prefixes
    for q in [&b"refs/0"[..], b"refs/heads/a", b"refs/zzzz", b"refs/\xff\xff", b"refs/heads/\x80", b"refs/tags/v1"] {
        qs.push(q.to_vec());
    }
    // only names that take the direct path through try_find
    qs.retain(|q| q.starts_with(b"refs/") && !q.starts_with(b"refs/worktree/"));
    qs
}

fn corrupt(r: &mut Rng, body: &mut Vec<u8>) -> &'static str {
    if body.is_empty() {
        return "empty";
    }
    match r.below(10) {
        0 => {
            let at = r.usize(body.len());
            body.truncate(at);
            "cut"
        }
        1 => {
            // bad hex digit somewhere in a target
            let starts: Vec<usize> = std::iter::once(0).chain(body.iter().enumerate().filter(|(_, b)| **b == b'\n').map(|(i, _)| i + 1)).filter(|i| *i < body.len()).collect();
            let s = *r.pick(&starts);
            let at = (s + r.usize(40)).min(body.len() - 1);
            body[at] = *r.pick(b"GZ A^");
            "bad-hex"
        }
        2 => {
            let at = r.usize(body.len());
            body[at] = *r.pick(b"\n \r^~\x00");
            "byte"
        }
        3 => {
            let at = r.usize(body.len());
            body.insert(at, b'\n');
            "extra-nl"
        }
        4 => {
            // an extra peeled line after some line
            let nls: Vec<usize> = body.iter().enumerate().filter(|(_, b)| **b == b'\n').map(|(i, _)| i + 1).collect();
            let at = if nls.is_empty() { 0 } else { *r.pick(&nls) };
            let mut ins = b"^".to_vec();
            ins.extend(gen_hex40(r));
            ins.push(b'\n');
            body.splice(at..at, ins);
            "extra-peeled"
        }
        5 => {
            if body.last() == Some(&b'\n') {
                body.pop();
            }
            "no-final-nl"
        }
        6 => {
            let at = r.usize(body.len());
            let n = 1 + r.usize(8);
            let end = (at + n).min(body.len());
            body.drain(at..end);
            "drop-bytes"
        }
        7 => {
            // an invalid name in some line
            if let Some(p) = body.find(b"refs/") {
                body.splice(p + 5..p + 5, b"..".iter().copied());
            }
            "bad-name"
        }
        8 => {
            let at = r.usize(body.len());
            let k = 1 + r.usize(12);
            let junk = r.bytes(k);
            body.splice(at..at, junk);
            "junk"
        }
        _ => {
            // a second header line
            body.splice(0..0, b"# comment\n".iter().copied());
            "hash-line"
        }
    }
}

fn gen_buffer(r: &mut Rng) -> (Vec<u8>, Vec<Vec<u8>>, String) {
    let mut lines = gen_lines(r);
    let queries = queries_for(r, &lines);
    let kind = r.below(20);
    match kind {
        0..=8 => {
            // sorted header, sorted body
            let mut b = header(r, true);
            b.extend(render(&lines));
            (b, queries, "sorted".into())
        }
        9..=12 => {
            // no `sorted` trait (or no header at all): shuffled body, sorted on open
            r.shuffle(&mut lines);
            let mut b = if r.chance(1, 2) { header(r, false) } else { Vec::new() };
            b.extend(render(&lines));
            (b, queries, "unsorted".into())
        }
        13 => {
            // duplicates, sorted on open (stable)
            if !lines.is_empty() {
                for _ in 0..1 + r.usize(3) {
                    let mut d = r.pick(&lines).clone();
                    d.rec.target = gen_hex40(r);
                    lines.push(d);
                }
            }
            r.shuffle(&mut lines);
            let mut b = Vec::new();
            b.extend(render(&lines));
            (b, queries, "duplicates".into())
        }
        14 => {
            // lying header: `sorted` but shuffled
            r.shuffle(&mut lines);
            let mut b = header(r, true);
            b.extend(render(&lines));
            (b, queries, "lying-sorted".into())
        }
        _ => {
            let mut body = render(&lines);
            let what = corrupt(r, &mut body);
            let mut b = if r.chance(4, 5) { header(r, true) } else { header(r, false) };
            b.extend(body);
            (b, queries, format!("corrupt-{what}"))
        }
    }
}

fn corpus() -> Vec<(Vec<u8>, Vec<Vec<u8>>)> {
    let t = "0123456789abcdef0123456789abcdef01234567";
    let p = "89abcdef0123456789abcdef0123456789abcdef";
    let h = "# pack-refs with: peeled fully-peeled sorted \n";
    let q = |xs: &[&str]| xs.iter().map(|s| s.as_bytes().to_vec()).collect::<Vec<_>>();
    let all = q(&["refs/heads/a", "refs/heads/b", "refs/heads/c", "refs/heads/ab", "refs/heads/", "refs/a", "refs/tags/t", "refs/zz"]);
    let mut v = Vec::new();
    for body in [
        String::new(),
        format!("{t} refs/heads/a\n"),
        format!("{t} refs/heads/a\n^{p}\n"),
        format!("{t} refs/heads/a\n^{p}\n{t} refs/heads/b\n"),
        format!("{t} refs/heads/a\n{t} refs/heads/b\n^{p}\n"),
        format!("{t} refs/heads/a\r\n^{p}\r\n{t} refs/heads/b\r\n{t} refs/heads/c\r\n^{p}\r\n"),
        format!("{t} refs/heads/a\n{t} refs/heads/ab\n{t} refs/heads/b\n{t} refs/tags/t\n^{p}\n"),
        format!("{t} refs/heads/b\n{t} refs/heads/a\n"),
        format!("{t} refs/heads/a\n^{p}\n^{p}\n{t} refs/heads/b\n"),
        format!("^{p}\n{t} refs/heads/a\n"),
        format!("{t} refs/heads/a"),
        format!("{t} refs/heads/a\n{t} refs/heads/b"),
        format!("{t} refs/heads/a\n\n{t} refs/heads/b\n"),
        format!("{t} refs/heads/a\n{t} refs/he ads/b\n{t} refs/heads/c\n"),
        format!("{t} refs/heads/a\n{} refs/heads/b\n{t} refs/heads/c\n", &t[..39]),
        format!("{t} refs/heads/a\n{t} refs/heads/a\n"),
    ] {
        v.push((format!("{h}{body}").into_bytes(), all.clone()));
        v.push((body.clone().into_bytes(), all.clone()));
        v.push((format!("# pack-refs with: peeled\n{body}").into_bytes(), all.clone()));
    }
    v.push((b"# pack-refs with".to_vec(), all.clone()));
    v.push((b"#\n".to_vec(), all.clone()));
    v.push((b"# pack-refs with: sorted".to_vec(), all.clone()));
    v
}

fn replay(rep: &mut Report, lim: &mut Limits, ops: &[String]) {
    for op in ops {
        let a: Vec<&str> = op.split(' ').collect();
        match (a[0], a.len()) {
            ("finds", 3) => {
                let Some(buf) = unhex(a[1]) else { continue };
                let qs: Vec<Vec<u8>> = if a[2] == "-" { vec![] } else { a[2].split(',').filter_map(unhex).collect() };
                let n = qs.len();
                do_buffer(rep, lim, &buf, &qs, n, "replay");
            }
            ("scan", 2) => {} // re-created by the `finds` op of the same buffer
            _ => rep.note(&format!("replay: cannot re-run op {}", a[0])),
        }
    }
}

fn main() {
    let args = Args::parse();
    let mut rep = Report::new("C19", &args);
    let mut r = Rng::new(args.seed);
    let mut lim = Limits { per_class: Default::default() };
    if let Some(ops) = replay_ops(&args) {
        replay(&mut rep, &mut lim, &ops);
        rep.finish();
        return;
    }
    for (buf, qs) in corpus() {
        let n = qs.len();
        do_buffer(&mut rep, &mut lim, &buf, &qs, n, "corpus");
    }
    let n = args.budget(900, 12_000);
    for _ in 0..n {
        let (buf, mut qs, kind) = gen_buffer(&mut r);
        // the oracle sees every query; the model the first 24 of a shuffled list
        r.shuffle(&mut qs);
        let model_n = if buf.len() <= 1500 { 40 } else { 10 };
        do_buffer(&mut rep, &mut lim, &buf, &qs, model_n, &kind);
    }
    rep.finish();
}
