//! C38 — attribute values agree with `git check-attr`.
//!
//! Every scenario is a set of attribute files (a global file given as `core.attributesFile`,
//! `$GIT_DIR/info/attributes`, `.gitattributes` in the root and in sub-directories) written into a
//! scratch repository, plus queries `(path, is_dir, selection)`.
//!
//! * real code: `gix_worktree::Stack` (state `AttributesStack`, source `WorktreeThenIdMapping`)
//!   → `at_entry(path).matching_attributes(out)`, both on a fresh stack per query (the observation of
//!   the `attrs` operation the Lean model must reproduce) and on ONE stack shared by all queries of a
//!   scenario in random order (the usual way the API is used; outcome created before the first entry).
//! * oracle: `git check-attr -z [-a | names…] --stdin` of git 2.39.5 in the same directory.
//! * the matcher parameter of the Lean model is filled in from `gix_glob::Pattern::
//!   matches_repo_relative_path` for every pattern of every file in play (verdict table in the op).
//! * `parse` operations tie `gix_attributes::parse` + the lenient filtering of `bytes_to_patterns`.
use bstr::{BString, ByteSlice};
use gix_glob::pattern::Case;
use hcommon::*;
use std::path::{Path, PathBuf};

#[derive(Clone, Default)]
struct Scenario {
    icase: bool,
    global: Option<Vec<u8>>,
    info: Option<Vec<u8>>,
    /// (directory relative to the root, "" = root) → content of its `.gitattributes`
    dirs: Vec<(Vec<u8>, Vec<u8>)>,
    /// Some(reason): the scenario leaves the domain of the theorems (NUL bytes, malformed quotes …)
    outside: Option<&'static str>,
    /// fixed key for corpus scenarios (so that a known finding can name it)
    label: Option<&'static str>,
}

#[derive(Clone)]
struct Query {
    path: Vec<u8>,
    is_dir: bool,
    /// empty = all attributes
    sel: Vec<Vec<u8>>,
}

type Res = Vec<(Vec<u8>, String)>;

fn state_str(s: gix_attributes::StateRef<'_>) -> String {
    use gix_attributes::StateRef::*;
    match s {
        Set => "s".into(),
        Unset => "u".into(),
        Unspecified => "x".into(),
        Value(v) => format!("v{}", hex(v.as_bstr())),
    }
}

fn show(res: &Res, all: bool) -> String {
    if all {
        let mut xs: Vec<String> = res
            .iter()
            .filter(|(_, s)| s != "x")
            .map(|(n, s)| format!("{}:{}", hex(n), s))
            .collect();
        xs.sort();
        xs.dedup();
        if xs.is_empty() {
            "-".into()
        } else {
            xs.join(",")
        }
    } else {
        res.iter().map(|(n, s)| format!("{}:{}", hex(n), s)).collect::<Vec<_>>().join(",")
    }
}

struct Repo {
    root: PathBuf,
    global: Option<PathBuf>,
}

fn write_scenario(base: &Path, n: u64, scn: &Scenario) -> Repo {
    let root = base.join(format!("r{n}"));
    let _ = std::fs::remove_dir_all(&root);
    std::fs::create_dir_all(root.join(".git/info")).unwrap();
    // a minimal repository (cheaper than `git init`)
    std::fs::create_dir_all(root.join(".git/objects")).unwrap();
    std::fs::create_dir_all(root.join(".git/refs/heads")).unwrap();
    std::fs::write(root.join(".git/HEAD"), b"ref: refs/heads/main\n").unwrap();
    std::fs::write(
        root.join(".git/config"),
        b"[core]\n\trepositoryformatversion = 0\n\tfilemode = true\n\tbare = false\n",
    )
    .unwrap();
    if let Some(c) = &scn.info {
        std::fs::write(root.join(".git/info/attributes"), c).unwrap();
    }
    for (d, c) in &scn.dirs {
        let dir = if d.is_empty() {
            root.clone()
        } else {
            root.join(d.to_str().expect("utf8 dir"))
        };
        std::fs::create_dir_all(&dir).unwrap();
        std::fs::write(dir.join(".gitattributes"), c).unwrap();
    }
    let global = scn.global.as_ref().map(|c| {
        let p = base.join(format!("r{n}.global"));
        std::fs::write(&p, c).unwrap();
        p
    });
    Repo { root, global }
}

fn new_stack(repo: &Repo, scn: &Scenario) -> gix_worktree::Stack {
    let mut buf = Vec::new();
    let mut collection = gix_attributes::search::MetadataCollection::default();
    let globals =
        gix_attributes::Search::new_globals(repo.global.iter().cloned(), &mut buf, &mut collection).expect("globals");
    let state = gix_worktree::stack::State::AttributesStack(gix_worktree::stack::state::Attributes::new(
        globals,
        Some(repo.root.join(".git/info/attributes")),
        gix_worktree::stack::state::attributes::Source::WorktreeThenIdMapping,
        collection,
    ));
    gix_worktree::Stack::new(
        &repo.root,
        state,
        if scn.icase { Case::Fold } else { Case::Sensitive },
        buf,
        vec![],
    )
}

fn gix_query(
    stack: &mut gix_worktree::Stack,
    out: &mut gix_attributes::search::Outcome,
    q: &Query,
) -> Result<Res, String> {
    catch(|| {
        let mode = q.is_dir.then_some(gix_index::entry::Mode::DIR);
        let e = match stack.at_entry(q.path.as_bstr(), mode, &gix_object::find::Never) {
            Ok(e) => e,
            Err(_) => return Err("err".to_string()),
        };
        e.matching_attributes(out);
        let res: Res = if q.sel.is_empty() {
            out.iter()
                .map(|m| (m.assignment.name.as_str().as_bytes().to_vec(), state_str(m.assignment.state)))
                .collect()
        } else {
            // `iter_selected` yields one match per selected name, in order
            q.sel
                .iter()
                .zip(out.iter_selected())
                .map(|(n, m)| (n.clone(), state_str(m.assignment.state)))
                .collect()
        };
        Ok(res)
    })
    .unwrap_or_else(|_| Err("panic".into()))
}

fn new_outcome(stack: &gix_worktree::Stack, q: &Query) -> gix_attributes::search::Outcome {
    if q.sel.is_empty() {
        stack.attribute_matches()
    } else {
        stack.selected_attribute_matches(q.sel.iter().map(|n| std::str::from_utf8(n).expect("ascii names")))
    }
}

/// `git check-attr -z` for several paths with the same selection
fn git_query(repo: &Repo, scn: &Scenario, sel: &[Vec<u8>], queries: &[&Query]) -> Vec<Res> {
    let mut args: Vec<String> = Vec::new();
    if scn.icase {
        args.push("-c".into());
        args.push("core.ignorecase=true".into());
    }
    if let Some(g) = &repo.global {
        args.push("-c".into());
        args.push(format!("core.attributesFile={}", g.display()));
    }
    args.push("check-attr".into());
    args.push("-z".into());
    args.push("--stdin".into());
    if sel.is_empty() {
        args.push("-a".into());
    } else {
        for n in sel {
            args.push(String::from_utf8(n.clone()).expect("ascii names"));
        }
    }
    let mut stdin = Vec::new();
    for q in queries {
        stdin.extend_from_slice(&q.path);
        if q.is_dir {
            stdin.push(b'/');
        }
        stdin.push(0);
    }
    let a: Vec<&str> = args.iter().map(|s| s.as_str()).collect();
    let o = git(&repo.root, &a, Some(&stdin));
    if !o.ok {
        panic!("git check-attr failed: {}", String::from_utf8_lossy(&o.stderr));
    }
    // output: (path NUL attr NUL info NUL)*
    let fields: Vec<&[u8]> = o.stdout.split(|b| *b == 0).collect();
    let mut out: Vec<Res> = vec![Vec::new(); queries.len()];
    let mut i = 0;
    let mut qi = 0usize;
    if !sel.is_empty() {
        // exactly one record per selected attribute and query, in order
        for (qi, q) in queries.iter().enumerate() {
            for n in sel {
                assert!(i + 2 < fields.len(), "git check-attr printed too few records");
                let (p, a, v) = (fields[i], fields[i + 1], fields[i + 2]);
                i += 3;
                let mut want = q.path.clone();
                if q.is_dir {
                    want.push(b'/');
                }
                assert!(p == want.as_slice() && a == n.as_slice(), "unexpected record from git check-attr");
                out[qi].push((a.to_vec(), git_state(v)));
            }
        }
        return out;
    }
    while i + 2 < fields.len() {
        let (p, a, v) = (fields[i], fields[i + 1], fields[i + 2]);
        i += 3;
        // records come in query order; advance to the query this path belongs to
        let mut want = queries[qi].path.clone();
        if queries[qi].is_dir {
            want.push(b'/');
        }
        while p != want.as_slice() {
            qi += 1;
            assert!(qi < queries.len(), "git reported an unknown path {:?}", p.as_bstr());
            want = queries[qi].path.clone();
            if queries[qi].is_dir {
                want.push(b'/');
            }
        }
        out[qi].push((a.to_vec(), git_state(v)));
    }
    out
}

fn git_state(v: &[u8]) -> String {
    match v {
        b"set" => "s".to_string(),
        b"unset" => "u".to_string(),
        b"unspecified" => "x".to_string(),
        v => format!("v{}", hex(v)),
    }
}

/// the usable lines of a file as `Attributes::bytes_to_patterns` sees them
fn parse_obs(bytes: &[u8]) -> String {
    let r = catch(|| {
        let mut lines = Vec::new();
        for res in gix_attributes::parse(bytes) {
            let Ok((kind, iter, no)) = res else { continue };
            let asg: Result<Vec<_>, _> = iter.collect();
            let Ok(asg) = asg else { continue };
            let a = if asg.is_empty() {
                "-".to_string()
            } else {
                asg.iter()
                    .map(|a| format!("{}/{}", hex(a.name.as_str().as_bytes()), state_str(a.state)))
                    .collect::<Vec<_>>()
                    .join(",")
            };
            match kind {
                gix_attributes::parse::Kind::Pattern(p) => {
                    if p.is_negative() {
                        continue;
                    }
                    lines.push(format!(
                        "{no}:P:{}:{}:{}:{a}",
                        hex(&p.text),
                        p.mode.bits(),
                        p.first_wildcard_pos.map_or("n".to_string(), |n| n.to_string())
                    ));
                }
                gix_attributes::parse::Kind::Macro(n) => lines.push(format!("{no}:M:{}:{a}", hex(n.as_str().as_bytes()))),
            }
        }
        if lines.is_empty() {
            "-".to_string()
        } else {
            lines.join(";")
        }
    });
    r.unwrap_or_else(|_| "panic".into())
}

const BUILTIN: &[u8] = b"[attr]binary -diff -merge -text";

/// proper ancestor directories of a path, shallowest first
fn ancestors(path: &[u8]) -> Vec<Vec<u8>> {
    path.iter()
        .enumerate()
        .filter(|(_, b)| **b == b'/')
        .map(|(i, _)| path[..i].to_vec())
        .collect()
}

/// verdicts of the real matcher for every pattern of every list that can be consulted
fn verdicts(scn: &Scenario, q: &Query) -> Vec<String> {
    let case = if scn.icase { Case::Fold } else { Case::Sensitive };
    let mut lists: Vec<(Option<BString>, &[u8])> = vec![(None, BUILTIN)];
    if let Some(g) = &scn.global {
        lists.push((None, g));
    }
    if let Some(i) = &scn.info {
        lists.push((None, i));
    }
    let anc = ancestors(&q.path);
    for (d, c) in &scn.dirs {
        if d.is_empty() {
            lists.push((None, c));
        } else if anc.iter().any(|a| a == d) {
            let mut b = d.clone();
            b.push(b'/');
            lists.push((Some(b.into()), c));
        }
    }
    let mut out = Vec::new();
    let mut seen = std::collections::BTreeSet::new();
    let basename_pos = q.path.rfind_byte(b'/').map(|p| p + 1);
    for (base, bytes) in lists {
        let rel = match &base {
            None => Some((q.path.as_bstr(), basename_pos)),
            Some(b) => gix_glob::search::pattern::strip_base_handle_recompute_basename_pos(
                b.as_bstr(),
                q.path.as_bstr(),
                basename_pos,
                case,
            ),
        };
        let Some((rel, bpos)) = rel else { continue };
        let mut pats: Vec<gix_glob::Pattern> = gix_attributes::parse(bytes)
            .filter_map(|res| match res {
                Ok((gix_attributes::parse::Kind::Pattern(p), _, _)) => Some(p),
                _ => None,
            })
            .collect();
        // git reads a malformed quoted pattern as an unquoted one: the git side of the model needs the
        // matcher's verdict for that reading as well
        for line in bytes.split(|b| *b == b'\n') {
            let t = line.trim_start_with(|c| matches!(c, ' ' | '\t' | '\r'));
            if t.first() == Some(&b'"') && !well_quoted(t) {
                let end = t.iter().position(|b| matches!(b, b' ' | b'\t' | b'\r' | 0)).unwrap_or(t.len());
                pats.extend(gix_glob::Pattern::from_bytes(&t[..end]));
            }
        }
        for p in pats {
            let v = catch(|| {
                p.matches_repo_relative_path(
                    rel,
                    bpos,
                    Some(q.is_dir),
                    case,
                    gix_glob::wildmatch::Mode::NO_MATCH_SLASH_LITERAL,
                )
            });
            let v = match v {
                Ok(true) => "1",
                Ok(false) => "0",
                Err(_) => continue,
            };
            let e = format!("{} {} {} {}", hex(&p.text), p.mode.bits(), hex(rel), v);
            if seen.insert(e.clone()) {
                out.push(e);
            }
        }
    }
    out
}

fn op_of(scn: &Scenario, q: &Query) -> String {
    let sel = if q.sel.is_empty() {
        "*".to_string()
    } else {
        q.sel.iter().map(|n| hex(n)).collect::<Vec<_>>().join(",")
    };
    let mut s = format!("attrs {} {} {} {}", scn.icase as u8, q.is_dir as u8, hex(&q.path), sel);
    match &scn.global {
        Some(g) => s.push_str(&format!(" 1 {}", hex(g))),
        None => s.push_str(" 0"),
    }
    match &scn.info {
        Some(i) => s.push_str(&format!(" {}", hex(i))),
        None => s.push_str(" none"),
    }
    s.push_str(&format!(" {}", scn.dirs.len()));
    for (d, c) in &scn.dirs {
        s.push_str(&format!(" {} {}", hex(d), hex(c)));
    }
    let v = verdicts(scn, q);
    s.push_str(&format!(" {}", v.len()));
    for e in v {
        s.push(' ');
        s.push_str(&e);
    }
    s
}

fn scenario_of_op(op: &str) -> Option<(Scenario, Query)> {
    let a: Vec<&str> = op.split(' ').collect();
    if a.first() != Some(&"attrs") || a.len() < 8 {
        return None;
    }
    let mut scn = Scenario {
        icase: a[1] == "1",
        ..Default::default()
    };
    let sel = if a[4] == "*" {
        vec![]
    } else {
        a[4].split(',').map(unhex).collect::<Option<Vec<_>>>()?
    };
    let q = Query {
        path: unhex(a[3])?,
        is_dir: a[2] == "1",
        sel,
    };
    let mut i = 5;
    let ng: usize = a[i].parse().ok()?;
    i += 1;
    if ng > 1 {
        return None;
    }
    if ng == 1 {
        scn.global = Some(unhex(a[i])?);
        i += 1;
    }
    if a[i] != "none" {
        scn.info = Some(unhex(a[i])?);
    }
    i += 1;
    let nd: usize = a[i].parse().ok()?;
    i += 1;
    for _ in 0..nd {
        scn.dirs.push((unhex(a[i])?, unhex(a[i + 1])?));
        i += 2;
    }
    // a replayed scenario may lie outside the domain: recognise the classes the generator labels
    scn.outside = classify_outside(&scn);
    Some((scn, q))
}

fn files_of(scn: &Scenario) -> Vec<&Vec<u8>> {
    scn.global
        .iter()
        .chain(scn.info.iter())
        .chain(scn.dirs.iter().map(|(_, c)| c))
        .collect()
}

/// inputs outside the domain of the theorems (reported, not judged)
fn classify_outside(scn: &Scenario) -> Option<&'static str> {
    for f in files_of(scn) {
        if f.contains(&0) {
            return Some("NUL byte in an attributes file (git's C strings end there)");
        }
        for line in f.split(|b| *b == b'\n') {
            let t: &[u8] = {
                let mut l = line;
                while let Some((b, r)) = l.split_first() {
                    if matches!(b, b' ' | b'\t' | b'\r') {
                        l = r;
                    } else {
                        break;
                    }
                }
                l
            };
            if t.first() == Some(&b'"') && !well_quoted(t) {
                return Some("malformed quoted pattern (git falls back to the unquoted reading)");
            }
        }
    }
    None
}

/// does `t` (starting with `"`) unquote under git's rules, to a pattern that is not a macro?
fn well_quoted(t: &[u8]) -> bool {
    let mut i = 1;
    let mut out = Vec::new();
    loop {
        match t.get(i) {
            None => return false,
            Some(b'"') => break,
            Some(b'\\') => match t.get(i + 1) {
                Some(c) if b"abfnrtv\\\"".contains(c) => {
                    out.push(*c);
                    i += 2;
                }
                Some(c) if (b'0'..=b'3').contains(c) => {
                    let ok = t.get(i + 2).map_or(false, |d| (b'0'..=b'7').contains(d))
                        && t.get(i + 3).map_or(false, |d| (b'0'..=b'7').contains(d));
                    if !ok {
                        return false;
                    }
                    out.push(b'?');
                    i += 4;
                }
                _ => return false,
            },
            Some(c) => {
                out.push(*c);
                i += 1;
            }
        }
    }
    // a quoted `[attr]…` with blanks, or an empty / blank-only pattern, is read differently too
    !(out.starts_with(b"[attr]") || out.iter().all(|b| b.is_ascii_whitespace()))
}

struct Ctx {
    rep: Report,
    scratch: Scratch,
    n: u64,
}

impl Ctx {
    /// evaluate one scenario with its queries: correspondence cases + oracle
    fn run(&mut self, scn: &Scenario, queries: &[Query], rng: &mut Rng) {
        self.n += 1;
        let repo = write_scenario(&self.scratch.path, self.n, scn);
        // git, batched by selection
        let mut git_res: Vec<Option<Res>> = vec![None; queries.len()];
        let mut sels: Vec<Vec<Vec<u8>>> = Vec::new();
        for q in queries {
            if !sels.contains(&q.sel) {
                sels.push(q.sel.clone());
            }
        }
        for sel in &sels {
            let idx: Vec<usize> = (0..queries.len()).filter(|i| &queries[*i].sel == sel).collect();
            let qs: Vec<&Query> = idx.iter().map(|i| &queries[*i]).collect();
            let rs = git_query(&repo, scn, sel, &qs);
            self.rep.git_checked(qs.len() as u64);
            for (i, r) in idx.iter().zip(rs) {
                git_res[*i] = Some(r);
            }
        }
        // real code, fresh stack per query = the observation of the op
        for (i, q) in queries.iter().enumerate() {
            let all = q.sel.is_empty();
            let mut stack = new_stack(&repo, scn);
            let mut out = new_outcome(&stack, q);
            let gix = gix_query(&mut stack, &mut out, q);
            let gix_s = match &gix {
                Ok(r) => show(r, all),
                Err(e) => e.clone(),
            };
            let git_s = show(git_res[i].as_ref().unwrap(), all);
            let op = op_of(scn, q);
            let nontrivial = gix_s != "-" || git_s != "-";
            self.rep.case(&op, &format!("gix={gix_s} git={git_s}"), nontrivial);
            self.rep.oracle_checked();
            self.rep.bucket(if all { "query:all" } else { "query:selected" });
            if q.is_dir {
                self.rep.bucket("query:dir");
            }
            if gix_s != git_s {
                self.mismatch(scn, q, &op, &gix_s, &git_s, "fresh-stack");
            }
        }
        // real code, one stack shared by all queries (random order), outcomes created up front
        let mut stack = new_stack(&repo, scn);
        let mut outs: Vec<gix_attributes::search::Outcome> = queries.iter().map(|q| new_outcome(&stack, q)).collect();
        let mut order: Vec<usize> = (0..queries.len()).collect();
        rng.shuffle(&mut order);
        for i in order {
            let q = &queries[i];
            let all = q.sel.is_empty();
            let gix = gix_query(&mut stack, &mut outs[i], q);
            let gix_s = match &gix {
                Ok(r) => show(r, all),
                Err(e) => e.clone(),
            };
            let git_s = show(git_res[i].as_ref().unwrap(), all);
            self.rep.oracle_checked();
            if gix_s != git_s {
                let op = op_of(scn, q);
                self.mismatch(scn, q, &op, &gix_s, &git_s, "shared-stack");
            }
        }
        let _ = std::fs::remove_dir_all(&repo.root);
        if let Some(g) = &repo.global {
            let _ = std::fs::remove_file(g);
        }
    }

    fn mismatch(&mut self, scn: &Scenario, q: &Query, op: &str, gix: &str, git: &str, how: &str) {
        let detail = format!(
            "path {:?}{} sel {:?} ({how}): gitoxide reports [{gix}], git check-attr reports [{git}]; files: {}",
            q.path.as_bstr(),
            if q.is_dir { "/" } else { "" },
            q.sel.iter().map(|n| n.as_bstr().to_string()).collect::<Vec<_>>(),
            describe(scn)
        );
        if let Some(why) = scn.outside {
            self.rep.outside_domain(&format!("{why}: {detail}"));
            return;
        }
        let key = match scn.label {
            Some(l) => format!("{l} path={}", q.path.as_bstr()),
            None => format!("attrs {} path={}{}", files_key(scn), hex(&q.path), if q.is_dir { "/" } else { "" }),
        };
        self.rep.oracle_failure(&key, &detail, op);
    }
}

fn fnv64(bs: &[u8]) -> u64 {
    let mut h: u64 = 0xcbf29ce484222325;
    for b in bs {
        h ^= *b as u64;
        h = h.wrapping_mul(0x100000001b3);
    }
    h
}

fn files_key(scn: &Scenario) -> String {
    let mut all = Vec::new();
    all.push(scn.icase as u8);
    for f in scn.global.iter().chain(scn.info.iter()) {
        all.extend_from_slice(f);
        all.push(0xff);
    }
    for (d, c) in &scn.dirs {
        all.extend_from_slice(d);
        all.push(0xfe);
        all.extend_from_slice(c);
        all.push(0xff);
    }
    format!("files={:016x}", fnv64(&all))
}

fn describe(scn: &Scenario) -> String {
    let mut s = String::new();
    let short = |c: &Vec<u8>| {
        let mut t = format!("{:?}", c.as_bstr());
        if t.len() > 160 {
            t.truncate(160);
            t.push('…');
        }
        t
    };
    if let Some(g) = &scn.global {
        s.push_str(&format!("global={} ", short(g)));
    }
    if let Some(g) = &scn.info {
        s.push_str(&format!("info={} ", short(g)));
    }
    for (d, c) in &scn.dirs {
        s.push_str(&format!("{}/.gitattributes={} ", d.as_bstr(), short(c)));
    }
    if scn.icase {
        s.push_str("icase");
    }
    s
}

// ---------------------------------------------------------------------------------------------
// generators

const NAMES: &[&str] = &[
    "a", "b", "c", "text", "diff", "merge", "binary", "eol", "m1", "m2", "m3", "filter", "x-y", "A", "w.1_",
];
const VALUES: &[&str] = &["1", "lf", "crlf", "a=b", "", "x,y", "-", "!", "0", "tru\u{e9}"];
const PATTERNS: &[&str] = &[
    "*", "*.c", "*.txt", "a", "a/", "/a", "a/b", "a/*", "**/x", "d/*.c", "x", "f.c", "?.c", "[ab].c", "\\!x", "*.C",
    "a/b/", "/f.c", "b/f.c", "**", "a/**", "/*.c", "F.C", "\\#x", "#x", "[attr]", "\"q p\"", "\"*.c\"", "\"a/f.c\"",
    "\"\\146.c\"", "\"f\\056c\"", "q", "/d/", "e/f", "g.txt", "*/f.c", "a*", "f.?", "b",
];
const PATHS: &[&str] = &[
    "x", "f.c", "a", "a/x", "a/f.c", "a/b/f.c", "a/b", "d/f.c", "d/e/f/g.txt", "q p", "A/F.C", "F.C", "a/b/x", "d",
    "b/f.c", "#x", "!x", "a/b/c/d/e.c", "t", "r", "\"q",
];
const DIRS: &[&str] = &["a", "a/b", "d", "d/e", "A", "b"];
const SEPS: &[&str] = &[" ", "\t", "  ", " \t ", "\r "];

fn gen_token(r: &mut Rng, macros_ok: bool) -> Vec<u8> {
    let mut t = Vec::new();
    match r.below(10) {
        0 | 1 => t.push(b'-'),
        2 => t.push(b'!'),
        _ => {}
    }
    let name: &str = if r.chance(1, 25) {
        *r.pick(&["-x", "a%", "", "\u{e9}", "a\u{c}b", "a\u{b}b", "a\u{a0}b"])
    } else if macros_ok && r.chance(1, 3) {
        *r.pick(&["m1", "m2", "m3", "binary"])
    } else {
        *r.pick(NAMES)
    };
    t.extend_from_slice(name.as_bytes());
    if r.chance(1, 4) {
        t.push(b'=');
        t.extend_from_slice(r.pick(VALUES).as_bytes());
    }
    t
}

fn gen_line(r: &mut Rng, rep: &mut Report) -> Vec<u8> {
    let mut l = Vec::new();
    if r.chance(1, 8) {
        l.extend_from_slice(r.pick(SEPS).as_bytes());
    }
    match r.below(20) {
        0 => {
            rep.bucket("line:comment");
            l.extend_from_slice(b"# a comment b=c");
            return l;
        }
        1 => {
            rep.bucket("line:blank");
            return l;
        }
        2..=5 => {
            rep.bucket("line:macro");
            l.extend_from_slice(b"[attr]");
            let n: &str = if r.chance(1, 12) {
                *r.pick(&["", "-m", "m%", "binary"])
            } else {
                *r.pick(&["m1", "m2", "m3", "binary", "a", "text"])
            };
            l.extend_from_slice(n.as_bytes());
        }
        _ => {
            rep.bucket("line:pattern");
            if r.chance(1, 20) {
                l.push(b'!');
            }
            l.extend_from_slice(r.pick(PATTERNS).as_bytes());
        }
    }
    let n = match r.below(10) {
        0 => 0,
        1..=4 => 1,
        5..=7 => 2,
        _ => 3 + r.usize(3),
    };
    for _ in 0..n {
        l.extend_from_slice(r.pick(SEPS).as_bytes());
        l.extend_from_slice(&gen_token(r, true));
    }
    if r.chance(1, 6) {
        l.extend_from_slice(r.pick(SEPS).as_bytes());
    }
    l
}

fn gen_file(r: &mut Rng, rep: &mut Report) -> Vec<u8> {
    let mut f = Vec::new();
    if r.chance(1, 30) {
        rep.bucket("file:utf8-bom");
        f.extend_from_slice(&[0xef, 0xbb, 0xbf]);
    } else if r.chance(1, 60) {
        rep.bucket("file:other-bom");
        let boms: [&[u8]; 4] = [&[0xfe, 0xff], &[0xff, 0xfe], b"+/v8", b"+/v9"];
        let b: &[u8] = boms[r.usize(4)];
        f.extend_from_slice(b);
    }
    let n = 1 + r.usize(7);
    for i in 0..n {
        if r.chance(1, 120) {
            rep.bucket("line:overlong");
            // around git's ATTR_MAX_LINE_LENGTH
            let len = *r.pick(&[2046usize, 2047, 2048, 2049, 3000]);
            let tail = b" a b=1";
            let mut l = vec![b'*'; 1];
            l.extend(std::iter::repeat(b'?').take(len - 1 - tail.len()));
            l.extend_from_slice(tail);
            f.extend_from_slice(&l);
        } else {
            f.extend_from_slice(&gen_line(r, rep));
        }
        if i + 1 < n || r.chance(3, 4) {
            f.extend_from_slice(if r.chance(1, 8) { b"\r\n" } else { b"\n" });
        }
    }
    f
}

fn gen_sel(r: &mut Rng) -> Vec<Vec<u8>> {
    if r.chance(1, 2) {
        return vec![];
    }
    let n = 1 + r.usize(4);
    let mut sel: Vec<Vec<u8>> = Vec::new();
    for _ in 0..n {
        let name = if r.chance(1, 6) { "nowhere" } else { *r.pick(NAMES) };
        if !sel.iter().any(|s| s == name.as_bytes()) {
            sel.push(name.as_bytes().to_vec());
        }
    }
    sel
}

fn gen_scenario(r: &mut Rng, rep: &mut Report) -> (Scenario, Vec<Query>) {
    let mut scn = Scenario {
        icase: r.chance(1, 7),
        ..Default::default()
    };
    if r.chance(1, 3) {
        scn.global = Some(gen_file(r, rep));
        rep.bucket("file:global");
    }
    if r.chance(2, 5) {
        scn.info = Some(gen_file(r, rep));
        rep.bucket("file:info");
    }
    if r.chance(4, 5) {
        scn.dirs.push((vec![], gen_file(r, rep)));
        rep.bucket("file:root");
    }
    for d in DIRS {
        if r.chance(1, 3) {
            scn.dirs.push((d.as_bytes().to_vec(), gen_file(r, rep)));
            rep.bucket("file:subdir");
        }
    }
    if r.chance(1, 40) {
        // leave the domain on purpose: a NUL somewhere
        if let Some((_, c)) = scn.dirs.first_mut() {
            let at = r.usize(c.len() + 1);
            c.insert(at, 0);
        }
    }
    scn.outside = classify_outside(&scn);
    if scn.outside.is_some() {
        rep.bucket("scenario:outside-domain");
    }
    let nq = 4 + r.usize(6);
    let sels = [gen_sel(r), gen_sel(r)];
    let mut qs = Vec::new();
    for _ in 0..nq {
        let p = *r.pick(PATHS);
        let is_dir = DIRS.contains(&p) && r.chance(1, 2) || r.chance(1, 15);
        let sel = r.pick(&sels).clone();
        if qs.iter().any(|q: &Query| q.path == p.as_bytes() && q.is_dir == is_dir && q.sel == sel) {
            continue;
        }
        qs.push(Query {
            path: p.as_bytes().to_vec(),
            is_dir,
            sel,
        });
    }
    (scn, qs)
}

fn scn(label: &'static str, global: Option<&str>, info: Option<&str>, dirs: &[(&str, &str)]) -> Scenario {
    let mut s = Scenario {
        icase: false,
        global: global.map(|s| s.as_bytes().to_vec()),
        info: info.map(|s| s.as_bytes().to_vec()),
        dirs: dirs.iter().map(|(d, c)| (d.as_bytes().to_vec(), c.as_bytes().to_vec())).collect(),
        outside: None,
        label: Some(label),
    };
    s.outside = classify_outside(&s);
    s
}

fn q(path: &str, is_dir: bool, sel: &[&str]) -> Query {
    Query {
        path: path.as_bytes().to_vec(),
        is_dir,
        sel: sel.iter().map(|s| s.as_bytes().to_vec()).collect(),
    }
}

/// deterministic boundary scenarios (each is a rule of attr.c that is easy to get wrong)
fn corpus() -> Vec<(Scenario, Vec<Query>)> {
    let all = |ps: &[&str]| ps.iter().map(|p| q(p, false, &[])).collect::<Vec<_>>();
    vec![
        (
            scn("corpus:info-beats-subdir", None, Some("x who=info\n"), &[("", "x who=root\n"), ("a", "x who=sub\n")]),
            all(&["x", "a/x", "a/b/x"]),
        ),
        (
            scn(
                "corpus:macro-only-when-set",
                None,
                None,
                &[("", "*.c -binary\n*.d binary=foo\n*.f !binary\n*.g binary -binary\n*.h -binary binary\n*.i binary\n")],
            ),
            all(&["f.c", "f.d", "f.f", "f.g", "f.h", "f.i"]),
        ),
        (
            scn(
                "corpus:empty-attr-name",
                None,
                None,
                &[("", "*.e text -\n*.m = \n*.n ! a\n[attr]\n[attr] x\n*.l foo=\n")],
            ),
            all(&["f.e", "f.m", "f.n", "f.l", "a", "t", "r"]),
        ),
        (
            scn(
                "corpus:macro-order",
                None,
                None,
                &[("", "[attr]m1 a b=2\n*.i m1 !b\n*.j !b m1\n*.k -m1\n[attr]m2 m1 c\n[attr]m3 m3 m2\n*.l m3\n*.o a m3 -a\n")],
            ),
            all(&["f.i", "f.j", "f.k", "f.l", "f.o"]),
        ),
        (
            scn(
                "corpus:macro-redefinition",
                Some("[attr]m1 g\n[attr]binary\n*.p binary\n"),
                Some("[attr]m1 i\n*.y m1\n"),
                &[("", "[attr]m1 r1\n*.x m1\n[attr]m1 r2\n*.png binary\n"), ("a", "[attr]m1 sub\n[attr]m9 zz\n*.x m1 m9\n")],
            ),
            all(&["f.x", "f.y", "a/f.x", "f.png", "f.p"]),
        ),
        (
            scn("corpus:stale-macro-same-names", None, None, &[("", "[attr]binary -diff\n*.png binary\n")]),
            all(&["f.png"]),
        ),
        (
            scn("corpus:stale-macro-emptied", None, None, &[("", "[attr]binary\n*.png binary\n*.c newname\n")]),
            all(&["f.png", "f.c"]),
        ),
        (
            scn(
                "corpus:whitespace-kinds",
                None,
                None,
                &[("", "*.a a\u{c}b\n*.b a\u{b}b\n*.c a\u{a0}b c\n*.d\ta\t \tb\r\n  \t*.e  e\n*.f f\r")],
            ),
            all(&["f.a", "f.b", "f.c", "f.d", "f.e", "f.f"]),
        ),
        (
            scn("corpus:bom", None, Some("\u{feff}*.a a\n\u{feff}*.b b\n"), &[("", "+/v8x y\n+/v8 z\n")]),
            all(&["f.a", "f.b", "+/v8x", "x", "+/v8"]),
        ),
        (
            scn(
                "corpus:selection",
                None,
                None,
                &[("", "* a b c=1 -d !e\n*.c -a binary\n"), ("a", "*.c a=2 !c\n")],
            ),
            vec![
                q("f.c", false, &["a", "b", "c", "d", "e", "nowhere"]),
                q("a/f.c", false, &["c", "a", "text", "binary"]),
                q("a/f.c", false, &["nowhere"]),
                q("a", true, &["a"]),
                q("x", false, &[]),
            ],
        ),
        (
            scn("corpus:dirs", None, None, &[("", "a/ isdir\na notdironly\n/a/b/ deep\nb/ never\n"), ("a", "b/ sub\n/b abs\n")]),
            vec![q("a", true, &[]), q("a", false, &[]), q("a/b", true, &[]), q("a/b", false, &[]), q("b", false, &[])],
        ),
        (
            scn(
                "corpus:quoted",
                None,
                None,
                &[("", "\"q p\" a\n\"f\\056c\"b -c\n\"\\\"q\" d\n\"a/f.c\" e=\"1\"\n")],
            ),
            all(&["q p", "f.c", "\"q", "a/f.c"]),
        ),
        // known findings (see known-findings.txt): malformed quoting is read differently
        (
            scn("corpus:unterminated-quote", None, None, &[("", "\"abc q=1\n")]),
            all(&["\"abc", "abc q=1"]),
        ),
        (
            scn("corpus:invalid-escape-in-quote", None, None, &[("", "\"\\!x\" q=1\n")]),
            all(&["\"!x\"", "!x"]),
        ),
        // round 2: quoted macro definitions (proved equal unless an escape/blank gets into the name) and NUL
        (
            scn("corpus:quoted-macro", None, None, &[("", "\"[attr]qm\" a -b\n\"[attr]q\\055m\"\tc\n*.x qm q-m\n")]),
            all(&["f.x"]),
        ),
        (
            scn("corpus:quoted-macro-blank", None, None, &[("", "\"[attr] sp x\" c\n*.x sp\n")]),
            all(&["f.x"]),
        ),
        (
            scn("corpus:nul", None, None, &[("", "*.x a b\0c\n*.y\0z d\n*.y e\n")]),
            all(&["f.x", "f.y"]),
        ),
    ]
}

fn main() {
    let args = Args::parse();
    let mut cx = Ctx {
        rep: Report::new("C38", &args),
        scratch: Scratch::new("c38"),
        n: 0,
    };
    let mut r = Rng::new(args.seed);
    if let Some(ops) = replay_ops(&args) {
        for op in ops {
            if let Some(h) = op.strip_prefix("parse ") {
                if let Some(bytes) = unhex(h) {
                    cx.rep.case(&op, &parse_obs(&bytes), true);
                }
            } else if let Some((scn, q)) = scenario_of_op(&op) {
                cx.run(&scn, &[q], &mut r);
            }
        }
        cx.rep.finish();
        return;
    }
    let mut parsed = std::collections::BTreeSet::new();
    let mut parse_case = |rep: &mut Report, scn: &Scenario| {
        for f in files_of(scn) {
            if parsed.insert(fnv64(f)) {
                rep.case(&format!("parse {}", hex(f)), &parse_obs(f), !f.is_empty());
            }
        }
    };
    for (mut scn, qs) in corpus() {
        // the two malformed-quote scenarios are judged although they are "outside": they are the
        // recorded known findings
        if matches!(
            scn.label,
            Some(
                "corpus:unterminated-quote"
                    | "corpus:invalid-escape-in-quote"
                    | "corpus:quoted-macro"
                    | "corpus:quoted-macro-blank"
                    | "corpus:nul"
            )
        ) {
            scn.outside = None;
        }
        cx.rep.bucket("scenario:corpus");
        parse_case(&mut cx.rep, &scn);
        cx.run(&scn, &qs, &mut r);
    }
    let n = args.budget(110, 900);
    for _ in 0..n {
        let (scn, qs) = gen_scenario(&mut r, &mut cx.rep);
        cx.rep.bucket("scenario:random");
        parse_case(&mut cx.rep, &scn);
        cx.run(&scn, &qs, &mut r);
    }
    cx.rep.finish();
}
