//! C07 — pack entry headers (`Header::write_to/size`, `Entry::from_bytes/from_read`), the offset
//! varint (`leb64*`) and delta application (`delta::{decode_header_size, apply}` reached through
//! `data::File::decode_entry`). Ops (one per line, replayable):
//!
//!   hdr <commit|tree|blob|tag|ofs|ref> <size> <base>   write_to + size(); base = distance | 40-hex id | -
//!   hdrdec <bytes>                                     from_bytes and from_read on arbitrary bytes
//!   lebdec <bytes>                                     gix_features::decode::{leb64, leb64_from_read}
//!   applyx <base> <delta> [<expect>]                   a one-entry pack (ref-delta) whose base is handed in by the
//!                                                      `resolve` callback (`ResolvedBase::OutOfPack`, as for thin packs)
//!   apply <base> <delta> [<expect>]                    a two-entry pack (blob base, ofs-delta) decoded with
//!                                                      decode_entry; <expect> = rendering of the target the
//!                                                      delta must produce (`*` = none)
//!
//! <bytes> = `+`-joined parts: hex | `-` | `x<count>:<hexpattern>`
use gix_pack::data::entry::Header;
use hcommon::*;
use std::io::Write;

fn fnv64(bs: &[u8]) -> u64 {
    let mut h: u64 = 0xcbf29ce484222325;
    for b in bs {
        h ^= *b as u64;
        h = h.wrapping_mul(0x100000001b3);
    }
    h
}

fn bobs(bs: &[u8]) -> String {
    if bs.len() <= 64 {
        hex(bs)
    } else {
        format!("{}:{:016x}", bs.len(), fnv64(bs))
    }
}

fn parse_part(s: &str) -> Option<Vec<u8>> {
    if let Some(rest) = s.strip_prefix('x') {
        let (n, pat) = rest.split_once(':')?;
        let n: usize = n.parse().ok()?;
        let pat = unhex(pat)?;
        if pat.is_empty() {
            return None;
        }
        return Some((0..n).map(|i| pat[i % pat.len()]).collect());
    }
    unhex(s)
}

fn parse_bytes(s: &str) -> Option<Vec<u8>> {
    let mut v = Vec::new();
    for p in s.split('+') {
        v.extend(parse_part(p)?);
    }
    Some(v)
}

/// op text for a byte string: hex, or the compact form when it is one repeated pattern
fn bytes_text(b: &[u8]) -> String {
    hex(b)
}

fn header_obs(h: &Header) -> String {
    match h {
        Header::Commit => "commit".into(),
        Header::Tree => "tree".into(),
        Header::Blob => "blob".into(),
        Header::Tag => "tag".into(),
        Header::OfsDelta { base_distance } => format!("ofs:{base_distance}"),
        Header::RefDelta { base_id } => format!("ref:{}", hex(base_id.as_bytes())),
    }
}

fn parse_header(kind: &str, base: &str) -> Option<Header> {
    Some(match kind {
        "commit" => Header::Commit,
        "tree" => Header::Tree,
        "blob" => Header::Blob,
        "tag" => Header::Tag,
        "ofs" => Header::OfsDelta {
            base_distance: base.parse().ok()?,
        },
        "ref" => {
            let b = unhex(base)?;
            if b.len() != 20 {
                return None;
            }
            Header::RefDelta {
                base_id: gix_hash::ObjectId::from_bytes_or_panic(&b),
            }
        }
        _ => return None,
    })
}

fn size_class(n: u64) -> String {
    if n == 0 {
        return "0".into();
    }
    let bits = 64 - n.leading_zeros();
    let groups = if bits <= 4 { 0 } else { (bits - 4 + 6) / 7 };
    format!("{}B", 1 + groups)
}

fn dist_class(n: u64) -> String {
    // bytes needed by the offset encoding
    let mut k = 1;
    let mut m = n >> 7;
    while m != 0 {
        m -= 1;
        m >>= 7;
        k += 1;
    }
    format!("{k}B")
}

fn op_hdr(rep: &mut Report, op: &str, h: Header, size: u64) {
    let mut out = Vec::new();
    let r = catch(|| {
        let w = h.write_to(size, &mut out).expect("vec write");
        (w, h.size(size))
    });
    let obs = match &r {
        Ok((w, sz)) => format!("w={w} size={sz} {}", hex(&out)),
        Err(_) => "panic".to_string(),
    };
    rep.case(op, &obs, true);
    rep.bucket(&format!(
        "hdr:{}:size{}{}",
        header_obs(&h).split(':').next().unwrap(),
        size_class(size),
        match h {
            Header::OfsDelta { base_distance } => format!(":dist{}", dist_class(base_distance)),
            _ => String::new(),
        }
    ));
    rep.oracle_checked();
    let key = format!("hdr-roundtrip {} size={size}", header_obs(&h));
    let Ok((w, sz)) = r else {
        rep.oracle_failure(&format!("hdr-write-panic {} size={size}", header_obs(&h)), "Header::write_to panicked", op);
        return;
    };
    // git's numbering of entry types (pack-format.txt): commit 1, tree 2, blob 3, tag 4, ofs-delta 6, ref-delta 7
    let git_type = match h {
        Header::Commit => 1,
        Header::Tree => 2,
        Header::Blob => 3,
        Header::Tag => 4,
        Header::OfsDelta { .. } => 6,
        Header::RefDelta { .. } => 7,
    };
    if out.first().map(|b| (b >> 4) & 7) != Some(git_type) {
        rep.oracle_failure(
            &format!("hdr-type {}", header_obs(&h).split(':').next().unwrap()),
            &format!("first header byte {:02x} does not carry git's type id {git_type}", out.first().copied().unwrap_or(0)),
            op,
        );
    }
    if w != out.len() || sz != out.len() {
        rep.oracle_failure(&key, &format!("write_to returned {w}, size() {sz}, but {} bytes were written", out.len()), op);
    }
    // decode from memory and from a stream, followed by other data
    let mut with_rest = out.clone();
    with_rest.extend_from_slice(&[0x78, 0x9c, 0xff, 0x80, 0x00]);
    let pack_offset = 1000u64;
    match catch(|| gix_pack::data::Entry::from_bytes(&with_rest, pack_offset, 20)) {
        Ok(Ok(e)) if e.header == h && e.decompressed_size == size && e.data_offset == pack_offset + out.len() as u64 => {}
        other => rep.oracle_failure(
            &key,
            &format!("from_bytes(write_to(h)) = {:?}, expected {h:?} size {size} consuming {}", other.map(|r| r.map_err(|e| e.to_string())), out.len()),
            op,
        ),
    }
    let mut rd = &with_rest[..];
    match catch(|| gix_pack::data::Entry::from_read(&mut rd, pack_offset, 20)) {
        Ok(Ok(e)) if e.header == h && e.decompressed_size == size && e.data_offset == pack_offset + out.len() as u64 && rd.len() == 5 => {}
        other => rep.oracle_failure(
            &key,
            &format!("from_read(write_to(h)) = {:?} leaving {} bytes, expected {h:?} size {size} leaving 5", other.map(|r| r.map_err(|e| e.to_string())), rd.len()),
            op,
        ),
    }
    if let Header::OfsDelta { base_distance } = h {
        // the distance part alone through the public varint decoders
        let hdr_len = 1 + {
            let mut s = size >> 4;
            let mut k = 0;
            while s != 0 {
                k += 1;
                s >>= 7;
            }
            k
        };
        let leb = &out[hdr_len..];
        let mem = catch(|| gix_features::decode::leb64(leb));
        let mut r2 = leb;
        let st = catch(|| gix_features::decode::leb64_from_read(&mut r2));
        if !matches!(mem, Ok((v, n)) if v == base_distance && n == leb.len()) || !matches!(st, Ok(Ok((v, n))) if v == base_distance && n == leb.len()) || leb.len() > 10 {
            rep.oracle_failure(&format!("leb64-roundtrip {base_distance}"), &format!("leb64(encode(n)) = {mem:?} / {:?}", st.map(|r| r.ok())), op);
        }
    }
}

fn op_hdrdec(rep: &mut Report, op: &str, d: &[u8]) {
    let mem = match catch(|| gix_pack::data::Entry::from_bytes(d, 0, 20)) {
        Err(_) => "panic".to_string(),
        Ok(Err(e)) => format!("err:type:{}", e.type_id),
        Ok(Ok(e)) => format!("ok:{}:{}:{}", header_obs(&e.header), e.decompressed_size, e.data_offset),
    };
    let mut rd = d;
    let st = match catch(|| gix_pack::data::Entry::from_read(&mut rd, 0, 20)) {
        Err(_) => "panic".to_string(),
        Ok(Err(e)) if e.kind() == std::io::ErrorKind::UnexpectedEof => "io".into(),
        Ok(Err(e)) if e.kind() == std::io::ErrorKind::InvalidData => "err:toolong".into(),
        Ok(Err(e)) => {
            let s = e.to_string();
            match s.strip_prefix("Object type ").and_then(|r| r.split(' ').next()) {
                Some(n) => format!("err:type:{n}"),
                None => format!("err:{s}"),
            }
        }
        Ok(Ok(e)) => format!("ok:{}:{}:{}:left={}", header_obs(&e.header), e.decompressed_size, e.data_offset, rd.len()),
    };
    rep.case(op, &format!("mem={mem} stream={st}"), true);
    rep.bucket(&format!("hdrdec:{}:{}", mem.split(':').next().unwrap(), st.split(':').next().unwrap()));
    rep.oracle_checked();
    // both decoders agree whenever both succeed
    if mem.starts_with("ok:") && st.starts_with("ok:") && !st.starts_with(&format!("{mem}:left=")) {
        rep.oracle_failure(&format!("hdrdec-mem-vs-stream {}", bobs(d)), &format!("from_bytes: {mem}, from_read: {st}"), op);
    }
    if mem == "panic" || st == "panic" {
        rep.outside_domain("from_bytes/from_read panic on truncated or non-canonical headers (documented for from_bytes; arithmetic overflow checks in debug builds)");
    }
}

fn op_lebdec(rep: &mut Report, op: &str, d: &[u8]) {
    let mem = match catch(|| gix_features::decode::leb64(d)) {
        Err(_) => "panic".to_string(),
        Ok((v, i)) => format!("ok:{v}:{i}"),
    };
    let mut rd = d;
    let st = match catch(|| gix_features::decode::leb64_from_read(&mut rd)) {
        Err(_) => "panic".to_string(),
        Ok(Err(e)) if e.kind() == std::io::ErrorKind::InvalidData => "err:toolong".into(),
        Ok(Err(_)) => "io".into(),
        Ok(Ok((v, i))) => format!("ok:{v}:{i}:left={}", rd.len()),
    };
    rep.case(op, &format!("mem={mem} stream={st}"), true);
    rep.bucket(&format!("lebdec:{}:{}", mem.split(':').next().unwrap(), st.split(':').next().unwrap()));
    if mem.starts_with("ok:") && st.starts_with("ok:") && !st.starts_with(&format!("{mem}:left=")) {
        rep.oracle_failure(&format!("lebdec-mem-vs-stream {}", bobs(d)), &format!("leb64: {mem}, leb64_from_read: {st}"), op);
    }
}

fn deflate(data: &[u8]) -> Vec<u8> {
    let mut w = gix_features::zlib::stream::deflate::Write::new(Vec::new());
    w.write_all(data).expect("compress");
    w.flush().expect("finish");
    w.into_inner()
}

/// `PACK` v2 with two entries: a blob holding `base`, and an ofs-delta on it holding `delta`.
/// Returns the pack bytes and the offset of the delta entry.
fn synth_pack(base: &[u8], delta: &[u8]) -> (Vec<u8>, u64) {
    let mut out = gix_pack::data::header::encode(gix_pack::data::Version::V2, 2).to_vec();
    let base_ofs = out.len() as u64;
    Header::Blob.write_to(base.len() as u64, &mut out).expect("vec");
    out.extend(deflate(base));
    let delta_ofs = out.len() as u64;
    Header::OfsDelta {
        base_distance: delta_ofs - base_ofs,
    }
    .write_to(delta.len() as u64, &mut out)
    .expect("vec");
    out.extend(deflate(delta));
    out.extend([0u8; 20]);
    (out, delta_ofs)
}

/// `PACK` v2 with one entry: a ref-delta holding `delta` whose base is not in the pack
fn synth_thin_pack(delta: &[u8]) -> (Vec<u8>, u64) {
    let mut out = gix_pack::data::header::encode(gix_pack::data::Version::V2, 1).to_vec();
    let ofs = out.len() as u64;
    Header::RefDelta {
        base_id: gix_hash::ObjectId::from_bytes_or_panic(&[0x11; 20]),
    }
    .write_to(delta.len() as u64, &mut out)
    .expect("vec");
    out.extend(deflate(delta));
    out.extend([0u8; 20]);
    (out, ofs)
}

fn decode_thin(path: &std::path::Path, offset: u64, base: Vec<u8>) -> Result<Result<Vec<u8>, String>, String> {
    let path = path.to_owned();
    match with_deadline(std::time::Duration::from_secs(20), move || -> Result<Vec<u8>, String> {
        let pack = gix_pack::data::File::at(&path, gix_hash::Kind::Sha1).map_err(|e| e.to_string())?;
        let entry = pack.entry(offset).map_err(|e| e.to_string())?;
        let mut out = Vec::new();
        let mut inflate = gix_features::zlib::Inflate::default();
        let resolve = |_id: &gix_hash::oid, out: &mut Vec<u8>| {
            out.clear();
            out.extend_from_slice(&base);
            Some(gix_pack::data::decode::entry::ResolvedBase::OutOfPack {
                kind: gix_object::Kind::Blob,
                end: base.len(),
            })
        };
        pack.decode_entry(entry, &mut out, &mut inflate, &resolve, &mut gix_pack::cache::Never)
            .map_err(|e| e.to_string())?;
        Ok(out)
    }) {
        Some(r) => r,
        None => Err("no answer within 20 s (hang)".into()),
    }
}

/// `Err` = panic or no answer within the deadline (a hang)
fn decode_in_pack(path: &std::path::Path, offset: u64) -> Result<Result<Vec<u8>, String>, String> {
    let path = path.to_owned();
    match with_deadline(std::time::Duration::from_secs(20), move || -> Result<Vec<u8>, String> {
        let pack = gix_pack::data::File::at(&path, gix_hash::Kind::Sha1).map_err(|e| e.to_string())?;
        let entry = pack.entry(offset).map_err(|e| e.to_string())?;
        let mut out = Vec::new();
        let mut inflate = gix_features::zlib::Inflate::default();
        pack.decode_entry(entry, &mut out, &mut inflate, &|_, _| None, &mut gix_pack::cache::Never)
            .map_err(|e| e.to_string())?;
        Ok(out)
    }) {
        Some(r) => r,
        None => Err("no answer within 20 s (hang)".into()),
    }
}

struct EntryInfo {
    kind: String,
    object_kind: Option<String>,
    is_delta: bool,
    obj: Result<Vec<u8>, String>,
    raw_delta: Vec<u8>,
    base: Vec<u8>,
}

/// everything the git-pack pass wants to know about the entry at `offset` (runs on its own thread)
fn inspect_entry(pack_path: &std::path::Path, idx_path: &std::path::Path, offset: u64) -> EntryInfo {
    let pack = gix_pack::data::File::at(pack_path, gix_hash::Kind::Sha1).expect("open pack");
    let index = gix_pack::index::File::at(idx_path, gix_hash::Kind::Sha1).expect("open idx");
    let entry = pack.entry(offset).expect("entry");
    let mut inflate = gix_features::zlib::Inflate::default();
    let resolve = |id: &gix_hash::oid, _out: &mut Vec<u8>| {
        index
            .lookup(id)
            .map(|i| gix_pack::data::decode::entry::ResolvedBase::InPack(pack.entry(index.pack_offset_at_index(i)).expect("base entry")))
    };
    let mut obj = Vec::new();
    let r = pack
        .decode_entry(entry.clone(), &mut obj, &mut inflate, &resolve, &mut gix_pack::cache::Never)
        .map_err(|e| e.to_string());
    let object_kind = r.as_ref().ok().map(|o| String::from_utf8_lossy(o.kind.as_bytes()).to_string());
    let r = r.map(|_| ());
    let mut info = EntryInfo {
        kind: header_obs(&entry.header).split(':').next().unwrap().to_string(),
        object_kind,
        is_delta: entry.header.is_delta(),
        obj: r.map(|_| obj),
        raw_delta: Vec::new(),
        base: Vec::new(),
    };
    if entry.header.is_delta() {
        let mut raw = vec![0u8; entry.decompressed_size as usize];
        pack.decompress_entry(&entry, &mut inflate, &mut raw).expect("inflate delta");
        let base_entry = match entry.header {
            Header::OfsDelta { base_distance } => pack.entry(entry.base_pack_offset(base_distance)).expect("base"),
            Header::RefDelta { base_id } => pack
                .entry(index.pack_offset_at_index(index.lookup(base_id).expect("base in pack")))
                .expect("base"),
            _ => unreachable!(),
        };
        let mut base = Vec::new();
        pack.decode_entry(base_entry, &mut base, &mut inflate, &resolve, &mut gix_pack::cache::Never)
            .expect("decode base");
        info.raw_delta = raw;
        info.base = base;
    }
    info
}

/// the base size a delta declares, read the way `decode_header_size` reads it (the loop also ends
/// at the end of the data); `None` when that function would hit its shift overflow
fn declared_base(delta: &[u8]) -> Option<u64> {
    let mut v: u64 = 0;
    let mut shift = 0u32;
    for b in delta {
        if shift >= 64 {
            return None;
        }
        v |= u64::from(b & 0x7f) << shift;
        shift += 7;
        if b & 0x80 == 0 {
            break;
        }
    }
    Some(v)
}

/// both declared sizes, for complete headers only
fn declared_sizes(delta: &[u8]) -> Option<(u64, u64)> {
    let mut pos = 0;
    let mut rd = || -> Option<u64> {
        let mut v: u64 = 0;
        let mut shift = 0;
        loop {
            let b = *delta.get(pos)?;
            pos += 1;
            if shift >= 64 {
                return None;
            }
            v |= u64::from(b & 0x7f) << shift;
            shift += 7;
            if b & 0x80 == 0 {
                return Some(v);
            }
        }
    };
    let a = rd()?;
    let b = rd()?;
    Some((a, b))
}

fn op_apply(rep: &mut Report, scratch: &Scratch, op: &str, base: &[u8], delta: &[u8], expect: Option<&str>) {
    if delta.is_empty() {
        rep.note("apply with an empty delta skipped (a pack entry of size 0 cannot be a delta)");
        return;
    }
    if let Some(bs) = declared_base(delta) {
        if bs != base.len() as u64 {
            // resolve_deltas sizes its buffers by the declared value: stale bytes are read or the
            // base does not fit — not a function of (base, delta) alone; git rejects such deltas
            rep.case(op, "outside", false);
            rep.outside_domain("delta declares a base size different from the size of its base");
            return;
        }
    }
    let (pack, ofs) = synth_pack(base, delta);
    // a fresh file every time: a hung decoder thread may still have an older one mapped
    static N: std::sync::atomic::AtomicU64 = std::sync::atomic::AtomicU64::new(0);
    let path = scratch.join(format!("synth-{}.pack", N.fetch_add(1, std::sync::atomic::Ordering::Relaxed)));
    std::fs::write(&path, &pack).expect("write pack");
    let r = decode_in_pack(&path, ofs);
    if !matches!(&r, Err(m) if m.contains("hang")) {
        let _ = std::fs::remove_file(&path);
    }
    let obs = match &r {
        Err(_) => "panic".to_string(),
        Ok(Err(e)) => format!("err:{}", e.split(':').next().unwrap_or("")),
        Ok(Ok(t)) => format!("ok {}", bobs(t)),
    };
    if let (Err(msg), true) = (&r, std::env::var("C07_DEBUG").is_ok()) {
        eprintln!("{op}: panic: {msg}");
    }
    rep.case(op, &obs, true);
    rep.bucket(&format!(
        "apply:{}:{}",
        obs.split([' ', ':']).next().unwrap(),
        match expect {
            Some(_) => "wellformed",
            None => "unchecked",
        }
    ));
    if let Some(want) = expect {
        rep.oracle_checked();
        if obs != format!("ok {want}") {
            rep.oracle_failure(
                &format!("delta-apply {}", bobs(delta)),
                &format!("applying the delta to its base gives [{obs}], the target is [{want}]"),
                op,
            );
        }
    }
}

fn op_applyx(rep: &mut Report, scratch: &Scratch, op: &str, base: &[u8], delta: &[u8], expect: Option<&str>) {
    if delta.is_empty() {
        rep.note("applyx with an empty delta skipped");
        return;
    }
    if let Some(bs) = declared_base(delta) {
        if bs > base.len() as u64 {
            // bytes behind the base are leftovers of the instructions: not a function of (base, delta)
            rep.case(op, "outside", false);
            rep.outside_domain("thin delta declares a base size larger than its base");
            return;
        }
    }
    let (pack, ofs) = synth_thin_pack(delta);
    static N: std::sync::atomic::AtomicU64 = std::sync::atomic::AtomicU64::new(0);
    let path = scratch.join(format!("thin-{}.pack", N.fetch_add(1, std::sync::atomic::Ordering::Relaxed)));
    std::fs::write(&path, &pack).expect("write pack");
    let r = decode_thin(&path, ofs, base.to_vec());
    if !matches!(&r, Err(m) if m.contains("hang")) {
        let _ = std::fs::remove_file(&path);
    }
    let obs = match &r {
        Err(_) => "panic".to_string(),
        Ok(Err(e)) => format!("err:{}", e.split(':').next().unwrap_or("")),
        Ok(Ok(t)) => format!("ok {}", bobs(t)),
    };
    if let (Err(msg), true) = (&r, std::env::var("C07_DEBUG").is_ok()) {
        eprintln!("{op}: panic: {msg}");
    }
    rep.case(op, &obs, true);
    let big_base = declared_sizes(delta).map(|(a, b)| base.len() as u64 > 2 * a.max(b)).unwrap_or(false);
    rep.bucket(&format!(
        "applyx:{}:{}{}",
        obs.split([' ', ':']).next().unwrap(),
        if expect.is_some() { "wellformed" } else { "unchecked" },
        if big_base { ":base>2*sizes" } else { "" }
    ));
    if let Some(want) = expect {
        rep.oracle_checked();
        if obs != format!("ok {want}") {
            rep.oracle_failure(
                &format!("thin-delta-apply {}", bobs(delta)),
                &format!("applying the delta to its out-of-pack base gives [{obs}], the target is [{want}]"),
                op,
            );
        }
    }
}

fn run_op(rep: &mut Report, scratch: &Scratch, op: &str) {
    let a: Vec<&str> = op.split(' ').collect();
    let ok = (|| -> Option<()> {
        match (a[0], a.len()) {
            ("hdr", 4) => op_hdr(rep, op, parse_header(a[1], a[3])?, a[2].parse().ok()?),
            ("hdrdec", 2) => op_hdrdec(rep, op, &parse_bytes(a[1])?),
            ("lebdec", 2) => op_lebdec(rep, op, &parse_bytes(a[1])?),
            ("applyx", 3) => op_applyx(rep, scratch, op, &parse_bytes(a[1])?, &parse_bytes(a[2])?, None),
            ("applyx", 4) => op_applyx(
                rep,
                scratch,
                op,
                &parse_bytes(a[1])?,
                &parse_bytes(a[2])?,
                if a[3] == "*" { None } else { Some(a[3]) },
            ),
            ("apply", 3) => op_apply(rep, scratch, op, &parse_bytes(a[1])?, &parse_bytes(a[2])?, None),
            ("apply", 4) => op_apply(
                rep,
                scratch,
                op,
                &parse_bytes(a[1])?,
                &parse_bytes(a[2])?,
                if a[3] == "*" { None } else { Some(a[3]) },
            ),
            _ => return None,
        }
        Some(())
    })();
    if ok.is_none() {
        rep.note(&format!("malformed op skipped: {}", &op[..op.len().min(80)]));
    }
}

// ---------------------------------------------------------------------------------------------
// synthetic deltas

#[derive(Clone, Debug)]
enum Instr {
    Copy { ofs: u32, len: u32, extra_mask: u8 },
    Insert(Vec<u8>),
}

fn size_varint(mut n: u64, out: &mut Vec<u8>) {
    loop {
        let b = (n & 0x7f) as u8;
        n >>= 7;
        if n == 0 {
            out.push(b);
            return;
        }
        out.push(b | 0x80);
    }
}

/// git's byte layout (diff-delta.c / patch-delta.c): offset and size bytes are present iff their
/// flag bit is set; git sets the bit iff the byte is non-zero, `extra_mask` sets more of them;
/// a size of 0x10000 is written as 0.
fn encode_instrs(instrs: &[Instr], out: &mut Vec<u8>) {
    for i in instrs {
        match i {
            Instr::Insert(b) => {
                out.push(b.len() as u8);
                out.extend_from_slice(b);
            }
            Instr::Copy { ofs, len, extra_mask } => {
                let size_field = if *len == 0x10000 { 0 } else { *len };
                let mut cmd = 0x80u8;
                let mut args = Vec::new();
                for k in 0..4 {
                    let b = (ofs >> (8 * k)) as u8;
                    if b != 0 || extra_mask & (1 << k) != 0 {
                        cmd |= 1 << k;
                        args.push(b);
                    }
                }
                for k in 0..3 {
                    let b = (size_field >> (8 * k)) as u8;
                    if b != 0 || extra_mask & (1 << (4 + k)) != 0 {
                        cmd |= 1 << (4 + k);
                        args.push(b);
                    }
                }
                out.push(cmd);
                out.extend(args);
            }
        }
    }
}

fn semantics(base: &[u8], instrs: &[Instr]) -> Vec<u8> {
    let mut t = Vec::new();
    for i in instrs {
        match i {
            Instr::Insert(b) => t.extend_from_slice(b),
            Instr::Copy { ofs, len, .. } => t.extend_from_slice(&base[*ofs as usize..(*ofs + *len) as usize]),
        }
    }
    t
}

fn gen_instrs(r: &mut Rng, base_len: usize) -> Vec<Instr> {
    let n = match r.below(6) {
        0 => 0,
        1 => 1,
        _ => 1 + r.usize(8),
    };
    let mut v = Vec::new();
    for _ in 0..n {
        if base_len > 0 && r.chance(3, 5) {
            let len = match r.below(8) {
                0 => 1,
                1 if base_len >= 0x10000 => 0x10000,
                2 if base_len >= 0x10001 => 0x10001.min(base_len),
                3 => *r.pick(&[255usize, 256, 257, 0xff00, 0xffff]),
                _ => 1 + r.usize(base_len.min(700)),
            }
            .min(base_len)
            .min(0xff_ffff);
            let max_ofs = base_len - len;
            let ofs = match r.below(6) {
                0 => 0,
                1 => max_ofs,
                2 => *r.pick(&[255usize, 256, 65535, 65536, 65537, 0xff00]),
                _ => r.usize(max_ofs + 1),
            }
            .min(max_ofs);
            v.push(Instr::Copy {
                ofs: ofs as u32,
                len: len as u32,
                extra_mask: if r.chance(1, 3) { r.byte() & 0x7f } else { 0 },
            });
        } else {
            let n = *r.pick(&[1usize, 1, 2, 5, 17, 126, 127]);
            v.push(Instr::Insert(r.bytes(n)));
        }
    }
    v
}

fn gen_base(r: &mut Rng) -> (String, Vec<u8>) {
    match r.below(10) {
        0 => ("-".into(), vec![]),
        1 => {
            let n = 65536 + r.usize(70000);
            let pl = 1 + r.usize(7);
            let pat = r.bytes(pl);
            let t = format!("x{n}:{}", hex(&pat));
            let b = parse_part(&t).unwrap();
            (t, b)
        }
        2 => {
            // big, with a distinguishable region in the middle
            let n = 66000 + r.usize(2000);
            let mid = r.bytes(40);
            let t = format!("x{n}:0102030405+{}+x{}:aabb", hex(&mid), 1000 + r.usize(500));
            let b = parse_bytes(&t).unwrap();
            (t, b)
        }
        _ => {
            let n = 1 + r.usize(400);
            let b = r.bytes(n);
            (hex(&b), b)
        }
    }
}

fn synthetic_apply(r: &mut Rng) -> String {
    let (base_text, base) = gen_base(r);
    let instrs = gen_instrs(r, base.len());
    let target = semantics(&base, &instrs);
    let mut delta = Vec::new();
    size_varint(base.len() as u64, &mut delta);
    size_varint(target.len() as u64, &mut delta);
    encode_instrs(&instrs, &mut delta);
    if r.chance(1, 5) {
        // malformed variants: no expectation, only model correspondence and no-surprise checks
        match r.below(7) {
            0 => {
                delta.truncate(delta.len().saturating_sub(1 + r.usize(3)).max(1));
            }
            1 => delta.push(0),
            2 => {
                // claim one byte more / less
                let mut d2 = Vec::new();
                size_varint(base.len() as u64, &mut d2);
                size_varint((target.len() as u64 + 1).saturating_sub(2 * r.below(2)), &mut d2);
                encode_instrs(&instrs, &mut d2);
                delta = d2;
            }
            3 => {
                // copy past the end of the base
                delta.extend([0x91, (base.len() & 0xff) as u8, 0x05]);
            }
            4 => {
                let k = r.usize(delta.len());
                delta[k] ^= 1 << r.below(8);
            }
            5 => delta.extend([0x7f, 1, 2, 3]),
            _ => {
                // a smaller declared base: the base is cut
                let mut d2 = Vec::new();
                size_varint((base.len() / 2) as u64, &mut d2);
                size_varint(target.len() as u64, &mut d2);
                encode_instrs(&instrs, &mut d2);
                delta = d2;
            }
        }
        let which = if r.chance(1, 3) { "applyx" } else { "apply" };
        return format!("{which} {base_text} {} *", hex(&delta));
    }
    let which = if r.chance(1, 4) { "applyx" } else { "apply" };
    format!("{which} {base_text} {} {}", hex(&delta), bobs(&target))
}

// ---------------------------------------------------------------------------------------------
// packs made by git

fn make_blob(r: &mut Rng, big: bool) -> Vec<u8> {
    let lines = if big { 2500 + r.usize(2500) } else { 3 + r.usize(80) };
    let mut v = Vec::new();
    for i in 0..lines {
        let w = 5 + r.usize(40);
        v.extend(format!("{i:05} ").bytes());
        v.extend((0..w).map(|_| *r.pick(b"abcdefghijklmnopqrstuvwxyz    (){};=")));
        v.push(b'\n');
    }
    v
}

fn mutate_blob(r: &mut Rng, b: &[u8]) -> Vec<u8> {
    let mut v = b.to_vec();
    for _ in 0..1 + r.usize(5) {
        if v.is_empty() {
            break;
        }
        let at = r.usize(v.len());
        match r.below(5) {
            0 => {
                let n = r.usize(60);
                let ins = r.bytes(n);
                v.splice(at..at, ins);
            }
            1 => {
                let n = r.usize(200).min(v.len() - at);
                v.drain(at..at + n);
            }
            2 => {
                // move a block
                let n = r.usize(3000).min(v.len() - at);
                let blk: Vec<u8> = v.drain(at..at + n).collect();
                let to = r.usize(v.len() + 1);
                v.splice(to..to, blk);
            }
            3 => {
                let n = (1 + r.usize(100)).min(v.len() - at);
                for x in &mut v[at..at + n] {
                    *x = x.wrapping_add(1);
                }
            }
            _ => {
                let n = r.usize(100);
                let tail = r.bytes(n);
                v.extend(tail);
            }
        }
    }
    v
}

fn git_pack_pass(rep: &mut Report, scratch: &Scratch, r: &mut Rng, round: usize, families: usize, emit_ops: usize) {
    let dir = scratch.join(format!("repo{round}"));
    std::fs::create_dir_all(&dir).expect("mkdir");
    git_ok(&dir, &["init", "-q", "."], None);
    // blobs: families of near-duplicates so that pack-objects finds deltas
    let mut paths = String::new();
    let mut k = 0;
    for f in 0..families {
        let big = f % 7 == 3;
        let mut cur = make_blob(r, big);
        for _ in 0..2 + r.usize(5) {
            let p = dir.join(format!("b{k}"));
            std::fs::write(&p, &cur).expect("write blob");
            paths.push_str(&format!("b{k}\n"));
            k += 1;
            cur = mutate_blob(r, &cur);
        }
    }
    let ids = git_ok(&dir, &["hash-object", "-w", "--stdin-paths"], Some(paths.as_bytes()));
    // commits, trees and an annotated tag over the same files
    git_ok(&dir, &["add", "-A"], None);
    git_ok(&dir, &["commit", "-q", "-m", "one"], None);
    std::fs::write(dir.join("b0"), mutate_blob(r, b"changed\n")).expect("write");
    git_ok(&dir, &["commit", "-q", "-a", "-m", "two"], None);
    git_ok(&dir, &["tag", "-a", "-m", "a tag", "v1"], None);
    let more = git_ok(&dir, &["rev-list", "--objects", "--all"], None);
    let tag_id = git_ok(&dir, &["rev-parse", "v1"], None);
    let ids = format!(
        "{ids}\n{}\n{tag_id}",
        more.lines().map(|l| l.split(' ').next().unwrap_or("")).collect::<Vec<_>>().join("\n")
    );
    let mut id_list: Vec<&str> = ids.lines().filter(|l| !l.is_empty()).collect();
    id_list.sort();
    id_list.dedup();
    let depth = format!("--depth={}", *r.pick(&[1, 2, 5, 50]));
    let window = format!("--window={}", *r.pick(&[2, 10, 50]));
    let mut args = vec!["pack-objects", "-q", depth.as_str(), window.as_str()];
    let ofs = round % 2 == 0;
    if ofs {
        args.push("--delta-base-offset");
    }
    args.push("p");
    let input = id_list.join("\n") + "\n";
    let name = git_ok(&dir, &args, Some(input.as_bytes()));
    let pack_path = dir.join(format!("p-{}.pack", name.trim()));
    let idx_path = dir.join(format!("p-{}.idx", name.trim()));
    // what git says the objects are
    let batch = git(&dir, &["cat-file", "--batch"], Some(input.as_bytes()));
    assert!(batch.ok, "git cat-file --batch");
    let mut truth = std::collections::BTreeMap::new();
    let mut pos = 0;
    let out = &batch.stdout;
    while pos < out.len() {
        let nl = pos + out[pos..].iter().position(|b| *b == b'\n').expect("header line");
        let hdr = std::str::from_utf8(&out[pos..nl]).expect("utf8");
        let mut it = hdr.split(' ');
        let id = it.next().unwrap().to_string();
        let ty = it.next().unwrap().to_string();
        let size: usize = it.next().unwrap().parse().unwrap();
        truth.insert(id, (ty, out[nl + 1..nl + 1 + size].to_vec()));
        pos = nl + 1 + size + 1;
    }
    let pack_bytes = std::fs::read(&pack_path).expect("read pack");
    let index = gix_pack::index::File::at(&idx_path, gix_hash::Kind::Sha1).expect("open idx");
    let mut emitted = 0;
    let mut deltas = 0;
    for e in index.iter() {
        let oid = e.oid;
        let (pp, ip, ofs_) = (pack_path.clone(), idx_path.clone(), e.pack_offset);
        rep.oracle_only(&format!("git-pack object {oid}"), true);
        rep.oracle_checked();
        rep.git_checked(1);
        let (want_ty, want) = truth.get(&oid.to_string()).expect("git knows the object");
        let info = match with_deadline(std::time::Duration::from_secs(20), move || inspect_entry(&pp, &ip, ofs_)) {
            Some(Ok(i)) => i,
            other => {
                rep.bucket("gitpack:PANIC-OR-HANG");
                rep.oracle_failure(
                    &format!("git-pack-panic {oid}"),
                    &format!(
                        "reading object {oid} of a pack made by git pack-objects {}",
                        match other {
                            None => "did not finish within 20 s (hang)".to_string(),
                            Some(Err(m)) => format!("panicked: {m}"),
                            Some(Ok(_)) => unreachable!(),
                        }
                    ),
                    "",
                );
                continue;
            }
        };
        let ok = info.obj.as_ref().ok() == Some(want);
        if info.obj.is_ok() && info.object_kind.as_deref() != Some(want_ty.as_str()) {
            rep.oracle_failure(
                &format!("git-object-kind {oid}"),
                &format!("object {oid} is a {want_ty} for git cat-file, decode_entry says {:?}", info.object_kind),
                "",
            );
        }
        rep.bucket(&format!("gitpack:{}:{}", info.kind, if ok { "ok" } else { "MISMATCH" }));
        // the header of every entry of a real pack, through both decoders and the model
        if emitted < emit_ops {
            let start = e.pack_offset as usize;
            let end = (start + 40).min(pack_bytes.len());
            run_op(rep, scratch, &format!("hdrdec {}", hex(&pack_bytes[start..end])));
        }
        if info.is_delta {
            deltas += 1;
            let op = format!("apply {} {} {}", bytes_text(&info.base), bytes_text(&info.raw_delta), bobs(want));
            if !ok {
                rep.oracle_failure(
                    &format!("git-delta {oid}"),
                    &format!(
                        "object {oid} of a pack made by git pack-objects decodes to {:?}, git cat-file says {}",
                        info.obj.as_ref().map(|o| bobs(o)),
                        bobs(want)
                    ),
                    &op,
                );
            }
            if emitted < emit_ops && info.base.len() <= 12_000 {
                emitted += 1;
                run_op(rep, scratch, &op);
            }
        } else if !ok {
            rep.oracle_failure(&format!("git-object {oid}"), "undeltified pack entry does not decode to the object", "");
        }
    }
    rep.bucket(&format!("gitpack:round:{}:deltas{}", if ofs { "ofs" } else { "ref" }, if deltas > 0 { ">0" } else { "=0" }));
}

fn corpus(rep: &mut Report, scratch: &Scratch) {
    let id = "0123456789abcdef0123456789abcdef01234567";
    let mut sizes: Vec<u64> = vec![0, 1, 14, 15, 16, 17, u64::MAX, u64::MAX - 1, 1 << 63, (1 << 63) - 1, (1 << 63) + 1];
    for k in 0..9u32 {
        let p = 1u64 << (4 + 7 * k);
        sizes.extend([p - 1, p, p + 1]);
    }
    for k in 0..64u32 {
        sizes.push(1u64 << k);
    }
    for &s in &sizes {
        for kind in ["commit", "tree", "blob", "tag"] {
            run_op(rep, scratch, &format!("hdr {kind} {s} -"));
        }
        run_op(rep, scratch, &format!("hdr ref {s} {id}"));
        run_op(rep, scratch, &format!("hdr ofs {s} 1"));
    }
    // distances: the k-byte encodings hold [B_k, B_{k+1}) with B_1 = 0, B_{k+1} = B_k + 2^(7k)
    let mut dists: Vec<u64> = vec![0, 1, 2, 126, 127, 128, 129, u64::MAX, u64::MAX - 1, 1 << 63, (1 << 63) - 1];
    let mut b: u128 = 0;
    for k in 1..=9u32 {
        b += 1u128 << (7 * k);
        if b <= u64::MAX as u128 {
            let b = b as u64;
            dists.extend([b - 2, b - 1, b, b + 1]);
        }
    }
    for k in 0..64u32 {
        let p = 1u64 << k;
        dists.extend([p - 1, p, p.saturating_add(1)]);
    }
    for &d in &dists {
        for s in [0u64, 16, 1 << 11, u64::MAX] {
            run_op(rep, scratch, &format!("hdr ofs {s} {d}"));
        }
    }
    // decoders on malformed / non-canonical input
    for d in [
        "-", "00", "0f", "10", "50", "60", "70", "80", "8f", "e0", "f0", "9000", "9080", "ff", "ffff", "60" , "6000", "607f", "6080", "608000",
        "70+x19:ab", "70+x20:ab", "70+x21:ab", "f001+x20:cd", "f0ff", "b58102", "e5+x9:ff+00", "e5+x9:ff+7f", "95+x8:ff+0f", "95+x8:ff+1f", "95+x8:ff+7f",
        "95+x9:ff+00", "95+x10:ff+00", "95+x12:ff",
        "60+x8:80+00", "60+x9:80+00", "60+x10:80+00", "60+x9:ff+7f", "60+x8:ff+7f", "60ff00", "60+x9:fe+7f",
    ] {
        run_op(rep, scratch, &format!("hdrdec {d}"));
    }
    for d in ["-", "00", "7f", "80", "8000", "8001", "ff7f", "ffff", "x8:ff+7f", "x9:ff+7f", "x9:80+00", "x10:80+00", "x11:80+00", "x9:fe+7f", "x8:fe+ff7f", "fe+x8:ff+7f", "x9:ff+00", "81+x8:80+00"] {
        run_op(rep, scratch, &format!("lebdec {d}"));
    }
    // deltas: hand-made corner cases (base, delta, expected target)
    for (base, delta, want) in [
        ("616263", "03039003", "616263"),                   // copy 3 from 0, size byte only
        ("616263", "0303910003", "616263"),                 // explicit zero offset byte
        ("616263", "0303b000030000", "*"),                  // mask has size byte 1 (0x20) and 2? -> consumes more
        ("616263", "030103787980", "*"),                    // trailing copy command without arguments: copies 0x10000 from 0
        ("616263", "0300", "-"),                            // empty target, no instructions
        ("616263", "030100", "*"),                          // command 0
        ("616263", "03020178", "*"),                        // target one byte short
        ("616263", "03010278", "*"),                        // insert longer than data
        ("-", "000101ff", "ff"),
        ("-", "0000", "-"),                                 // Props.C07.empty_delta_ok: panicked before a28439df2
        ("-", "000001ff", "*"),
        ("x65536:ab", "80800480800480", "65536:*"),         // copy with no size bytes = 0x10000
        ("x65537:ab", "81800481800491010190000001", "*"),
        ("x70000:0102", "f0a204808004b0000001", "*"),
    ] {
        let want = if want.ends_with(":*") { "*" } else { want };
        run_op(rep, scratch, &format!("apply {base} {delta} {want}"));
        if base != "-" || delta != "0000" {
            run_op(rep, scratch, &format!("applyx {base} {delta} {want}"));
        }
    }
    // out-of-pack bases larger than twice every declared size (the delta lies about its base)
    for (base, delta, want) in [
        ("6162636465666768", "02029002", "6162"),          // base 8, declared 2, copy 2
        ("6162636465666768", "0301900161", "*"),               // result size 1, two instructions: too much for the target
        ("x100:61", "0a0a900a", "61616161616161616161"),   // base 100, declared 10
        ("x100:6162", "000101ff", "ff"),
        ("x5:61", "020101ff", "ff"),                        // 5 > 2*2
        ("x4:61", "020101ff", "ff"),                        // 4 = 2*2: not in the branch
        ("x70000:0102", "01009001", "*"),
    ] {
        run_op(rep, scratch, &format!("applyx {base} {delta} {want}"));
    }
}

fn main() {
    let args = Args::parse();
    let mut rep = Report::new("C07", &args);
    let mut r = Rng::new(args.seed);
    let scratch = Scratch::new("c07");
    if let Some(ops) = replay_ops(&args) {
        for op in ops {
            run_op(&mut rep, &scratch, &op);
        }
        rep.finish();
        return;
    }
    corpus(&mut rep, &scratch);
    let rounds = args.budget(4, 12) as usize;
    for round in 0..rounds {
        git_pack_pass(&mut rep, &scratch, &mut r, round, if args.thorough { 30 } else { 14 }, if args.thorough { 60 } else { 40 });
    }
    let n = args.budget(2_500, 20_000);
    for _ in 0..n {
        let op = match r.below(10) {
            0..=2 => {
                let kind = *r.pick(&["commit", "tree", "blob", "tag", "ofs", "ofs", "ref"]);
                let size = match r.below(4) {
                    0 => {
                        let p = 1u64 << (4 + 7 * r.below(9) as u32);
                        p.wrapping_add(r.range(-1, 1) as u64)
                    }
                    1 => r.u64(),
                    _ => r.u64() >> r.below(64),
                };
                let base = match kind {
                    "ofs" => (r.u64() >> r.below(64)).to_string(),
                    "ref" => hex(&r.bytes(20)),
                    _ => "-".into(),
                };
                format!("hdr {kind} {size} {base}")
            }
            3 => {
                let n = r.usize(26);
                let mut v = r.bytes(n);
                if r.chance(1, 2) {
                    // long continuation runs
                    for b in v.iter_mut().take(r.usize(13)) {
                        *b |= 0x80;
                    }
                }
                format!("hdrdec {}", hex(&v))
            }
            4 => {
                let n = r.usize(14);
                let mut v = r.bytes(n);
                for b in v.iter_mut().take(r.usize(12)) {
                    *b |= 0x80;
                }
                format!("lebdec {}", hex(&v))
            }
            _ => synthetic_apply(&mut r),
        };
        run_op(&mut rep, &scratch, &op);
    }
    rep.finish();
}
