//! C16 — reference transactions implement compare-and-swap atomically.
//!
//! Real code exercised: `gix_ref::file::Transaction::{prepare, commit}` through the public API on
//! a real git directory, interleaved with `git update-ref` and `git pack-refs`.
//!
//! Correspondence op (answered by the Lean model `GixModel.C16.handle`, see ../c17/src/reftxn.rs):
//!   hist <op> ; <op> ; …     per operation: result kind + value and loose/packed placement of
//!                            every name of the name space + packed-refs presence + *.lock files
//!
//! Oracle (the property itself, independent of the Lean model): a simple name -> value map with
//! all-or-nothing compare-and-swap (`Simple`, below) is advanced alongside the real store;
//! after EVERY operation
//!   * a transaction succeeded iff the simple model says so, and `try_find` of every name equals
//!     the simple map (a failed transaction therefore changed nothing);
//!   * `store.iter().all()` lists exactly the names below refs/ of that map with the same values;
//!   * no `*.lock` file exists;
//!   * `git for-each-ref --format='%(refname) %(objectname) %(symref)'` and `git symbolic-ref HEAD`
//!     show the same map (refs resolved through symbolic chains the way git does).
//! The rules for `git update-ref` / `git pack-refs` in `Simple` are transcribed from git 2.39 and
//! validated here against the git binary (a disagreement on a git operation is a defect of the
//! transcription, reported under the key prefix `spec-vs-git`).
#[path = "../../c17/src/reftxn.rs"]
#[allow(dead_code)]
mod reftxn;

use hcommon::*;
use reftxn::*;
use std::collections::{BTreeMap, BTreeSet};

/// The abstract store: a name -> value map.
#[derive(Clone, Default, PartialEq, Eq, Debug)]
struct Simple {
    map: BTreeMap<String, Tgt>,
    /// reflogs: (old, new) pairs per name, `0` = null id (extended histories only)
    logs: BTreeMap<String, Vec<(String, String)>>,
    /// refuse directory/file conflicts like git does and keep the reflogs (extended histories)
    extended: bool,
    /// the last transaction was refused because of a directory/file conflict
    df_refused: bool,
    /// … and the refused edit deletes a name that does not exist: doing nothing is fine as well
    df_soft: bool,
}

#[derive(Clone, Debug)]
struct Exp {
    name: String,
    del: bool,
    expected: Prev,
    new: Option<Tgt>,
    log_only: bool,
    deref: bool,
    /// a symbolic ref that was dereferenced: the change went to its referent
    split: bool,
}

#[derive(Debug, PartialEq, Eq)]
enum Verdict {
    Ok,
    Err,
    /// the API contract is violated (Delete + MustNotExist): the real code panics
    Contract,
}

fn is_known(o: &str) -> bool {
    o != "zz"
}

fn packable(name: &str) -> bool {
    name.starts_with("refs/")
}

impl Simple {
    fn initial() -> Simple {
        let mut map = BTreeMap::new();
        map.insert("HEAD".to_string(), Tgt::S("refs/heads/a".to_string()));
        Simple {
            map,
            logs: BTreeMap::new(),
            extended: false,
            df_refused: false,
            df_soft: false,
        }
    }

    /// The edits after symbolic refs have been split (deref), in rounds like the real code:
    /// at most four levels of referents, a fifth is an error.
    fn expand(&self, edits: &[EditSpec]) -> Option<Vec<Exp>> {
        let mut all: Vec<Exp> = edits
            .iter()
            .map(|e| Exp {
                name: e.name.clone(),
                del: e.del,
                expected: e.expected.clone(),
                new: e.new.clone(),
                log_only: e.log_only,
                deref: e.deref,
                split: false,
            })
            .collect();
        let mut first = 0;
        let mut round = 1;
        loop {
            let mut new_edits = Vec::new();
            for e in all[first..].iter_mut() {
                if !e.deref {
                    continue;
                }
                e.deref = false;
                if let Some(Tgt::S(referent)) = self.map.get(&e.name) {
                    let child = Exp {
                        name: referent.clone(),
                        del: e.del,
                        expected: e.expected.clone(),
                        new: e.new.clone(),
                        log_only: e.log_only,
                        deref: true,
                        split: false,
                    };
                    e.split = true;
                    // the symbolic ref itself only gets a reflog entry; an update no longer
                    // checks its own previous value, a deletion keeps checking it
                    e.log_only = true;
                    if !e.del {
                        e.expected = Prev::Any;
                    }
                    new_edits.push(child);
                }
            }
            if new_edits.is_empty() {
                return Some(all);
            }
            if round == 5 {
                return None;
            }
            round += 1;
            first = all.len();
            all.extend(new_edits);
        }
    }

    fn check(&self, e: &Exp) -> Verdict {
        let cur = self.map.get(&e.name);
        if e.del {
            match (&e.expected, cur) {
                (Prev::MustNotExist, _) => Verdict::Contract,
                (Prev::Any, _) | (Prev::Emm(_), None) | (Prev::MustExist, Some(_)) => Verdict::Ok,
                (Prev::MustExist | Prev::Mem(_), None) => Verdict::Err,
                (Prev::Mem(p) | Prev::Emm(p), Some(c)) => {
                    if p == c {
                        Verdict::Ok
                    } else {
                        Verdict::Err
                    }
                }
            }
        } else {
            let new = e.new.as_ref().expect("update");
            match (&e.expected, cur) {
                (Prev::Any, _) | (Prev::MustExist, Some(_)) | (Prev::MustNotExist | Prev::Emm(_), None) => Verdict::Ok,
                (Prev::MustExist | Prev::Mem(_), None) => Verdict::Err,
                // creating what is already there with the same value is fine
                (Prev::MustNotExist, Some(c)) => {
                    if c == new {
                        Verdict::Ok
                    } else {
                        Verdict::Err
                    }
                }
                (Prev::Mem(p) | Prev::Emm(p), Some(c)) => {
                    if p == c {
                        Verdict::Ok
                    } else {
                        Verdict::Err
                    }
                }
            }
        }
    }

    /// all-or-nothing compare-and-swap
    fn apply_txn(&mut self, edits: &[EditSpec], mode: Mode) -> Verdict {
        let Some(all) = self.expand(edits) else { return Verdict::Err };
        let mut names = BTreeSet::new();
        for e in &all {
            if !names.insert(e.name.clone()) {
                return Verdict::Err;
            }
        }
        // new objects must exist when they go to packed-refs (they are peeled)
        if mode != Mode::D {
            for e in &all {
                if let (false, Some(Tgt::O(o)), false, true) = (e.del, &e.new, e.log_only, packable(&e.name)) {
                    if !is_known(o) {
                        return Verdict::Err;
                    }
                }
            }
        }
        // git refuses a name that has an existing ref, or another name of the transaction, as a
        // directory prefix or below it (refs_verify_refname_available)
        if self.extended {
            for e in &all {
                if e.log_only {
                    continue;
                }
                let conflicts = |m: &String| {
                    m != &e.name && (m.starts_with(&format!("{}/", e.name)) || e.name.starts_with(&format!("{m}/")))
                };
                if self.map.keys().any(conflicts) || all.iter().any(|x| conflicts(&x.name)) {
                    self.df_refused = true;
                    // deleting what is not there: doing nothing is as good as refusing
                    self.df_soft = e.del && !self.map.contains_key(&e.name);
                    return Verdict::Err;
                }
            }
        }
        let mut contract = false;
        for e in &all {
            match self.check(e) {
                Verdict::Ok => {}
                Verdict::Err => return if contract { Verdict::Contract } else { Verdict::Err },
                Verdict::Contract => contract = true,
            }
        }
        if contract {
            return Verdict::Contract;
        }
        if self.extended {
            self.write_reflogs(&all);
        }
        for e in &all {
            if e.log_only {
                continue;
            }
            if e.del {
                self.map.remove(&e.name);
            } else {
                self.map.insert(e.name.clone(), e.new.clone().expect("update"));
            }
        }
        Verdict::Ok
    }

    /// The reflog rule: one line per updated name with old = the object the name had (for a
    /// symbolic ref that was dereferenced: the object its referent had), new = the new object;
    /// nothing if the value does not change, nothing for symbolic new values (except the
    /// "clone" case: a new symbolic ref with `ExistingMustMatch(object)`), only for names that
    /// get reflogs by default or have one; deleting removes the reflog.
    fn write_reflogs(&mut self, all: &[Exp]) {
        let auto = |n: &str| n == "HEAD" || n.starts_with("refs/heads/") || n.starts_with("refs/remotes/");
        // the previous object of the leaf of the chain an edit starts (edits are in split order:
        // the referent of the edit at index i is the next edit whose name is the symbolic target)
        let leaf_prev = |start: &Exp| -> Option<String> {
            let mut cur = start.name.clone();
            for _ in 0..6 {
                match self.map.get(&cur) {
                    Some(Tgt::S(next)) => cur = next.clone(),
                    Some(Tgt::O(o)) => return Some(o.clone()),
                    None => {
                        // the leaf does not exist: its edit's expectation stands in (a quirk)
                        let leaf = all.iter().find(|x| x.name == cur)?;
                        return match &leaf.expected {
                            Prev::Emm(Tgt::O(o)) => Some(o.clone()),
                            _ => None,
                        };
                    }
                }
            }
            None
        };
        let mut appends: Vec<(String, String, String)> = Vec::new();
        let mut removes: Vec<String> = Vec::new();
        for e in all {
            if e.del {
                removes.push(e.name.clone());
                continue;
            }
            let cur = self.map.get(&e.name);
            let line = match e.new.as_ref().expect("update") {
                Tgt::S(_) => match (&e.expected, cur) {
                    (Prev::Emm(Tgt::O(o)), None) => Some(("0".to_string(), o.clone())),
                    _ => None,
                },
                Tgt::O(new) => {
                    let old = match cur {
                        Some(Tgt::O(p)) => Some(p.clone()),
                        // a dereferenced symbolic ref logs the old value of its referent; one that
                        // is overwritten itself had no object value
                        Some(Tgt::S(_)) if e.split => leaf_prev(e),
                        Some(Tgt::S(_)) => None,
                        None => None,
                    };
                    match old {
                        Some(p) if &p == new => None,
                        Some(p) => Some((p, new.clone())),
                        None => Some(("0".to_string(), new.clone())),
                    }
                }
            };
            if let Some((a, b)) = line {
                appends.push((e.name.clone(), a, b));
            }
        }
        for (n, a, b) in appends {
            if auto(&n) || self.logs.contains_key(&n) {
                self.logs.entry(n).or_default().push((a, b));
            }
        }
        for n in removes {
            self.logs.remove(&n);
        }
    }

    /// the object a name resolves to the way git reads it (at most 5 reads)
    fn resolve(&self, name: &str) -> Option<String> {
        let mut cur = name.to_string();
        for _ in 0..5 {
            match self.map.get(&cur) {
                Some(Tgt::O(o)) => return Some(o.clone()),
                Some(Tgt::S(n)) => cur = n.clone(),
                None => return None,
            }
        }
        None
    }

    /// `git update-ref [-d] [--no-deref] <name> [<new>] [<old>]` (git 2.39, files backend)
    fn git_update_ref(&mut self, del: bool, noderef: bool, name: &str, new: Option<&str>, old: Option<&str>) -> bool {
        if !self.map.contains_key("HEAD") {
            return false; // not a repository
        }
        // split_symref_update: follow symbolic refs; a name met twice is refused
        let mut target = name.to_string();
        let mut seen = vec![target.clone()];
        if !noderef {
            while let Some(Tgt::S(next)) = self.map.get(&target) {
                if seen.contains(next) {
                    return false;
                }
                target = next.clone();
                seen.push(target.clone());
            }
        }
        // the value <old> is compared with: the object the target resolves to. For a symbolic
        // ref that is not dereferenced git resolves the referent without RESOLVE_REF_READING:
        // a chain that ends at a missing ref gives the null id, a cycle / too deep chain fails.
        enum Cur {
            Oid(String),
            Null,
            Unreadable,
        }
        let current = match self.map.get(&target) {
            Some(Tgt::O(o)) => Cur::Oid(o.clone()),
            Some(Tgt::S(referent)) => {
                let mut cur = referent.clone();
                let mut res = Cur::Unreadable;
                for _ in 0..5 {
                    match self.map.get(&cur) {
                        Some(Tgt::O(o)) => {
                            res = Cur::Oid(o.clone());
                            break;
                        }
                        Some(Tgt::S(n)) => cur = n.clone(),
                        None => {
                            res = Cur::Null;
                            break;
                        }
                    }
                }
                res
            }
            None => Cur::Null,
        };
        match (old, &current) {
            (None, _) => {}
            // builtin/update-ref.c: `-d <ref> 0{40}` passes no old value at all
            (Some("0"), _) if del => {}
            (Some(_), Cur::Unreadable) => return false,
            (Some("0"), Cur::Null) => {}
            (Some("0"), Cur::Oid(_)) => return false,
            (Some(_), Cur::Null) => return false,
            (Some(o), Cur::Oid(c)) => {
                if o != c {
                    return false;
                }
            }
        }
        // the reference already has the desired value: nothing is written
        if del {
            self.map.remove(&target);
        } else {
            self.map.insert(target, Tgt::O(new.expect("new value").to_string()));
        }
        true
    }
}

struct Ctx {
    world: World,
    rep: Report,
    git_oracle: bool,
    head_counter: u64,
    /// separate stream for sampling decisions so that the histories do not depend on them
    sample: Rng,
}

fn fail(cx: &mut Ctx, key: &str, detail: &str, line: &str) {
    cx.rep.oracle_failure(key, &format!("{detail} (history: {line})"), line);
}

/// Compare the three views after an operation.
fn check_views(cx: &mut Ctx, sim: &Simple, op: &Op, line: &str, is_git_op: bool, git_now: bool) -> bool {
    let before = cx.rep.failures.len();
    let tag = if is_git_op { "spec-vs-git " } else { "" };
    cx.rep.oracle_checked();
    // 1. try_find of every name
    match cx.world.view() {
        Ok(view) => {
            if view != sim.map {
                let diff: Vec<String> = NAMES
                    .iter()
                    .filter(|n| view.get(**n) != sim.map.get(**n))
                    .map(|n| {
                        format!(
                            "{n}: gitoxide {} simple {}",
                            view.get(*n).map_or("-".into(), Tgt::fmt),
                            sim.map.get(*n).map_or("-".into(), Tgt::fmt)
                        )
                    })
                    .collect();
                fail(
                    cx,
                    &format!("{tag}state-differs [{}]", op.fmt()),
                    &format!("after the operation: {}", diff.join("; ")),
                    line,
                );
            }
        }
        Err(e) => fail(cx, &format!("{tag}try_find-error [{}]", op.fmt()), &e, line),
    }
    // 2. iter().all()
    match cx.world.iter_all() {
        Ok(mut items) => {
            items.sort();
            let expect: Vec<(String, Tgt)> = sim
                .map
                .iter()
                .filter(|(n, _)| n.starts_with("refs/"))
                .map(|(n, t)| (n.clone(), t.clone()))
                .collect();
            if items != expect {
                fail(
                    cx,
                    &format!("{tag}iter-differs [{}]", op.fmt()),
                    &format!("iter().all() = {items:?}, simple model {expect:?}"),
                    line,
                );
            }
        }
        Err(e) => fail(cx, &format!("{tag}iter-error [{}]", op.fmt()), &e, line),
    }
    // 3. lock files
    let locks = cx.world.lock_files();
    if !locks.is_empty() {
        fail(
            cx,
            &format!("lock-leak [{}]", op.fmt()),
            &format!("lock files left behind: {locks:?}"),
            line,
        );
    }
    // 4. git (the end of every history, a third of the git operations and a tenth of the other
    //    steps: spawning git dominates the run time)
    if cx.git_oracle && git_now && sim.map.contains_key("HEAD") {
        if cx.world.ensure_refs_dir() {
            cx.rep.bucket("refs-dir-removed");
            fail(
                cx,
                "refs-dir-removed",
                "after the transaction the directory refs/ is gone (removed as empty parent of a dropped lock file): git no longer recognises the repository",
                line,
            );
        }
        let d = cx.world.git_dir.clone();
        let out = git(
            &d,
            &["--git-dir=.", "for-each-ref", "--format=%(refname) %(objectname) %(symref)"],
            None,
        );
        cx.rep.git_checked(1);
        let mut got: Vec<String> = String::from_utf8_lossy(&out.stdout).lines().map(|l| l.trim_end().to_string()).collect();
        got.sort();
        let mut want: Vec<String> = Vec::new();
        for (n, t) in &sim.map {
            if !n.starts_with("refs/") {
                continue;
            }
            if let Some(o) = sim.resolve(n) {
                let hex = cx.world.oid_of[&o].to_string();
                // %(symref) is the name the chain of symbolic refs ends at
                want.push(match t {
                    Tgt::O(_) => format!("{n} {hex}"),
                    Tgt::S(_) => format!("{n} {hex} {}", leaf_name(&sim.map, n)),
                });
            }
        }
        want.sort();
        if !out.ok || got != want {
            fail(
                cx,
                &format!("{tag}git-view-differs [{}]", op.fmt()),
                &format!(
                    "git for-each-ref (ok={}) = {got:?}, simple model {want:?}, stderr {}",
                    out.ok,
                    String::from_utf8_lossy(&out.stderr).trim()
                ),
                line,
            );
        }
        // HEAD is compared whenever the operation may have touched it, and every fifth operation
        cx.head_counter += 1;
        if !(touched(op, &sim.map).iter().any(|n| n == "HEAD") || cx.head_counter % 5 == 0) {
            return cx.rep.failures.len() == before;
        }
        let out = git(&d, &["--git-dir=.", "symbolic-ref", "--no-recurse", "-q", "HEAD"], None);
        cx.rep.git_checked(1);
        let got = out.ok.then(|| String::from_utf8_lossy(&out.stdout).trim().to_string());
        let want = match sim.map.get("HEAD") {
            Some(Tgt::S(n)) => Some(n.clone()),
            _ => None,
        };
        if got != want {
            fail(
                cx,
                &format!("{tag}git-head-differs [{}]", op.fmt()),
                &format!("git symbolic-ref --no-recurse HEAD = {got:?}, simple model {want:?}"),
                line,
            );
        }
    }
    cx.rep.failures.len() == before
}

enum Step {
    Obs(String),
    /// outside the domain of model and spec: not part of the history
    Skip,
}

fn step(cx: &mut Ctx, sim: &mut Simple, op: &Op, done: &[Op], last: bool) -> Step {
    let view = cx.world.view().unwrap_or_default();
    let in_play: BTreeSet<String> = cx.world.reflog_names().into_iter().collect();
    if df_conflict(op, &view, &in_play) {
        cx.rep.bucket("df-conflict");
        cx.rep.outside_domain(&format!("directory/file conflict: {}", op.fmt()));
        return Step::Skip;
    }
    let line = {
        let mut h = done.to_vec();
        h.push(op.clone());
        fmt_history(&h)
    };
    let res = match cx.world.apply(op) {
        Applied::Hang => {
            fail(cx, &format!("hang [{}]", op.fmt()), "the transaction did not return", &line);
            cx.world.fresh_dir_after_hang();
            return Step::Obs("hang".into());
        }
        Applied::Done(r) => r,
    };
    match op {
        Op::Txn { edits, mode, .. } => {
            let before = sim.clone();
            let verdict = sim.apply_txn(edits, *mode);
            let kind = res.split(':').take(2).collect::<Vec<_>>().join(":");
            cx.rep.bucket(&format!("txn:{kind}"));
            let agree = match verdict {
                Verdict::Ok => res == "ok",
                Verdict::Err => res.starts_with("err:") && !res.starts_with("err:c-"),
                Verdict::Contract => {
                    cx.rep.outside_domain(&format!("Delete with MustNotExist: {} -> {res}", op.fmt()));
                    *sim = before.clone();
                    res == "panic" || res.starts_with("err:")
                }
            };
            if !agree {
                fail(
                    cx,
                    &format!("verdict-differs [{}]", op.fmt()),
                    &format!("gitoxide: {res}, simple compare-and-swap model: {verdict:?}"),
                    &line,
                );
                // follow the implementation so that later operations are judged on their own
                if let Ok(v) = cx.world.view() {
                    sim.map = v;
                }
            }
            let git_now = last || cx.sample.chance(1, 10);
            if !check_views(cx, sim, op, &line, false, git_now) {
                // follow the implementation so that later operations are judged on their own
                if let Ok(v) = cx.world.view() {
                    sim.map = v;
                }
            }
        }
        Op::GitUpdate {
            del,
            noderef,
            name,
            new,
            old,
        } => {
            let ok = sim.git_update_ref(*del, *noderef, name, new.as_deref(), old.as_deref());
            cx.rep.bucket(if res == "ok" { "git-update:ok" } else { "git-update:fail" });
            if ok != (res == "ok") {
                fail(
                    cx,
                    &format!("spec-vs-git verdict-differs [{}]", op.fmt()),
                    &format!("git: {res}, transcription of git's rule: {ok}"),
                    &line,
                );
            }
            let git_now = last || cx.sample.chance(1, 3);
            if !check_views(cx, sim, op, &line, true, git_now) {
                if let Ok(v) = cx.world.view() {
                    sim.map = v;
                }
            }
        }
        Op::GitPack { .. } => {
            cx.rep.bucket("git-pack");
            let git_now = last || cx.sample.chance(1, 3);
            check_views(cx, sim, op, &line, true, git_now);
        }
        Op::Lock(_) | Op::Unlock(_) => {}
        Op::Race { mods, txn } => {
            // sequential composition: the other writer first, then the transaction
            let before = sim.clone();
            for (n, o) in mods {
                match o {
                    Some(o) => {
                        sim.map.insert(n.clone(), Tgt::O(o.clone()));
                    }
                    None => {
                        sim.map.remove(n);
                    }
                }
            }
            let Op::Txn { edits, mode, .. } = &**txn else { unreachable!("race wraps a transaction") };
            let verdict = sim.apply_txn(edits, *mode);
            cx.rep.bucket(&format!("race:{}", res.split(':').take(2).collect::<Vec<_>>().join(":")));
            let agree = match verdict {
                Verdict::Ok => res == "ok",
                Verdict::Err => res.starts_with("err:") && !res.starts_with("err:c-"),
                Verdict::Contract => {
                    *sim = before;
                    for (n, o) in mods {
                        match o {
                            Some(o) => {
                                sim.map.insert(n.clone(), Tgt::O(o.clone()));
                            }
                            None => {
                                sim.map.remove(n);
                            }
                        }
                    }
                    res == "panic" || res.starts_with("err:")
                }
            };
            cx.rep.oracle_checked();
            let view = cx.world.view().unwrap_or_default();
            if !agree || view != sim.map {
                let diff: Vec<String> = NAMES
                    .iter()
                    .filter(|n| view.get(**n) != sim.map.get(**n))
                    .map(|n| {
                        format!(
                            "{n}: gitoxide {} sequential {}",
                            view.get(*n).map_or("-".into(), Tgt::fmt),
                            sim.map.get(*n).map_or("-".into(), Tgt::fmt)
                        )
                    })
                    .collect();
                fail(
                    cx,
                    &format!("race-not-sequential [{}]", op.fmt()),
                    &format!(
                        "another writer rewrote packed-refs and released packed-refs.lock while the transaction waited for it; result {res}, but the store is not what the other writer followed by the transaction gives: {}",
                        diff.join("; ")
                    ),
                    &line,
                );
                sim.map = view;
            }
            if !cx.world.lock_files().is_empty() {
                fail(cx, &format!("lock-leak [{}]", op.fmt()), &format!("lock files left behind: {:?}", cx.world.lock_files()), &line);
            }
        }
    }
    Step::Obs(format!("{res}#{}", cx.world.dump()))
}

/// Another writer rewrites packed-refs while the transaction waits for packed-refs.lock. The
/// other writer only touches names without a loose file (so that its effect on the map is plain),
/// the transaction is steered towards packed-refs (deletions, packed-refs update modes).
fn gen_race(rng: &mut Rng, world: &World, view: &BTreeMap<String, Tgt>, cfg: &GenCfg) -> Op {
    let no_loose: Vec<&str> = EDIT_NAMES[1..]
        .iter()
        .copied()
        .filter(|n| !world.git_dir.join(n).exists() && !world.git_dir.join(n).with_extension("lock").exists())
        .collect();
    let mut mods: Vec<(String, Option<String>)> = Vec::new();
    for n in &no_loose {
        // keep nested names apart
        if mods.iter().any(|(m, _)| m.starts_with(&format!("{n}/")) || n.starts_with(&format!("{m}/"))) {
            continue;
        }
        let conflict = NAMES.iter().any(|m| {
            (m.starts_with(&format!("{n}/")) || n.starts_with(&format!("{m}/"))) && view.contains_key(*m)
        });
        if conflict {
            continue;
        }
        match rng.below(4) {
            0 => mods.push((n.to_string(), Some(rng.pick(&["c1", "c2", "c3"]).to_string()))),
            1 if view.contains_key(*n) => mods.push((n.to_string(), None)),
            _ => {}
        }
    }
    let mut txn = gen_txn(rng, view, cfg);
    if let Op::Txn { edits, mode, .. } = &mut txn {
        if rng.chance(1, 2) {
            *mode = *rng.pick(&[Mode::U, Mode::R]);
        }
        // a transaction that deletes what the other writer just packed, half of the time
        if let (Some((n, Some(_))), true) = (mods.first(), rng.chance(1, 2)) {
            edits.retain(|e| &e.name != n);
            edits.push(EditSpec::parse(&format!("D,{n},n,any,-,r")).expect("edit"));
        }
    }
    Op::Race {
        mods,
        txn: Box::new(txn),
    }
}

fn record(cx: &mut Ctx, ops: &[Op], obs: &[String]) {
    if ops.is_empty() {
        return;
    }
    let line = fmt_history(ops);
    cx.rep.case(&line, &obs.join(" ; "), ops.iter().any(|o| matches!(o, Op::Txn { .. })));
    cx.rep.bucket(&format!("hist-len:{:02}", ops.len()));
}

fn run_history(cx: &mut Ctx, ops: &[Op]) {
    cx.world.reset();
    let mut sim = Simple::initial();
    let mut done: Vec<Op> = Vec::new();
    let mut obs: Vec<String> = Vec::new();
    for (i, op) in ops.iter().enumerate() {
        match step(cx, &mut sim, op, &done, i + 1 == ops.len()) {
            Step::Skip => break,
            Step::Obs(o) => {
                let hang = o == "hang";
                done.push(op.clone());
                obs.push(o);
                if hang {
                    break;
                }
            }
        }
    }
    record(cx, &done, &obs);
}

fn gen_history(rng: &mut Rng, cx: &mut Ctx, cfg: &GenCfg) {
    cx.world.reset();
    let mut sim = Simple::initial();
    let len = 1 + rng.usize(25);
    let mut ops: Vec<Op> = Vec::new();
    let mut obs: Vec<String> = Vec::new();
    let mut skips = 0;
    while ops.len() < len && skips < 40 {
        let view = cx.world.view().unwrap_or_default();
        let r = rng.below(100);
        let op = if ops.is_empty() && rng.chance(1, 2) {
            // start from a populated store
            let mut edits = Vec::new();
            for n in ["refs/heads/a", "refs/heads/b", "refs/remotes/o/HEAD", "refs/tags/t", "refs/heads/a/b"] {
                if n == "refs/heads/a/b" && edits.iter().any(|e: &EditSpec| e.name == "refs/heads/a") {
                    continue;
                }
                let k = rng.below(4);
                if k == 0 {
                    let t = *rng.pick(&["refs/heads/a", "refs/heads/b", "refs/tags/t"]);
                    if t != n {
                        edits.push(EditSpec::parse(&format!("U,{n},n,any,s:{t},r")).expect("edit"));
                    }
                } else if k < 3 {
                    let o = *rng.pick(&["c1", "c2", "t1"]);
                    edits.push(EditSpec::parse(&format!("U,{n},n,any,o:{o},r")).expect("edit"));
                }
            }
            if edits.is_empty() {
                gen_txn(rng, &view, cfg)
            } else {
                Op::Txn {
                    edits,
                    mode: *rng.pick(&[Mode::D, Mode::U, Mode::R]),
                    rf: FailMode::I,
                    pf: FailMode::I,
                }
            }
        } else if r < 7 {
            gen_race(rng, &cx.world, &view, cfg)
        } else if r < 80 {
            gen_txn(rng, &view, cfg)
        } else if r < 94 {
            gen_git_update(rng, &view)
        } else {
            Op::GitPack {
                all: true,
                prune: rng.chance(3, 4),
            }
        };
        match step(cx, &mut sim, &op, &ops, ops.len() + 1 == len) {
            Step::Skip => skips += 1,
            Step::Obs(o) => {
                let hang = o == "hang";
                ops.push(op);
                obs.push(o);
                if hang {
                    break;
                }
            }
        }
    }
    record(cx, &ops, &obs);
}

// ---------------------------------------------------------------------------------------------
// extended histories (`histx`): transactions only, nested names may conflict, reflogs are observed

fn fmt_history_x(ops: &[Op]) -> String {
    format!("histx{}", &fmt_history(ops)[4..])
}

fn parse_history_x(line: &str) -> Option<Vec<Op>> {
    let rest = line.strip_prefix("histx")?;
    let ops = parse_history(&format!("hist{rest}"))?;
    ops.iter().all(|o| matches!(o, Op::Txn { .. })).then_some(ops)
}

fn real_logs(world: &World) -> BTreeMap<String, Vec<(String, String)>> {
    NAMES
        .iter()
        .filter_map(|n| world.reflog_lines(n).map(|l| (n.to_string(), l)))
        .collect()
}

/// One transaction of an extended history: result + extended dump; the oracle knows git's
/// directory/file rule and the reflog rule.
fn step_x(cx: &mut Ctx, sim: &mut Simple, op: &Op, done: &[Op]) -> String {
    let line = {
        let mut h = done.to_vec();
        h.push(op.clone());
        fmt_history_x(&h)
    };
    let res = match cx.world.apply(op) {
        Applied::Hang => {
            fail(cx, &format!("hang [{}]", op.fmt()), "the transaction did not return", &line);
            cx.world.fresh_dir_after_hang();
            return "hang".into();
        }
        Applied::Done(r) => r,
    };
    let Op::Txn { edits, mode, .. } = op else { unreachable!("extended histories are transactions") };
    let before = sim.clone();
    sim.df_refused = false;
    sim.df_soft = false;
    let verdict = sim.apply_txn(edits, *mode);
    let kind = res.split(':').take(2).collect::<Vec<_>>().join(":");
    cx.rep.bucket(&format!("x-txn:{kind}"));
    if sim.df_refused {
        cx.rep.bucket("x-df-refused-by-spec");
    }
    cx.rep.oracle_checked();
    let view = cx.world.view().unwrap_or_default();
    let logs = real_logs(&cx.world);
    let mut resync = false;
    match verdict {
        Verdict::Ok => {
            if res.starts_with("err:c-") {
                // commit-time failures only come from nested names (reflog or reference path is a
                // directory / below a file) in a store that already holds conflicting names
                let unchanged = view == before.map && logs == before.logs;
                fail(
                    cx,
                    if unchanged { "df-commit-failure" } else { "df-partial-commit" },
                    &format!(
                        "the transaction [{}] failed at commit time with {res}: refs {:?} -> {view:?}, reflogs {:?} -> {logs:?}",
                        op.fmt(), before.map, before.logs
                    ),
                    &line,
                );
                resync = true;
            } else if res != "ok" {
                fail(cx, &format!("verdict-differs [{}]", op.fmt()), &format!("gitoxide: {res}, simple model: Ok"), &line);
                resync = true;
            } else {
                if view != sim.map {
                    fail(
                        cx,
                        &format!("state-differs [{}]", op.fmt()),
                        &format!("gitoxide {view:?}, simple model {:?}", sim.map),
                        &line,
                    );
                    resync = true;
                }
                if logs != sim.logs {
                    fail(
                        cx,
                        &format!("reflog-differs [{}]", op.fmt()),
                        &format!("reflogs {logs:?}, expected one line per updated name: {:?}", sim.logs),
                        &line,
                    );
                    resync = true;
                }
            }
        }
        Verdict::Err | Verdict::Contract => {
            if verdict == Verdict::Contract {
                cx.rep.outside_domain(&format!("Delete with MustNotExist: {} -> {res}", op.fmt()));
                *sim = before.clone();
            }
            let unchanged = view == before.map && logs == before.logs;
            if res == "ok" && sim.df_soft && unchanged {
                // deleting what is not there, below an existing reference: nothing happened
            } else if res == "ok" {
                if before.extended && sim.df_refused {
                    // git refuses to create a ref below / above an existing one
                    fail(
                        cx,
                        "df-accepted-conflict",
                        &format!("the transaction [{}] creates a reference that conflicts with an existing one as directory/file; git refuses that", op.fmt()),
                        &line,
                    );
                } else {
                    fail(cx, &format!("verdict-differs [{}]", op.fmt()), &format!("gitoxide: ok, simple model: {verdict:?}"), &line);
                }
                resync = true;
            } else if !unchanged {
                if sim.df_refused || res.starts_with("err:c-") {
                    fail(
                        cx,
                        "df-partial-commit",
                        &format!(
                            "the transaction [{}] failed with {res} AFTER part of it had been applied: refs {:?} -> {view:?}, reflogs {:?} -> {logs:?}",
                            op.fmt(), before.map, before.logs
                        ),
                        &line,
                    );
                } else {
                    fail(
                        cx,
                        &format!("failed-but-changed [{}]", op.fmt()),
                        &format!("{res}: refs {:?} -> {view:?}, reflogs {:?} -> {logs:?}", before.map, before.logs),
                        &line,
                    );
                }
                resync = true;
            }
        }
    }
    if !cx.world.lock_files().is_empty() {
        fail(cx, &format!("lock-leak [{}]", op.fmt()), &format!("lock files left behind: {:?}", cx.world.lock_files()), &line);
    }
    if resync {
        sim.map = view;
        sim.logs = logs;
    }
    format!("{res}#{}", cx.world.dump_x())
}

fn run_history_x(cx: &mut Ctx, ops: &[Op]) {
    cx.world.reset();
    let mut sim = Simple::initial();
    sim.extended = true;
    let mut done: Vec<Op> = Vec::new();
    let mut obs: Vec<String> = Vec::new();
    for op in ops {
        let o = step_x(cx, &mut sim, op, &done);
        let hang = o == "hang";
        done.push(op.clone());
        obs.push(o);
        if hang {
            break;
        }
    }
    if !done.is_empty() {
        cx.rep.case(&fmt_history_x(&done), &obs.join(" ; "), true);
        cx.rep.bucket(&format!("histx-len:{:02}", done.len()));
    }
}

fn gen_history_x(rng: &mut Rng, cx: &mut Ctx, cfg: &GenCfg) {
    cx.world.reset();
    let mut sim = Simple::initial();
    sim.extended = true;
    let len = 1 + rng.usize(12);
    let mut ops: Vec<Op> = Vec::new();
    let mut obs: Vec<String> = Vec::new();
    while ops.len() < len {
        let view = cx.world.view().unwrap_or_default();
        let op = gen_txn(rng, &view, cfg);
        let o = step_x(cx, &mut sim, &op, &ops);
        let hang = o == "hang";
        ops.push(op);
        obs.push(o);
        if hang {
            break;
        }
    }
    cx.rep.case(&fmt_history_x(&ops), &obs.join(" ; "), true);
    cx.rep.bucket(&format!("histx-len:{:02}", ops.len()));
}

fn corpus() -> Vec<&'static str> {
    vec![
        // create, update with the right / wrong expectation, delete
        "hist txn mode=D rf=I pf=I U,refs/heads/b,n,mne,o:c1,r ; txn mode=D rf=I pf=I U,refs/heads/b,n,mem=o:c1,o:c2,r ; txn mode=D rf=I pf=I U,refs/heads/b,n,mem=o:c1,o:c3,r ; txn mode=D rf=I pf=I D,refs/heads/b,n,mem=o:c2,-,r",
        // all-or-nothing: the second edit fails, the first must not be applied
        "hist txn mode=D rf=I pf=I U,refs/heads/b,n,any,o:c1,r U,refs/tags/t,n,me,o:c1,r ; txn mode=U rf=I pf=I U,refs/heads/b,n,any,o:c1,r U,refs/tags/t,n,me,o:c1,r ; txn mode=R rf=I pf=I U,refs/heads/b,n,any,o:c1,r U,refs/tags/t,n,me,o:c1,r",
        // deref through HEAD: the branch is written, HEAD stays symbolic; expectation applies to the branch
        "hist txn mode=D rf=I pf=I U,HEAD,d,mne,o:c1,r ; txn mode=D rf=I pf=I U,HEAD,d,mem=o:c1,o:c2,r ; txn mode=D rf=I pf=I U,HEAD,d,mem=o:c1,o:c3,r ; txn mode=D rf=I pf=I D,HEAD,d,any,-,r ; txn mode=D rf=I pf=I U,HEAD,n,any,o:c3,r",
        // every packed-refs mode, then updates / deletions of packed refs in every mode
        "hist txn mode=U rf=I pf=I U,refs/heads/a,n,any,o:c1,r U,refs/tags/t,n,any,o:t1,r ; txn mode=R rf=I pf=I U,refs/heads/b,n,any,o:c2,r ; txn mode=D rf=I pf=I U,refs/heads/b,n,mem=o:c2,o:c3,r ; txn mode=R rf=I pf=I U,refs/heads/a,n,mem=o:c1,o:c3,r ; txn mode=D rf=I pf=I D,refs/heads/b,n,mem=o:c3,-,r ; txn mode=U rf=I pf=I D,refs/heads/a,n,any,-,r D,refs/tags/t,n,any,-,r",
        // a symbolic ref over a packed one, back to an object
        "hist txn mode=R rf=I pf=I U,refs/heads/b,n,any,o:c1,r U,refs/tags/t,n,any,o:c1,r ; txn mode=R rf=I pf=I U,refs/tags/t,n,any,s:refs/heads/b,r ; txn mode=R rf=I pf=I U,refs/tags/t,d,mem=o:c1,o:c2,r ; txn mode=R rf=I pf=I U,refs/tags/t,n,any,o:c3,r ; txn mode=D rf=I pf=I D,refs/tags/t,n,any,-,r",
        // detached HEAD in every mode (HEAD can not be packed)
        "hist txn mode=D rf=I pf=I U,HEAD,n,any,o:c1,r ; txn mode=U rf=I pf=I U,HEAD,n,any,o:c2,r ; txn mode=R rf=I pf=I U,HEAD,n,any,o:c3,r",
        "hist txn mode=R rf=I pf=I U,HEAD,n,any,o:c3,r U,refs/heads/b,n,any,o:c1,r",
        // git in between
        "hist gitupdate-ref d=0 nd=0 HEAD c1 - ; txn mode=D rf=I pf=I U,HEAD,d,mem=o:c1,o:c2,r ; gitpack-refs all=1 prune=1 ; txn mode=D rf=I pf=I U,refs/heads/a,n,mem=o:c2,o:c3,r ; gitupdate-ref d=1 nd=0 refs/heads/a - c3 ; txn mode=D rf=I pf=I U,refs/heads/a,n,mne,o:c1,r",
        "hist gitupdate-ref d=0 nd=1 HEAD c1 - ; gitupdate-ref d=0 nd=0 refs/tags/t c2 0 ; gitupdate-ref d=0 nd=0 refs/tags/t c3 0 ; gitupdate-ref d=0 nd=0 refs/tags/t c3 c2 ; gitpack-refs all=1 prune=0 ; gitupdate-ref d=1 nd=1 refs/tags/t - c3",
        // another writer adds refs/heads/b to packed-refs while our deletion of refs/tags/t waits for
        // packed-refs.lock: both must be there afterwards (snapshot read under the lock)
        "hist txn mode=R rf=I pf=I U,refs/tags/t,n,any,o:c1,r U,refs/heads/a,n,any,o:c1,r ; race +refs/heads/b=c2 txn mode=D rf=I pf=I D,refs/tags/t,n,any,-,r ; race -refs/heads/a,+refs/tags/t=c3 txn mode=U rf=I pf=I U,refs/remotes/o/HEAD,n,any,o:c2,r ; race +refs/heads/a=c3 txn mode=R rf=I pf=I U,refs/heads/a,n,mem=o:c3,o:c1,r",
        // nested names come and go (directories are created and removed)
        "hist txn mode=D rf=I pf=I U,refs/heads/a/b,n,any,o:c1,r ; txn mode=U rf=I pf=I U,refs/tags/t,n,any,o:c1,r ; txn mode=D rf=I pf=I D,refs/heads/a/b,n,any,-,r ; txn mode=R rf=I pf=I U,refs/heads/a,n,any,o:c2,r U,refs/tags/t,n,any,o:c3,r ; txn mode=D rf=I pf=I D,refs/heads/a,n,any,-,r ; txn mode=D rf=I pf=I U,refs/heads/a/b,n,mne,o:c1,r",
    ]
}

/// extended histories: reflogs, and nested names that get in each other's way
fn corpus_x() -> Vec<&'static str> {
    vec![
        // reflog lines: creation, update, no line without change, HEAD follows its branch, deletion removes the log
        "histx txn mode=D rf=I pf=I U,HEAD,d,any,o:c1,r ; txn mode=D rf=I pf=I U,HEAD,d,mem=o:c1,o:c2,r ; txn mode=D rf=I pf=I U,HEAD,d,any,o:c2,r ; txn mode=D rf=I pf=I U,refs/tags/t,n,any,o:c1,r ; txn mode=R rf=I pf=I U,refs/heads/b,n,any,o:c3,r U,refs/remotes/o/HEAD,n,emm=o:c1,s:refs/heads/b,r ; txn mode=D rf=I pf=I D,HEAD,d,any,-,r ; txn mode=D rf=I pf=I U,HEAD,d,emm=o:c3,o:c1,r ; txn mode=D rf=I pf=I U,HEAD,n,mem=s:refs/heads/a,o:c3,r",
        // a file where a directory is needed: refused while locking, nothing happens
        "histx txn mode=D rf=I pf=I U,refs/heads/a,n,any,o:c1,r ; txn mode=D rf=I pf=I U,refs/heads/b,n,any,o:c2,r U,refs/heads/a/b,n,any,o:c2,r ; txn mode=D rf=I pf=I D,refs/heads/a/b,n,any,-,r",
        // a directory where a file is needed: found out at commit time, after the first edit was applied
        "histx txn mode=D rf=I pf=I U,refs/heads/a/b,n,any,o:c1,r ; txn mode=D rf=I pf=I U,refs/heads/b,n,any,o:c2,r U,refs/heads/a,n,any,o:c2,r U,refs/tags/t,n,any,o:c2,r",
        // both names in one transaction
        "histx txn mode=D rf=I pf=I U,refs/heads/a,n,any,o:c1,r U,refs/heads/a/b,n,any,o:c2,r ; txn mode=D rf=I pf=I U,refs/heads/a/b,n,any,o:c1,r U,refs/heads/a,n,any,o:c2,r",
        // a packed ref and a symbolic ref below it: nothing notices
        "histx txn mode=R rf=I pf=I U,refs/heads/a,n,any,o:c1,r ; txn mode=D rf=I pf=I U,refs/heads/a/b,n,any,s:refs/heads/b,r ; txn mode=D rf=I pf=I U,refs/heads/a/b,n,any,o:c2,r ; txn mode=D rf=I pf=I D,refs/heads/a,n,any,-,r",
    ]
}

fn main() {
    // find git with the first exec attempt (spawning git dominates the run time)
    if let Ok(p) = std::env::var("PATH") {
        std::env::set_var("PATH", format!("/usr/bin:{p}"));
    }
    let args = Args::parse();
    let rep = Report::new("C16", &args);
    let mut rng = Rng::new(args.seed);
    let mut cx = Ctx {
        world: World::new("c16"),
        rep,
        git_oracle: true,
        head_counter: 0,
        sample: Rng::new(args.seed ^ 0x5eed),
    };
    let cfg = GenCfg {
        backoff: false,
        missing_oid: false,
        log_only: false,
    };
    if let Some(lines) = replay_ops(&args) {
        for line in lines {
            if let Some(h) = parse_history_x(&line) {
                run_history_x(&mut cx, &h);
            } else {
                match parse_history(&line) {
                    Some(h) => run_history(&mut cx, &h),
                    None => cx.rep.note(&format!("unparsable replay line: {line}")),
                }
            }
        }
    } else {
        for line in corpus() {
            let h = parse_history(line).unwrap_or_else(|| panic!("bad corpus line {line}"));
            run_history(&mut cx, &h);
        }
        // VERIF_C16_X=1: extended histories only (used while developing the extended model)
        if std::env::var_os("VERIF_C16_X").is_none() {
            for _ in 0..args.budget(60, 600) {
                gen_history(&mut rng, &mut cx, &cfg);
            }
        }
        for line in corpus_x() {
            let h = parse_history_x(line).unwrap_or_else(|| panic!("bad corpus line {line}"));
            run_history_x(&mut cx, &h);
        }
        for _ in 0..args.budget(80, 1000) {
            gen_history_x(&mut rng, &mut cx, &cfg);
        }
    }
    if cx.world.refs_dir_recreated > 0 {
        cx.rep.note(&format!(
            "refs/ had been removed by gitoxide's lock clean-up {} times (re-created for git)",
            cx.world.refs_dir_recreated
        ));
    }
    let Ctx { world, rep, .. } = cx;
    rep.finish();
    drop(world);
    std::process::exit(0)
}
