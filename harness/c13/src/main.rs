//! C13 — alternate object databases are resolved like git.
//!
//! A "world" is a set of object directories under a virtual root `/R`, each with an optional
//! `info/alternates` content. It is written to a real directory tree under the scratch area
//! (`/R` = a fresh directory), then
//!   alt    <tag> <root> <k> (<dir> <content|none>)*k   → what `gix_odb::alternate::resolve` returned
//!   gitalt <tag> <root> <k> …                          → what `git count-objects -v` lists (validates `Spec.gitResolve`)
//! Oracle (property on the real code, independent of the Lean model): for tree-shaped worlds the two
//! lists are equal in order and every marker object git can read through the chain is readable
//! through `gix_odb::at(root)`; for worlds with a cycle gitoxide must report `Error::Cycle`.
use hcommon::*;
use std::collections::BTreeMap;
use std::ffi::OsStr;
use std::os::unix::ffi::OsStrExt;
use std::path::{Path, PathBuf};

#[derive(Clone)]
struct World {
    tag: String,
    root: Vec<u8>,
    dirs: Vec<(Vec<u8>, Option<Vec<u8>>)>,
}

fn op_of(kind: &str, w: &World) -> String {
    let mut s = format!("{kind} {} {} {}", w.tag, hex(&w.root), w.dirs.len());
    for (d, c) in &w.dirs {
        s.push(' ');
        s.push_str(&hex(d));
        s.push(' ');
        match c {
            None => s.push_str("none"),
            Some(c) => s.push_str(&hex(c)),
        }
    }
    s
}

fn world_of_op(a: &[&str]) -> Option<World> {
    let tag = a.get(1)?.to_string();
    let root = unhex(a.get(2)?)?;
    let k: usize = a.get(3)?.parse().ok()?;
    let mut dirs = Vec::new();
    for i in 0..k {
        let d = unhex(a.get(4 + 2 * i)?)?;
        let c = a.get(5 + 2 * i)?;
        dirs.push((d, if *c == "none" { None } else { Some(unhex(c)?) }));
    }
    Some(World { tag, root, dirs })
}

fn replace_all(hay: &[u8], from: &[u8], to: &[u8]) -> Vec<u8> {
    let mut out = Vec::with_capacity(hay.len());
    let mut i = 0;
    while i < hay.len() {
        if hay[i..].starts_with(from) {
            out.extend_from_slice(to);
            i += from.len();
        } else {
            out.push(hay[i]);
            i += 1;
        }
    }
    out
}

/// lexical normalisation of an absolute path (no symlinks are ever created in the scratch tree)
fn normalize(p: &[u8]) -> Vec<u8> {
    let mut comps: Vec<&[u8]> = Vec::new();
    for c in p.split(|b| *b == b'/') {
        match c {
            b"" | b"." => {}
            b".." => {
                comps.pop();
            }
            c => comps.push(c),
        }
    }
    let mut out = Vec::new();
    for c in comps {
        out.push(b'/');
        out.extend_from_slice(c);
    }
    if out.is_empty() {
        out.push(b'/');
    }
    out
}

fn c_unquote(s: &[u8]) -> Vec<u8> {
    if s.first() != Some(&b'"') {
        return s.to_vec();
    }
    let mut out = Vec::new();
    let mut i = 1;
    while i < s.len() {
        match s[i] {
            b'"' => break,
            b'\\' => {
                i += 1;
                match s.get(i).copied().unwrap_or(b'\\') {
                    b'n' => out.push(b'\n'),
                    b't' => out.push(b'\t'),
                    b'r' => out.push(b'\r'),
                    b'a' => out.push(7),
                    b'b' => out.push(8),
                    b'f' => out.push(12),
                    b'v' => out.push(11),
                    c @ b'0'..=b'3' => {
                        let v = ((c - b'0') as u32) * 64 + ((s[i + 1] - b'0') as u32) * 8 + (s[i + 2] - b'0') as u32;
                        out.push(v as u8);
                        i += 2;
                    }
                    c => out.push(c),
                }
            }
            c => out.push(c),
        }
        i += 1;
    }
    out
}

struct Materialized {
    prefix: Vec<u8>,
    root_real: PathBuf,
}

fn real_of(prefix: &[u8], virt: &[u8]) -> PathBuf {
    // virt starts with "/R"
    let mut p = prefix.to_vec();
    p.extend_from_slice(&virt[2..]);
    PathBuf::from(OsStr::from_bytes(&p))
}

fn virt_of(prefix: &[u8], real: &[u8]) -> Vec<u8> {
    if real.starts_with(prefix) {
        let mut v = b"/R".to_vec();
        v.extend_from_slice(&real[prefix.len()..]);
        v
    } else {
        real.to_vec()
    }
}

fn materialize(sc: &Scratch, k: u64, w: &World) -> Materialized {
    let base = sc.join(format!("g{k}"));
    let _ = std::fs::remove_dir_all(&base);
    std::fs::create_dir_all(&base).expect("mkdir world");
    let prefix = base.as_os_str().as_bytes().to_vec();
    let mut with_slash = prefix.clone();
    with_slash.push(b'/');
    for (d, c) in &w.dirs {
        let real = real_of(&prefix, d);
        std::fs::create_dir_all(&real).expect("mkdir objects dir");
        if let Some(c) = c {
            std::fs::create_dir_all(real.join("info")).expect("mkdir info");
            std::fs::write(real.join("info").join("alternates"), replace_all(c, b"/R/", &with_slash)).expect("write alternates");
        }
    }
    let root_real = real_of(&prefix, &w.root);
    // make the root a repository git accepts with --git-dir: HEAD + objects + refs
    let gitdir = root_real.parent().expect("objects has a parent").to_path_buf();
    std::fs::create_dir_all(gitdir.join("refs")).expect("refs");
    std::fs::write(gitdir.join("HEAD"), b"ref: refs/heads/main\n").expect("HEAD");
    Materialized { prefix, root_real }
}

enum GixOut {
    Ok(Vec<Vec<u8>>),
    Cycle,
    Parse,
    Other(String),
    Hang,
}

fn gix_resolve(m: &Materialized) -> GixOut {
    let root = m.root_real.clone();
    // a cycle that is followed instead of reported never returns: give it five seconds
    let r = match with_deadline(std::time::Duration::from_secs(5), move || gix_odb::alternate::resolve(root, Path::new("/"))) {
        None => return GixOut::Hang,
        Some(r) => r,
    };
    match r {
        Err(p) => GixOut::Other(format!("panic: {p}")),
        Ok(Ok(v)) => GixOut::Ok(v.iter().map(|p| virt_of(&m.prefix, &normalize(p.as_os_str().as_bytes()))).collect()),
        Ok(Err(gix_odb::alternate::Error::Cycle(_))) => GixOut::Cycle,
        Ok(Err(gix_odb::alternate::Error::Parse(_))) => GixOut::Parse,
        Ok(Err(e)) => GixOut::Other(format!("{e}")),
    }
}

fn list_obs(v: &[Vec<u8>]) -> String {
    if v.is_empty() {
        "ok:-".into()
    } else {
        format!("ok:{}", v.iter().map(|p| hex(p)).collect::<Vec<_>>().join(","))
    }
}

fn git_in(m: &Materialized, extra_env: &[(&str, &Path)], args: &[&str], stdin: Option<&[u8]>) -> GitOut {
    use std::io::Write;
    use std::process::Stdio;
    let gitdir = m.root_real.parent().unwrap();
    let mut c = git_cmd(gitdir);
    c.arg("--git-dir").arg(gitdir);
    c.env("GIT_OBJECT_DIRECTORY", &m.root_real);
    for (k, v) in extra_env {
        c.env(k, v);
    }
    c.args(args).stdin(if stdin.is_some() { Stdio::piped() } else { Stdio::null() }).stdout(Stdio::piped()).stderr(Stdio::piped());
    let mut child = c.spawn().expect("spawn git");
    if let Some(d) = stdin {
        let mut si = child.stdin.take().unwrap();
        let _ = si.write_all(d);
    }
    let out = child.wait_with_output().expect("wait git");
    GitOut { ok: out.status.success(), code: out.status.code().unwrap_or(-1), stdout: out.stdout, stderr: out.stderr }
}

fn git_alternates(m: &Materialized) -> Vec<Vec<u8>> {
    let o = git_in(m, &[], &["count-objects", "-v"], None);
    let mut v = Vec::new();
    for l in o.stdout.split(|b| *b == b'\n') {
        if let Some(rest) = l.strip_prefix(b"alternate: ") {
            v.push(virt_of(&m.prefix, &normalize(&c_unquote(rest))));
        }
    }
    v
}

/// returns true when the real code hung (the caller must stop: the runaway thread keeps allocating)
fn run_world(rep: &mut Report, sc: &Scratch, k: &mut u64, w: &World, all_git: bool) -> bool {
    *k += 1;
    let m = materialize(sc, *k, w);
    let op = op_of("alt", w);
    let gop = op_of("gitalt", w);
    rep.bucket(&format!("world:{}", w.tag));
    rep.bucket(&format!("world:dirs{}", w.dirs.len().min(9)));
    // markers: one distinct blob in every object directory
    let mut ids: Vec<(usize, String)> = Vec::new();
    for (i, (d, _)) in w.dirs.iter().enumerate() {
        // written as a loose object straight into that directory (spawning git per directory is too slow)
        use gix_odb::Write;
        let real = real_of(&m.prefix, d);
        let store = gix_odb::loose::Store::at(real, gix_hash::Kind::Sha1);
        if let Ok(id) = store.write_buf(gix_object::Kind::Blob, format!("marker {k} {i}\n").as_bytes()) {
            ids.push((i, id.to_string()));
        }
    }
    let gix = gix_resolve(&m);
    let obs = match &gix {
        GixOut::Ok(v) => list_obs(v),
        GixOut::Cycle => "err:cycle".to_string(),
        GixOut::Parse => "err:parse".to_string(),
        GixOut::Other(_) => "err:other".to_string(),
        GixOut::Hang => "hang".to_string(),
    };
    rep.case(&op, &obs, w.dirs.len() > 1);
    if matches!(gix, GixOut::Hang) {
        rep.oracle_failure(&format!("alt {}", fnv_key(&op)), "resolve() did not return within 5 s (a cycle of alternates is followed instead of being reported)", &op);
        return true;
    }
    let git_list = git_alternates(&m);
    rep.git_checked(1);
    rep.case(&gop, &list_obs(&git_list), w.dirs.len() > 1);
    // ---- the property on the real code
    rep.oracle_checked();
    let key = format!("alt {}", fnv_key(&op));
    match w.tag.as_str() {
        "tree" => {
            match &gix {
                GixOut::Ok(v) => {
                    if *v != git_list {
                        let same_set = {
                            let mut a = v.clone();
                            let mut b = git_list.clone();
                            a.sort();
                            b.sort();
                            a == b
                        };
                        rep.oracle_failure(
                            &key,
                            &format!(
                                "alternates differ from git ({}): gitoxide consults [{}], git consults [{}]",
                                if same_set { "same directories, different order" } else { "different directories" },
                                v.iter().map(|p| String::from_utf8_lossy(p).to_string()).collect::<Vec<_>>().join(", "),
                                git_list.iter().map(|p| String::from_utf8_lossy(p).to_string()).collect::<Vec<_>>().join(", ")
                            ),
                            &op,
                        );
                    }
                }
                other => rep.oracle_failure(
                    &key,
                    &format!(
                        "resolve() fails on a tree of alternates that git reads ({}); git consults [{}]",
                        match other {
                            GixOut::Cycle => "Cycle".to_string(),
                            GixOut::Parse => "Parse".to_string(),
                            GixOut::Other(e) => e.clone(),
                            GixOut::Ok(_) | GixOut::Hang => unreachable!(),
                        },
                        git_list.iter().map(|p| String::from_utf8_lossy(p).to_string()).collect::<Vec<_>>().join(", ")
                    ),
                    &op,
                ),
            }
            // every object git reads through the chain is readable
            let mut input = String::new();
            for (_, id) in &ids {
                input.push_str(id);
                input.push('\n');
            }
            // (git spawns dominate the run time: in the quick tier git reads the markers back for every third
            // world only; a directory git lists is a directory git reads, so the list comparison above already
            // decides which markers git can see)
            let git_has: Vec<bool> = if all_git || *k % 3 == 0 {
                let o = git_in(&m, &[], &["cat-file", "--batch-check"], Some(input.as_bytes()));
                rep.git_checked(ids.len() as u64);
                String::from_utf8_lossy(&o.stdout).lines().map(|l| !l.ends_with("missing")).collect()
            } else {
                ids.iter().map(|(i, _)| w.dirs[*i].0 == w.root || git_list.contains(&w.dirs[*i].0)).collect()
            };
            let store = catch(|| gix_odb::at(m.root_real.clone()));
            match store {
                Ok(Ok(handle)) => {
                    use gix_object::Exists;
                    for ((i, id), gh) in ids.iter().zip(git_has.iter()) {
                        let oid = gix_hash::ObjectId::from_hex(id.as_bytes()).expect("hex id");
                        let has = handle.exists(&oid);
                        if *gh && !has {
                            rep.oracle_failure(
                                &key,
                                &format!("object {} stored in {} is readable by git through the alternates but not by gix_odb", id, String::from_utf8_lossy(&w.dirs[*i].0)),
                                &op,
                            );
                        }
                    }
                }
                _ => {
                    if git_has.iter().any(|x| *x) && matches!(gix, GixOut::Ok(_)) {
                        rep.oracle_failure(&key, "gix_odb::at(root) fails although resolve() succeeded", &op);
                    }
                }
            }
        }
        "cycle" => {
            if !matches!(gix, GixOut::Cycle) {
                rep.oracle_failure(&key, &format!("alternates form a cycle but resolve() answered {obs} instead of reporting it"), &op);
            }
        }
        other => rep.outside_domain(&format!("{other}: gitoxide {obs}; git {}", list_obs(&git_list))),
    }
    let _ = std::fs::remove_dir_all(sc.join(format!("g{k}")));
    false
}

fn fnv_key(s: &str) -> String {
    let mut h: u64 = 0xcbf29ce484222325;
    for b in s.bytes() {
        h ^= b as u64;
        h = h.wrapping_mul(0x100000001b3);
    }
    format!("{h:016x}")
}

// ------------------------------------------------------------------------------------- generator

fn quote_c(s: &[u8], r: &mut Rng) -> Vec<u8> {
    let mut o = vec![b'"'];
    for &b in s {
        match b {
            b'"' => o.extend_from_slice(b"\\\""),
            b'\\' => o.extend_from_slice(b"\\\\"),
            b'\n' => o.extend_from_slice(b"\\n"),
            b'\t' => o.extend_from_slice(b"\\t"),
            b'\r' => o.extend_from_slice(b"\\r"),
            7 => o.extend_from_slice(b"\\a"),
            8 => o.extend_from_slice(b"\\b"),
            12 => o.extend_from_slice(b"\\f"),
            11 => o.extend_from_slice(b"\\v"),
            b if b < 0x20 || b == 0x7f || (b >= 0x80 && r.chance(1, 2)) => o.extend_from_slice(format!("\\{:03o}", b).as_bytes()),
            b => o.push(b),
        }
    }
    o.push(b'"');
    o
}

fn relpath(from: &[u8], to: &[u8]) -> Vec<u8> {
    let f: Vec<&[u8]> = from.split(|b| *b == b'/').filter(|c| !c.is_empty()).collect();
    let t: Vec<&[u8]> = to.split(|b| *b == b'/').filter(|c| !c.is_empty()).collect();
    let mut k = 0;
    while k < f.len() && k < t.len() && f[k] == t[k] {
        k += 1;
    }
    let mut parts: Vec<&[u8]> = Vec::new();
    for _ in k..f.len() {
        parts.push(b"..");
    }
    for c in &t[k..] {
        parts.push(c);
    }
    if parts.is_empty() {
        return b".".to_vec();
    }
    parts.join(&b'/')
}

fn gen_world(r: &mut Rng) -> World {
    const COMPS: &[&[u8]] = &[b"a", b"b", b"c d", b"e\tf", b"q\"t", b"bs\\x", b"\xc3\xa9", b"x.git", b"deep", b"n\nl", b"#h"];
    const TAILS: &[&[u8]] = &[b"objects", b".git/objects", b"repo.git/objects"];
    // shape
    let kind = r.below(20);
    let (maxlevel, tag0) = match kind {
        0..=11 => (1 + r.usize(5), "tree"),
        12 | 13 => (6, "tree"),
        14 => (7 + r.usize(2), "outside-deep"),
        _ => (1 + r.usize(4), "tree"),
    };
    let mut tag = tag0.to_string();
    // node paths
    let mut paths: Vec<Vec<u8>> = Vec::new();
    let fresh_path = |r: &mut Rng, paths: &Vec<Vec<u8>>| -> Vec<u8> {
        loop {
            let depth = r.usize(4);
            let mut p = b"/R".to_vec();
            for _ in 0..depth {
                p.push(b'/');
                p.extend_from_slice(*r.pick(COMPS));
            }
            p.push(b'/');
            p.extend_from_slice(*r.pick(TAILS));
            if !paths.contains(&p) && !paths.iter().any(|q| q.starts_with(&[&p[..], b"/"].concat()) || p.starts_with(&[&q[..], b"/"].concat())) {
                return p;
            }
        }
    };
    let mut inside: Vec<Vec<u8>> = Vec::new();
    let mut level: Vec<usize> = vec![0];
    let mut parent: Vec<Option<usize>> = vec![None];
    paths.push(fresh_path(r, &paths));
    let chain = r.chance(1, 3);
    let mut frontier = vec![0usize];
    for lv in 1..=maxlevel {
        let mut next = Vec::new();
        for &p in &frontier {
            let fan = if chain { 1 } else { r.usize(4) };
            for _ in 0..fan {
                if paths.len() >= 14 {
                    break;
                }
                // sometimes the alternate lives INSIDE the directory that names it, under a name that makes the
                // relative entry start with an unusual byte: `#pool` (must be quoted, and is NOT a comment),
                // a space, a quote, a backslash, a control or non-ASCII byte
                let np = if r.chance(1, 4) {
                    const INSIDE: &[&[u8]] = &[b"#pool", b"#", b" sp", b" ", b"\"q", b"bs\\", b"\xc3\xa9", b"-dash", b"~t", b"\x01c", b"\xffz", b"#a b"];
                    let cand = [&paths[p][..], b"/", *r.pick(INSIDE)].concat();
                    if paths.contains(&cand) {
                        fresh_path(r, &paths)
                    } else {
                        inside.push(cand.clone());
                        cand
                    }
                } else {
                    fresh_path(r, &paths)
                };
                paths.push(np);
                level.push(lv);
                parent.push(Some(p));
                next.push(paths.len() - 1);
            }
        }
        if next.is_empty() {
            break;
        }
        // keep the tree narrow below the first levels
        if next.len() > 3 {
            r.shuffle(&mut next);
            next.truncate(3);
        }
        frontier = next;
    }
    let n = paths.len();
    // children lists in creation order
    let mut kids: Vec<Vec<usize>> = vec![Vec::new(); n];
    for i in 1..n {
        kids[parent[i].unwrap()].push(i);
    }
    // anomalies
    enum Extra {
        None,
        Cycle,
        Diamond,
        Missing,
        Malformed,
    }
    let extra = if tag == "tree" {
        match r.below(16) {
            0..=2 => Extra::Cycle,
            3 => Extra::Diamond,
            4 => Extra::Missing,
            5 => Extra::Malformed,
            _ => Extra::None,
        }
    } else {
        Extra::None
    };
    let is_ancestor_or_self = |a: usize, mut x: usize| -> bool {
        loop {
            if x == a {
                return true;
            }
            match parent[x] {
                Some(p) => x = p,
                None => return false,
            }
        }
    };
    // render files
    let mut files: Vec<Option<Vec<u8>>> = vec![None; n];
    let mut extra_at: Option<(usize, Vec<u8>)> = None;
    match extra {
        Extra::Cycle => {
            let from = r.usize(n);
            // an ancestor or the node itself
            let mut anc = from;
            for _ in 0..r.usize(level[from] + 1) {
                if let Some(p) = parent[anc] {
                    anc = p;
                }
            }
            tag = "cycle".into();
            extra_at = Some((from, paths[anc].clone()));
        }
        Extra::Diamond => {
            if n >= 3 {
                let from = r.usize(n);
                let to = 1 + r.usize(n - 1);
                if !is_ancestor_or_self(to, from) {
                    tag = "outside-duplicate".into();
                    extra_at = Some((from, paths[to].clone()));
                }
            }
        }
        Extra::Missing => {
            let from = r.usize(n);
            tag = "outside-missing".into();
            extra_at = Some((from, b"/R/nowhere/objects".to_vec()));
        }
        _ => {}
    }
    for i in 0..n {
        let mut targets: Vec<Vec<u8>> = kids[i].iter().map(|&c| paths[c].clone()).collect();
        if let Some((from, t)) = &extra_at {
            if *from == i {
                let at = r.usize(targets.len() + 1);
                targets.insert(at, t.clone());
            }
        }
        let malformed_here = matches!(extra, Extra::Malformed) && i == 0;
        if targets.is_empty() && !malformed_here {
            if r.chance(1, 8) {
                files[i] = Some(if r.chance(1, 2) { b"# nothing here\n\n".to_vec() } else { Vec::new() });
            }
            continue;
        }
        let mut c: Vec<u8> = Vec::new();
        if r.chance(1, 3) {
            c.extend_from_slice(b"# a comment, then an empty line\n\n");
        }
        for t in &targets {
            if r.chance(1, 6) {
                c.extend_from_slice(b"\n");
            }
            if r.chance(1, 8) && !t.contains(&b'\n') {
                c.extend_from_slice(b"#");
                c.extend_from_slice(t);
                c.extend_from_slice(b"\n");
            }
            let mut text = match if inside.contains(t) && r.chance(5, 6) { 2 } else { r.below(5) } {
                0 | 1 => t.clone(),
                2 | 3 => relpath(&paths[i], t),
                _ => {
                    let mut v = b"./".to_vec();
                    v.extend(relpath(&paths[i], t));
                    v
                }
            };
            if r.chance(1, 8) {
                text.push(b'/');
            }
            let must_quote = text.contains(&b'\n') || text.first() == Some(&b'"') || text.first() == Some(&b'#');
            if must_quote || r.chance(1, 3) {
                text = quote_c(&text, r);
            }
            c.extend_from_slice(&text);
            c.push(b'\n');
        }
        if malformed_here {
            tag = "outside-malformed".into();
            c.extend_from_slice(*r.pick(&[&b"\"/R/unterminated\n"[..], b"\"/R/bad\\qescape\"\n", b"\"/R/oct\\9\"\n", b"\"\n", b"\"/R/x\"trailing\n"]));
        }
        if r.chance(1, 4) && c.last() == Some(&b'\n') {
            c.pop();
        }
        files[i] = Some(c);
    }
    if level.iter().any(|l| *l > 6) && tag == "tree" {
        tag = "outside-deep".into();
    }
    let mut dirs: Vec<(Vec<u8>, Option<Vec<u8>>)> = paths.into_iter().zip(files).collect();
    let root = dirs[0].0.clone();
    dirs.sort();
    World { tag, root, dirs }
}

fn fixed_worlds() -> Vec<World> {
    let w = |tag: &str, root: &str, dirs: &[(&str, Option<&[u8]>)]| World {
        tag: tag.into(),
        root: root.as_bytes().to_vec(),
        dirs: {
            let mut d: Vec<(Vec<u8>, Option<Vec<u8>>)> = dirs.iter().map(|(p, c)| (p.as_bytes().to_vec(), c.map(|c| c.to_vec()))).collect();
            d.sort();
            d
        },
    };
    vec![
        // no alternates at all
        w("tree", "/R/a/objects", &[("/R/a/objects", None)]),
        // the case of DESIGN §7-f: relative entry in a nested file, repositories at different directory depths
        w(
            "tree",
            "/R/top/.git/objects",
            &[
                ("/R/top/.git/objects", Some(b"/R/x/y/mid/objects\n")),
                ("/R/x/y/mid/objects", Some(b"../../leaf/objects\n")),
                ("/R/x/y/leaf/objects", None),
                ("/R/top/leaf/objects", None),
            ],
        ),
        // order: two children, the first with a child of its own
        w(
            "tree",
            "/R/r/objects",
            &[
                ("/R/r/objects", Some(b"../../a/objects\n../../b/objects\n")),
                ("/R/a/objects", Some(b"../../a1/objects\n")),
                ("/R/a1/objects", None),
                ("/R/b/objects", None),
            ],
        ),
        // comment + blank + quoted
        w("tree", "/R/r/objects", &[("/R/r/objects", Some(b"# c\n\n\"/R/t\\tb/objects\"\n")), ("/R/t\tb/objects", None)]),
        // a quoted entry whose unquoted form starts with `#` is an entry, not a comment; escapes and octal
        w(
            "tree",
            "/R/r/objects",
            &[
                ("/R/r/objects", Some(b"\"#pool\"\n\" sp\"\n\"q\\\"t\\\\x\\303\\251\"\n")),
                ("/R/r/objects/#pool", Some(b"\"#\"\n")),
                ("/R/r/objects/#pool/#", None),
                ("/R/r/objects/ sp", None),
                ("/R/r/objects/q\"t\\xé", None),
            ],
        ),
        // two-node cycle, relative
        w("cycle", "/R/s/a", &[("/R/s/a", Some(b"/R/s/b")), ("/R/s/b", Some(b"../a"))]),
        // self reference
        w("cycle", "/R/s/a", &[("/R/s/a", Some(b"../a\n"))]),
        // chain of six levels (git's limit)
        w(
            "tree",
            "/R/0/objects",
            &[
                ("/R/0/objects", Some(b"../../1/objects\n")),
                ("/R/1/objects", Some(b"../../2/objects\n")),
                ("/R/2/objects", Some(b"../../3/objects\n")),
                ("/R/3/objects", Some(b"../../4/objects\n")),
                ("/R/4/objects", Some(b"../../5/objects\n")),
                ("/R/5/objects", Some(b"../../6/objects\n")),
                ("/R/6/objects", None),
            ],
        ),
    ]
}

fn main() {
    let args = Args::parse();
    let mut rep = Report::new("C13", &args);
    let mut r = Rng::new(args.seed);
    let sc = Scratch::new("c13");
    let mut k = 0u64;
    if let Some(ops) = replay_ops(&args) {
        for op in ops {
            let a: Vec<&str> = op.split(' ').collect();
            if a[0] == "alt" || a[0] == "gitalt" {
                if let Some(w) = world_of_op(&a) {
                    if run_world(&mut rep, &sc, &mut k, &w, true) {
                        break;
                    }
                }
            }
        }
        rep.finish();
        return;
    }
    let mut hung = false;
    for w in fixed_worlds() {
        if run_world(&mut rep, &sc, &mut k, &w, args.thorough) {
            hung = true;
            break;
        }
    }
    let n = args.budget(90, 1_200);
    for _ in 0..n {
        if hung {
            break;
        }
        let w = gen_world(&mut r);
        hung = run_world(&mut rep, &sc, &mut k, &w, args.thorough);
    }
    let _: BTreeMap<u8, u8> = BTreeMap::new();
    rep.finish();
    drop(sc);
    // a hung resolve() is still running on its abandoned thread: leave now
    std::process::exit(0);
}
