//! Random repositories with worktree mutations. File and index times are set explicitly
//! (`filetime`) so that racy situations are constructed rather than hoped for.
use gix::bstr::BString;
use hcommon::*;
use std::collections::BTreeMap;
use std::path::{Path, PathBuf};

pub struct Scenario {
    /// the op that rebuilds this scenario in a replay
    pub op: String,
    pub dir: PathBuf,
    pub seed: u64,
    pub desc: String,
    /// the configuration that matters for the stat comparison
    pub config: String,
    /// path -> what was done to it
    pub what: BTreeMap<BString, String>,
}

pub const T0: i64 = 1_700_000_000;

fn write(dir: &Path, rel: &str, content: &[u8]) {
    let p = dir.join(rel);
    std::fs::create_dir_all(p.parent().unwrap()).unwrap();
    let _ = std::fs::remove_file(&p);
    std::fs::write(p, content).unwrap();
}

fn set_mtime(dir: &Path, rel: &str, secs: i64) {
    let p = dir.join(rel);
    let t = filetime::FileTime::from_unix_time(secs, 0);
    let _ = filetime::set_symlink_file_times(&p, t, t);
}

fn chmod(dir: &Path, rel: &str, exec: bool) {
    use std::os::unix::fs::PermissionsExt;
    let p = dir.join(rel);
    let _ = std::fs::set_permissions(&p, std::fs::Permissions::from_mode(if exec { 0o755 } else { 0o644 }));
}

fn g(dir: &Path, args: &[&str]) -> String {
    git_ok(dir, args, None)
}

/// number of deterministic single-mutation scenarios (every tracked path x every mutation kind)
pub const CORPUS: u64 = 8 * 13;

/// worktree mutations applied to an intent-to-add entry (`git add -N ita`, then …)
pub const ITA_KINDS: u64 = 9;

/// deterministic intent-to-add scenarios: corpus numbers `CORPUS .. CORPUS + ITA_CORPUS` (every
/// mutation kind x two configurations / index timestamps)
pub const ITA_CORPUS: u64 = ITA_KINDS * 2;

/// `git add -N ita` and then one worktree mutation of it; returns the description
fn ita_entry(dir: &Path, kind: u64, with_inner: bool) -> &'static str {
    write(dir, "ita", b"intent\n");
    set_mtime(dir, "ita", T0);
    g(dir, &["add", "-N", "ita"]);
    match kind {
        1 => {
            let _ = std::fs::remove_file(dir.join("ita"));
            "intent-to-add, then deleted"
        }
        2 => {
            let _ = std::fs::remove_file(dir.join("ita"));
            std::fs::create_dir_all(dir.join("ita")).unwrap();
            if with_inner {
                write(dir, "ita/inner", b"inner\n");
            }
            "intent-to-add, then replaced by a directory"
        }
        3 => {
            let _ = std::fs::remove_file(dir.join("ita"));
            std::os::unix::fs::symlink("f2.txt", dir.join("ita")).unwrap();
            set_mtime(dir, "ita", T0);
            "intent-to-add, then replaced by a symlink"
        }
        4 => {
            write(dir, "ita", b"");
            set_mtime(dir, "ita", T0);
            "intent-to-add, then truncated to an empty file"
        }
        5 => {
            chmod(dir, "ita", true);
            set_mtime(dir, "ita", T0);
            "intent-to-add, then made executable"
        }
        6 => {
            write(dir, "ita", b"a different and longer content\n");
            set_mtime(dir, "ita", T0 + 50);
            "intent-to-add, then content and size changed"
        }
        7 => {
            set_mtime(dir, "ita", T0 + 7);
            "intent-to-add, then touched"
        }
        8 => {
            let _ = std::fs::remove_file(dir.join("ita"));
            std::fs::create_dir_all(dir.join("ita/sub")).unwrap();
            write(dir, "ita/sub/deep", b"deep\n");
            "intent-to-add, then replaced by a directory tree"
        }
        _ => "intent-to-add",
    }
}

/// `corpus = Some(k)`: exactly one mutation (path k / 13, kind k % 13), configuration and index
/// timestamp cycling with k; otherwise everything is drawn from the seed
pub fn build(seed: u64, corpus: Option<u64>, scratch: &Scratch) -> Scenario {
    let mut r = Rng::new(seed ^ 0x4949);
    let dir = scratch.join(format!("s{}{seed}", if corpus.is_some() { "c" } else { "" }));
    let _ = std::fs::remove_dir_all(&dir);
    std::fs::create_dir_all(&dir).unwrap();
    g(&dir, &["init", "-q", "."]);
    let mut what: BTreeMap<BString, String> = BTreeMap::new();

    // tracked content
    let files: Vec<(&str, &[u8], bool)> = vec![
        ("f1", b"one\n", false),
        ("f2.txt", b"two two\n", false),
        ("dir/a", b"aaa\n", false),
        ("dir/sub/b", b"bbbb\n", false),
        ("x.sh", b"#!/bin/sh\n", true),
        ("empty", b"", false),
        ("z/deep/er/c", b"c\n", false),
    ];
    for (i, (p, c, x)) in files.iter().enumerate() {
        write(&dir, p, c);
        chmod(&dir, p, *x);
        set_mtime(&dir, p, T0 + (i as i64 % 3));
    }
    std::os::unix::fs::symlink("f1", dir.join("link")).unwrap();
    set_mtime(&dir, "link", T0 + 1);
    write(&dir, ".gitignore", b"*.log\nign/\nbuild/\n!keep.log\n");
    set_mtime(&dir, ".gitignore", T0);
    g(&dir, &["add", "-A"]);
    g(&dir, &["commit", "-q", "-m", "init"]);

    // configuration toggles (after the commit, so the entries have their natural modes)
    let (file_mode, symlinks, trust_ctime, check_stat_minimal) = match corpus {
        Some(k) => (k % 5 != 3, k % 7 != 5, k % 2 == 0, k % 4 == 1),
        None => (!r.chance(1, 4), !r.chance(1, 5), !r.chance(1, 3), r.chance(1, 4)),
    };
    let mut cfg = String::new();
    use std::fmt::Write as _;
    let _ = write!(cfg, "[core]\n\tfileMode = {file_mode}\n\tsymlinks = {symlinks}\n\ttrustctime = {trust_ctime}\n");
    if check_stat_minimal {
        cfg.push_str("\tcheckStat = minimal\n");
    }
    let cfg_path = dir.join(".git/config");
    let mut existing = std::fs::read_to_string(&cfg_path).unwrap_or_default();
    existing.push_str(&cfg);
    std::fs::write(&cfg_path, existing).unwrap();
    let config = format!(
        "fileMode={file_mode} symlinks={symlinks} trustctime={trust_ctime} checkStat={}",
        if check_stat_minimal { "minimal" } else { "default" }
    );

    // worktree mutations of tracked files
    let tracked = ["f1", "f2.txt", "dir/a", "dir/sub/b", "x.sh", "empty", "z/deep/er/c", "link"];
    let recorded_mtime = |p: &str| -> i64 {
        match tracked.iter().position(|x| *x == p) {
            Some(7) => T0 + 1,
            Some(i) => T0 + (i as i64 % 3),
            None => T0,
        }
    };
    let mut desc = Vec::new();
    let ita_corpus = corpus.filter(|k| *k >= CORPUS).map(|k| k - CORPUS);
    let nmut = if ita_corpus.is_some() {
        0
    } else if corpus.is_some() {
        1
    } else {
        r.usize(6)
    };
    let mut smudge: Option<&str> = None;
    for _ in 0..nmut {
        let p = match corpus {
            Some(k) => tracked[(k / 13) as usize % tracked.len()],
            None => *r.pick(&tracked),
        };
        if what.contains_key(&BString::from(p)) {
            continue;
        }
        let is_link = p == "link";
        let kind = match corpus {
            Some(k) => k % 13,
            None => r.below(14),
        };
        let m = match kind {
            0 if !is_link => {
                write(&dir, p, b"a different and longer content\n");
                set_mtime(&dir, p, recorded_mtime(p) + 50);
                "content and size changed"
            }
            1 | 2 if !is_link && p != "empty" => {
                // same size, same mtime: only the content (and ctime) differ
                let old = std::fs::read(dir.join(p)).unwrap();
                let new: Vec<u8> = old.iter().map(|b| if *b == b'\n' { b'\n' } else { b'X' }).collect();
                let exec = p == "x.sh";
                write(&dir, p, &new);
                chmod(&dir, p, exec);
                set_mtime(&dir, p, recorded_mtime(p));
                "same-size content change with the recorded mtime"
            }
            3 if !is_link => {
                set_mtime(&dir, p, recorded_mtime(p) + 7);
                "touched (mtime only)"
            }
            4 if !is_link => {
                let exec = p == "x.sh";
                chmod(&dir, p, !exec);
                set_mtime(&dir, p, recorded_mtime(p));
                "executable bit flipped"
            }
            5 => {
                let _ = std::fs::remove_file(dir.join(p));
                "deleted"
            }
            6 if !is_link => {
                let _ = std::fs::remove_file(dir.join(p));
                std::fs::create_dir_all(dir.join(p)).unwrap();
                if r.chance(1, 2) {
                    write(&dir, &format!("{p}/inner"), b"inner\n");
                }
                "replaced by a directory"
            }
            7 if !is_link => {
                let _ = std::fs::remove_file(dir.join(p));
                std::os::unix::fs::symlink("f2.txt", dir.join(p)).unwrap();
                set_mtime(&dir, p, recorded_mtime(p));
                if p == "x.sh" {
                    "executable file replaced by a symlink"
                } else {
                    "file replaced by a symlink"
                }
            }
            8 if is_link => {
                let _ = std::fs::remove_file(dir.join(p));
                write(&dir, p, b"f1");
                set_mtime(&dir, p, recorded_mtime(p));
                "symlink replaced by a file with the target as content"
            }
            9 if is_link => {
                let _ = std::fs::remove_file(dir.join(p));
                std::os::unix::fs::symlink("f2", dir.join(p)).unwrap();
                set_mtime(&dir, p, recorded_mtime(p));
                "symlink retargeted (same length)"
            }
            10 if !is_link && p != "empty" => {
                write(&dir, p, b"");
                chmod(&dir, p, p == "x.sh");
                set_mtime(&dir, p, recorded_mtime(p));
                "truncated to empty with the recorded mtime"
            }
            11 if !is_link && p != "empty" => {
                smudge = Some(p);
                // the worktree file becomes empty, with the recorded mtime; the index entry gets size 0 below
                write(&dir, p, b"");
                chmod(&dir, p, p == "x.sh");
                set_mtime(&dir, p, recorded_mtime(p));
                "racily smudged entry (recorded size 0) and the file truncated to empty"
            }
            12 if !is_link && p != "empty" => {
                smudge = Some(p);
                "racily smudged entry (recorded size 0), file unchanged"
            }
            _ => continue,
        };
        what.insert(p.into(), m.to_string());
        desc.push(format!("{p}: {m}"));
    }
    let ita_kind = match ita_corpus {
        Some(j) => Some((j % ITA_KINDS, j % 2 == 0)),
        None if corpus.is_none() && r.chance(1, 3) => Some((if r.chance(1, 4) { 0 } else { r.below(ITA_KINDS) }, r.chance(1, 2))),
        None => None,
    };
    if let Some((kind, with_inner)) = ita_kind {
        let m = ita_entry(&dir, kind, with_inner);
        what.insert("ita".into(), m.to_string());
        desc.push(format!("ita: {m}"));
    }

    // untracked and ignored content
    let extras: Vec<(&str, &str)> = vec![
        ("u1", "untracked file"),
        ("udir/u2", "untracked dir with file"),
        ("udir/sub/u3", "untracked nested"),
        ("dir/untracked", "untracked file in tracked dir"),
        ("x.log", "ignored file"),
        ("keep.log", "negated ignore"),
        ("ign/i1", "ignored dir"),
        ("ign/sub/i2", "ignored dir nested"),
        ("build/out/o", "ignored dir deep"),
        ("dir/y.log", "ignored file in tracked dir"),
        ("mixed/m.log", "dir with only ignored file"),
        ("mixed2/m.log", "dir with ignored and untracked"),
        ("mixed2/n", "dir with ignored and untracked"),
        ("udir3/a/b/c/d", "deep untracked"),
        ("dir/sub/new/file", "untracked dir in tracked dir"),
    ];
    for (p, d) in &extras {
        if r.chance(1, 3) {
            write(&dir, p, b"x\n");
            desc.push(format!("{p}: {d}"));
        }
    }
    for p in ["emptydir", "udir2/emptysub", "dir/emptyintracked", "ign/emptyignored"] {
        if r.chance(1, 5) {
            std::fs::create_dir_all(dir.join(p)).unwrap();
            desc.push(format!("{p}/: empty directory"));
        }
    }
    if r.chance(1, 6) {
        std::fs::create_dir_all(dir.join("nested")).unwrap();
        g(&dir.join("nested"), &["init", "-q", "."]);
        write(&dir, "nested/file", b"n\n");
        desc.push("nested/: nested repository".into());
    }

    // the smudge: rewrite the index with size 0 for that entry (what git does to racily clean entries)
    let index_path = dir.join(".git/index");
    if let Some(p) = smudge {
        let mut idx = gix_index::File::at(&index_path, gix_hash::Kind::Sha1, false, Default::default()).expect("index");
        let pos = idx.entry_index_by_path(p.into());
        if let Ok(i) = pos {
            idx.entries_mut()[i].stat.size = 0;
            idx.write(Default::default()).expect("write index");
        }
    }
    // the index timestamp: later than all files (not racy), equal to some, or earlier (racy)
    let ts = match corpus.map_or_else(|| r.below(4), |k| (k / 3) % 4) {
        0 | 1 => T0 + 1000,
        2 => match corpus {
            // exactly the recorded mtime of the mutated file: racy by equality
            Some(k) => recorded_mtime(tracked[(k / 13) as usize % tracked.len()]),
            None => T0 + r.range(0, 2),
        },
        _ => T0 - 5,
    };
    filetime::set_file_mtime(&index_path, filetime::FileTime::from_unix_time(ts, 0)).unwrap();
    desc.push(format!("index timestamp T0{:+}", ts - T0));
    Scenario {
        op: match corpus {
            Some(k) => format!("corpus {k}"),
            None => format!("scenario {seed}"),
        },
        dir,
        seed,
        desc: desc.join("; "),
        config,
        what,
    }
}
