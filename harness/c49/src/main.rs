//! C49 — status: per-entry decision (index entry vs worktree file) and directory classification /
//! collapsing, tied to the Lean model by facts exported here, and compared with `git status`.
use gix::bstr::{BString, ByteSlice};
use hcommon::*;
use std::collections::BTreeMap;
use std::path::{Path, PathBuf};

mod scenario;

fn b(x: bool) -> u8 {
    x as u8
}

/// Stat fields as the model needs them, made reproducible: times we did not set ourselves and
/// inode/owner numbers are replaced by small numbers that preserve the only thing the comparison
/// looks at (equality with the other side; for the mtime also the order relative to the index
/// timestamp, which is always below T0+2000).
fn canon_pair(e: &gix_index::entry::Stat, f: Option<&gix_index::entry::Stat>) -> (String, String) {
    let clamp = |secs: u32| -> u32 {
        let lo = (scenario::T0 - 100) as u32;
        let hi = (scenario::T0 + 2000) as u32;
        if secs >= lo && secs <= hi {
            secs
        } else {
            (scenario::T0 + 5000) as u32
        }
    };
    let es = format!("{} {} 1 0 1 1 1 1 {}", clamp(e.mtime.secs), e.mtime.nsecs, e.size);
    let fs = match f {
        None => String::new(),
        Some(f) => {
            let fm = if f.mtime.secs == e.mtime.secs { clamp(e.mtime.secs) } else { clamp(f.mtime.secs) };
            let fmn = if f.mtime.nsecs == e.mtime.nsecs { e.mtime.nsecs } else { e.mtime.nsecs + 1 };
            let eq = |a: u32, b: u32| if a == b { 1 } else { 2 };
            format!(
                "{} {} {} {} {} {} {} {} {}",
                fm,
                fmn,
                eq(e.ctime.secs, f.ctime.secs),
                if e.ctime.nsecs == f.ctime.nsecs { 0 } else { 1 },
                eq(e.dev, f.dev),
                eq(e.ino, f.ino),
                eq(e.uid, f.uid),
                eq(e.gid, f.gid),
                f.size
            )
        }
    };
    (es, fs)
}

fn mode_str(m: gix_index::entry::Mode) -> &'static str {
    use gix_index::entry::Mode;
    if m == Mode::FILE {
        "file"
    } else if m == Mode::FILE_EXECUTABLE {
        "exec"
    } else if m == Mode::SYMLINK {
        "symlink"
    } else if m == Mode::COMMIT {
        "commit"
    } else if m == Mode::DIR {
        "dir"
    } else {
        "other"
    }
}

/// the status gitoxide computed for an entry, as the model prints it
fn status_str(s: &gix_status::index_as_worktree::EntryStatus<(), gix::submodule::Status>) -> String {
    use gix_status::index_as_worktree::{Change, EntryStatus};
    match s {
        EntryStatus::Conflict(_) => "conflict".into(),
        EntryStatus::NeedsUpdate(_) => "needs-update".into(),
        EntryStatus::IntentToAdd => "ita".into(),
        EntryStatus::Change(c) => match c {
            Change::Removed => "removed".into(),
            Change::Type => "type".into(),
            Change::Modification { executable_bit_changed, content_change, set_entry_stat_size_zero } => format!(
                "modified:{}{}{}",
                b(*executable_bit_changed),
                b(content_change.is_some()),
                b(*set_entry_stat_size_zero)
            ),
            Change::SubmoduleModification(_) => "submodule".into(),
        },
    }
}

/// the letter `git status --porcelain=v2` shows in the worktree column for that status
fn letter_of(status: &str) -> char {
    match status {
        "removed" => 'D',
        "type" => 'T',
        "ita" => 'A',
        s if s.starts_with("modified") => 'M',
        "conflict" => 'U',
        _ => '.',
    }
}

pub struct GixStatus {
    /// path -> status string, for tracked entries gitoxide reported
    pub tracked: BTreeMap<BString, String>,
    /// (path with trailing slash for directories, "untracked" | "ignored")
    pub walk: Vec<(BString, &'static str)>,
}

#[derive(Clone, Copy, PartialEq, Eq, Debug)]
pub enum UMode {
    No,
    Normal,
    All,
}

impl UMode {
    fn git(self) -> &'static str {
        match self {
            UMode::No => "no",
            UMode::Normal => "normal",
            UMode::All => "all",
        }
    }
}

pub fn gix_status(dir: &Path, mode: UMode) -> Result<GixStatus, String> {
    let repo = gix::open_opts(dir, gix::open::Options::isolated()).map_err(|e| e.to_string())?;
    let untracked = match mode {
        UMode::No => gix::status::UntrackedFiles::None,
        UMode::Normal => gix::status::UntrackedFiles::Collapsed,
        UMode::All => gix::status::UntrackedFiles::Files,
    };
    let ignored = match mode {
        UMode::Normal => Some(gix_dir::walk::EmissionMode::CollapseDirectory),
        _ => Some(gix_dir::walk::EmissionMode::Matching),
    };
    let iter = repo
        .status(gix::progress::Discard)
        .map_err(|e| e.to_string())?
        .untracked_files(untracked)
        .dirwalk_options(|o| {
            o.emit_ignored(ignored)
                .emit_collapsed(Some(gix_dir::walk::CollapsedEntriesEmissionMode::OnStatusMismatch))
        })
        .into_index_worktree_iter(Vec::new())
        .map_err(|e| e.to_string())?;
    let mut out = GixStatus { tracked: BTreeMap::new(), walk: Vec::new() };
    for item in iter {
        let item = item.map_err(|e| e.to_string())?;
        use gix::status::index_worktree::iter::Item;
        match item {
            Item::Modification { rela_path, status, .. } => {
                out.tracked.insert(rela_path, status_str(&status));
            }
            Item::DirectoryContents { entry, .. } => {
                let mut p = entry.rela_path.clone();
                if entry.disk_kind.map_or(false, |k| k.is_dir()) {
                    p.push(b'/');
                }
                let st = match entry.status {
                    gix_dir::entry::Status::Untracked => "untracked",
                    gix_dir::entry::Status::Ignored(_) => "ignored",
                    gix_dir::entry::Status::Tracked => "tracked",
                    gix_dir::entry::Status::Pruned => "pruned",
                };
                out.walk.push((p, st));
            }
            Item::Rewrite { .. } => {}
        }
    }
    out.walk.sort();
    Ok(out)
}

struct Collect {
    out: BTreeMap<BString, String>,
}

impl<'index> gix_status::index_as_worktree_with_renames::VisitEntry<'index> for Collect {
    type ContentChange = ();
    type SubmoduleStatus = gix::submodule::Status;
    fn visit_entry(
        &mut self,
        entry: gix_status::index_as_worktree_with_renames::Entry<'index, Self::ContentChange, Self::SubmoduleStatus>,
    ) {
        if let gix_status::index_as_worktree_with_renames::Entry::Modification { rela_path, status, .. } = entry {
            self.out.insert(rela_path.to_owned(), status_str(&status));
        }
    }
}

/// the plumbing-level result (`gix_status::index_as_worktree` through `Repository::index_worktree_status`):
/// every entry status including `NeedsUpdate` and the `set_entry_stat_size_zero` flag
pub fn gix_plumbing(dir: &Path) -> Result<BTreeMap<BString, String>, String> {
    let repo = gix::open_opts(dir, gix::open::Options::isolated()).map_err(|e| e.to_string())?;
    let index = repo.index_or_empty().map_err(|e| e.to_string())?;
    let submodule = gix::status::index_worktree::BuiltinSubmoduleStatus::new(repo.clone().into_sync(), Default::default())
        .map_err(|e| e.to_string())?;
    let mut c = Collect { out: BTreeMap::new() };
    repo.index_worktree_status(
        &index,
        Vec::<BString>::new(),
        &mut c,
        gix_status::index_as_worktree::traits::FastEq,
        submodule,
        &mut gix::progress::Discard,
        &std::sync::atomic::AtomicBool::new(false),
        gix::status::index_worktree::Options {
            sorting: None,
            dirwalk_options: None,
            rewrites: None,
            thread_limit: None,
        },
    )
    .map_err(|e| e.to_string())?;
    Ok(c.out)
}

pub struct GitStatus {
    /// path -> worktree-column letter for tracked paths that git lists
    pub tracked: BTreeMap<BString, char>,
    pub walk: Vec<(BString, &'static str)>,
}

pub fn git_status(dir: &Path, mode: UMode) -> GitStatus {
    let um = format!("--untracked-files={}", mode.git());
    let o = git(
        dir,
        &["--no-optional-locks", "status", "--porcelain=v2", "--ignored", "-z", &um],
        None,
    );
    assert!(o.ok, "git status failed: {}", String::from_utf8_lossy(&o.stderr));
    let mut out = GitStatus { tracked: BTreeMap::new(), walk: Vec::new() };
    let mut it = o.stdout.split(|c| *c == 0).filter(|r| !r.is_empty());
    while let Some(rec) = it.next() {
        match rec[0] {
            b'1' => {
                // 1 XY sub mH mI mW hH hI path
                let f: Vec<&[u8]> = rec.splitn(9, |c| *c == b' ').collect();
                let y = f[1][1] as char;
                out.tracked.insert(f[8].into(), y);
            }
            b'2' => {
                let f: Vec<&[u8]> = rec.splitn(10, |c| *c == b' ').collect();
                let y = f[1][1] as char;
                out.tracked.insert(f[9].into(), y);
                it.next(); // the original path
            }
            b'u' => {
                let f: Vec<&[u8]> = rec.splitn(11, |c| *c == b' ').collect();
                out.tracked.insert(f[10].into(), 'U');
            }
            b'?' => out.walk.push((rec[2..].into(), "untracked")),
            b'!' => out.walk.push((rec[2..].into(), "ignored")),
            _ => {}
        }
    }
    out.walk.sort();
    out
}

/// facts about every stage-0 index entry, as an `entry …` op line for the model
fn entry_ops(dir: &Path) -> Vec<(BString, String)> {
    let repo = gix::open_opts(dir, gix::open::Options::isolated()).expect("open");
    let index = repo.index_or_empty().expect("index");
    let ts = index.timestamp();
    let so = repo.stat_options().expect("stat options");
    let fs = repo.filesystem_options().expect("fs options");
    let mut out = Vec::new();
    for e in index.entries() {
        if e.stage_raw() != 0 {
            continue;
        }
        let path = e.path(&index).to_owned();
        use gix_index::entry::Flags;
        let skip = e.flags.intersects(Flags::UPTODATE | Flags::SKIP_WORKTREE | Flags::ASSUME_VALID | Flags::FSMONITOR_VALID);
        let ita = e.flags.contains(Flags::INTENT_TO_ADD);
        let full = dir.join(gix::path::from_bstr(path.as_bstr()));
        let mut estat = canon_pair(&e.stat, None).0;
        let (lookup, hash_differs) = match gix_index::fs::Metadata::from_path_no_follow(&full) {
            Err(_) => ("nf".to_string(), false),
            Ok(m) => {
                let kind = if m.is_dir() {
                    "dir"
                } else if m.is_symlink() {
                    "symlink"
                } else if m.is_file() {
                    "file"
                } else {
                    "other"
                };
                let st = gix_index::entry::Stat::from_fs(&m).expect("stat");
                // what hashing the worktree content gives (no filters are configured in these repositories)
                let content: Option<Vec<u8>> = if m.is_symlink() && fs.symlink {
                    std::fs::read_link(&full).ok().map(|p| gix::path::into_bstr(p).into_owned().into())
                } else if m.is_file() {
                    std::fs::read(&full).ok()
                } else if m.is_symlink() {
                    std::fs::read(&full).ok()
                } else {
                    None
                };
                let differs = content.map_or(true, |c| {
                    gix_object::compute_hash(gix_hash::Kind::Sha1, gix_object::Kind::Blob, &c) != e.id
                });
                let (es, fs_) = canon_pair(&e.stat, Some(&st));
                estat = es;
                (format!("{kind} {} {} {}", b(m.is_executable()), fs_, m.len()), differs)
            }
        };
        let op = format!(
            "entry {} {} {} {} {} {} {} {} {} {} {} {} {} {} {}",
            mode_str(e.mode),
            b(skip),
            b(ita),
            b(e.id.is_empty_blob()),
            estat,
            lookup,
            ts.unix_seconds(),
            ts.nanoseconds(),
            b(so.trust_ctime),
            b(so.check_stat),
            b(so.use_nsec),
            b(so.use_stdev),
            b(fs.symlink),
            b(fs.executable_bit),
            b(hash_differs)
        );
        out.push((path, op));
    }
    out
}

/// the directory tree with the facts `classify::path` uses, serialised for the model
fn tree_op(dir: &Path, mode: UMode) -> String {
    let repo = gix::open_opts(dir, gix::open::Options::isolated()).expect("open");
    let index = repo.index_or_empty().expect("index");
    let mut excludes = repo
        .excludes(&index, None, gix::worktree::stack::state::ignore::Source::WorktreeThenIdMappingIfNotSkipped)
        .expect("excludes");
    fn rec(
        repo: &gix::Repository,
        index: &gix_index::State,
        excludes: &mut gix::AttributeStack<'_>,
        abs: &Path,
        rel: &[u8],
        out: &mut String,
    ) -> usize {
        let mut names: Vec<std::ffi::OsString> = std::fs::read_dir(abs).map(|d| d.filter_map(|e| e.ok()).map(|e| e.file_name()).collect()).unwrap_or_default();
        names.sort();
        let n = names.len();
        for name in names {
            let nb: BString = gix::path::os_str_into_bstr(&name).expect("utf8").to_owned();
            let mut r: Vec<u8> = rel.to_vec();
            if !r.is_empty() {
                r.push(b'/');
            }
            r.extend_from_slice(&nb);
            let full = abs.join(&name);
            let md = std::fs::symlink_metadata(&full).expect("lstat");
            let is_dir = md.is_dir();
            let index_file = index.entry_by_path(r.as_bstr()).is_some();
            let mut prefix = r.clone();
            prefix.push(b'/');
            let index_dir = index.prefixed_entries_range(prefix.as_bstr()).is_some();
            let excluded = excludes
                .at_entry(r.as_bstr(), Some(if is_dir { gix_index::entry::Mode::DIR } else { gix_index::entry::Mode::FILE }))
                .ok()
                .and_then(|p| p.excluded_kind());
            let nested = is_dir && full.join(".git").join("HEAD").exists();
            let flags = format!(
                "{}{}{}{}{}{}",
                b(nb == ".git"),
                b(is_dir),
                b(index_file),
                b(index_dir),
                match excluded {
                    None => '0',
                    Some(gix::ignore::Kind::Expendable) => 'e',
                    Some(gix::ignore::Kind::Precious) => 'p',
                },
                b(nested)
            );
            if is_dir && nb != ".git" && !nested {
                let mut sub = String::new();
                let k = rec(repo, index, excludes, &full, &r, &mut sub);
                out.push_str(&format!(" d {} {} {}{}", hex(&nb), flags, k, sub));
            } else if is_dir {
                out.push_str(&format!(" d {} {} 0", hex(&nb), flags));
            } else {
                out.push_str(&format!(" f {} {}", hex(&nb), flags));
            }
        }
        n
    }
    let mut body = String::new();
    let n = rec(&repo, &index, &mut excludes, dir, b"", &mut body);
    format!("walk {} {}{}", mode.git(), n, body)
}

fn walk_obs(w: &[(BString, &'static str)]) -> String {
    if w.is_empty() {
        return "-".into();
    }
    w.iter().map(|(p, s)| format!("{}:{}", hex(p), s)).collect::<Vec<_>>().join(",")
}

fn run_scenario(rep: &mut Report, sc: &scenario::Scenario) {
    let dir = &sc.dir;
    // (T) per-entry facts before anything touches the index, then what gitoxide says
    let ops = entry_ops(dir);
    for mode in [UMode::No, UMode::Normal, UMode::All] {
        let treeop = if mode != UMode::No { Some(tree_op(dir, mode)) } else { None };
        let g = match catch(|| gix_status(dir, mode)) {
            Ok(Ok(g)) => g,
            Ok(Err(e)) => {
                rep.note(&format!("gix status error in scenario {} ({}): {e}", sc.seed, sc.desc));
                rep.bucket("status:gix-error");
                continue;
            }
            Err(p) => {
                rep.oracle_failure(
                    &format!("gix status panics: {}", sc.desc),
                    &format!("scenario {}: {p}", sc.seed),
                    &sc.op,
                );
                continue;
            }
        };
        if mode == UMode::No {
            let plumbing = match catch(|| gix_plumbing(dir)) {
                Ok(Ok(p)) => p,
                other => {
                    rep.note(&format!("plumbing status failed in scenario {}: {:?}", sc.seed, other.map(|r| r.err())));
                    BTreeMap::new()
                }
            };
            for (path, op) in &ops {
                let obs = plumbing.get(path).cloned().unwrap_or_else(|| "unchanged".into());
                rep.bucket(&format!("entry:{}", obs.split(':').next().unwrap()));
                if obs != "conflict" && obs != "submodule" {
                    rep.case(op, &obs, obs != "unchanged");
                }
            }
        }
        if let Some(op) = treeop {
            rep.case(&op, &walk_obs(&g.walk), !g.walk.is_empty());
        }
        // (O) the property itself: git status says the same
        let git = git_status(dir, mode);
        rep.git_checked(1);
        rep.oracle_checked();
        rep.oracle_only(&format!("scenario {} -u{} {}", sc.seed, mode.git(), sc.desc), true);
        let mut paths: Vec<&BString> = g.tracked.keys().chain(git.tracked.keys()).collect();
        paths.sort();
        paths.dedup();
        for p in paths {
            let gl = g.tracked.get(p).map_or('.', |s| letter_of(s));
            let tl = git.tracked.get(p).copied().unwrap_or('.');
            if gl != tl {
                let what = sc.what.get(p).cloned().unwrap_or_else(|| "untouched".to_string());
                rep.bucket("status:tracked-differ");
                let is_link_on_disk = std::fs::symlink_metadata(dir.join(gix::path::from_bstr(p.as_bstr())))
                    .map_or(false, |m| m.file_type().is_symlink());
                let key = if sc.config.contains("symlinks=false") && is_link_on_disk && gl == 'T' && (tl == '.' || tl == 'M') {
                    "a symbolic link in the worktree while core.symlinks=false: gitoxide reports a type change, git compares the link target".to_string()
                } else if sc.config.contains("trustctime=true checkStat=minimal")
                    && what.starts_with("same-size content change with the recorded mtime")
                    && gl == 'M'
                    && tl == '.'
                {
                    "core.checkStat=minimal with core.trustctime=true: gitoxide still compares whole-second ctime (as git's documentation says), git's code does not, so only gitoxide sees a same-size same-mtime modification".to_string()
                } else {
                    format!("tracked entry ({what}; {}): gix {gl}, git {tl}", sc.config)
                };
                rep.oracle_failure(
                    &key,
                    &format!("scenario {} path {:?}: gix {:?} vs git {tl}", sc.seed, p, g.tracked.get(p)),
                    &sc.op,
                );
            }
        }
        if g.walk != git.walk {
            let has_files = |p: &BString| -> bool {
                fn any_file(d: &Path) -> bool {
                    match std::fs::read_dir(d) {
                        Err(_) => false,
                        Ok(rd) => rd.filter_map(|e| e.ok()).any(|e| {
                            let p = e.path();
                            match std::fs::symlink_metadata(&p) {
                                Ok(m) if m.is_dir() => any_file(&p),
                                Ok(_) => true,
                                Err(_) => false,
                            }
                        }),
                    }
                }
                let full = dir.join(gix::path::from_bstr(p.as_bstr()));
                if p.ends_with(b"/") {
                    any_file(&full)
                } else {
                    true
                }
            };
            // the files an entry stands for (a directory entry stands for every file below it)
            let expand = |w: &[(BString, &'static str)]| -> Vec<(BString, &'static str)> {
                fn files(d: &Path, rel: &[u8], out: &mut Vec<BString>) {
                    if let Ok(rd) = std::fs::read_dir(d) {
                        for e in rd.filter_map(|e| e.ok()) {
                            let name = e.file_name();
                            let nb = gix::path::os_str_into_bstr(&name).expect("utf8").to_owned();
                            if nb == ".git" {
                                continue;
                            }
                            let mut r = rel.to_vec();
                            r.extend_from_slice(&nb);
                            let p = e.path();
                            match std::fs::symlink_metadata(&p) {
                                Ok(m) if m.is_dir() => {
                                    r.push(b'/');
                                    files(&p, &r, out)
                                }
                                Ok(_) => out.push(r.into()),
                                Err(_) => {}
                            }
                        }
                    }
                }
                let mut v = Vec::new();
                for (p, s) in w {
                    if p.ends_with(b"/") {
                        let mut fl = Vec::new();
                        files(&dir.join(gix::path::from_bstr(p.as_bstr())), p, &mut fl);
                        v.extend(fl.into_iter().map(|f| (f, *s)));
                    } else {
                        v.push((p.clone(), *s));
                    }
                }
                v.sort();
                v.dedup();
                v
            };
            let only_gix: Vec<&(BString, &'static str)> = g.walk.iter().filter(|x| !git.walk.contains(x)).collect();
            let only_git: Vec<&(BString, &'static str)> = git.walk.iter().filter(|x| !g.walk.contains(x)).collect();
            let fmt = |v: &[&(BString, &'static str)]| v.iter().map(|(p, s)| format!("{s} {p}")).collect::<Vec<_>>().join(", ");
            rep.bucket("status:walk-differ");
            // directories whose path is a tracked FILE in the index (the file was replaced by a directory)
            let index_files: Vec<BString> = ops.iter().map(|(p, _)| p.clone()).collect();
            let below_replaced = |p: &BString| -> bool {
                index_files.iter().any(|f| p.starts_with(f.as_slice()) && p.get(f.len()) == Some(&b'/'))
            };
            // a directory entry all of whose files lie inside directories that replaced tracked files
            let only_replaced_content = |p: &BString| -> bool {
                if !p.ends_with(b"/") {
                    return false;
                }
                let fl = expand(&[(p.clone(), "untracked")]);
                !fl.is_empty() && fl.iter().all(|(f, _)| below_replaced(f))
            };
            let key = if mode == UMode::Normal
                && only_git.is_empty()
                && only_gix.iter().all(|(p, s)| (*s == "untracked" && only_replaced_content(p)) || (p.ends_with(b"/") && !has_files(p)))
                && only_gix.iter().any(|(p, _)| only_replaced_content(p))
            {
                "-unormal: untracked content of a directory that replaced a tracked file: gitoxide reports the directory, git reports nothing".to_string()
            } else if only_git.is_empty() && only_gix.iter().all(|(p, _)| p.ends_with(b"/") && !has_files(p)) {
                format!("-u{}: a directory that contains only empty directories is reported by gitoxide, git hides it", mode.git())
            } else if mode == UMode::All
                && expand(&g.walk) == expand(&git.walk)
                && only_gix.iter().all(|(_, s)| *s == "ignored")
                && only_git.iter().all(|(_, s)| *s == "ignored")
            {
                "-uall --ignored: gitoxide reports an ignored directory as one entry, git lists the ignored files in it".to_string()
            } else {
                format!("-u{}: only gix [{}] only git [{}]", mode.git(), fmt(&only_gix), fmt(&only_git))
            };
            rep.oracle_failure(
                &key,
                &format!("scenario {} ({}): only gix [{}] only git [{}]", sc.seed, sc.desc, fmt(&only_gix), fmt(&only_git)),
                &sc.op,
            );
        } else {
            rep.bucket("status:walk-agree");
        }
    }
    if std::env::var("C49_KEEP").is_ok() {
        let _ = std::process::Command::new("cp").arg("-a").arg(dir).arg(format!("/tmp/c49-keep-{}", sc.seed)).status();
    }
}

/// a `ReadData` that cannot deliver data: reaching it means the comparison wanted to look at the content
struct NoData;
impl<'a> gix_status::index_as_worktree::traits::ReadData<'a> for NoData {
    fn read_blob(self) -> Result<&'a [u8], gix_status::index_as_worktree::Error> {
        Err(gix_status::index_as_worktree::Error::Io(std::io::Error::new(std::io::ErrorKind::Other, "read_blob")))
    }
    fn stream_worktree_file(
        self,
    ) -> Result<gix_status::index_as_worktree::traits::read_data::Stream<'a>, gix_status::index_as_worktree::Error> {
        Err(gix_status::index_as_worktree::Error::Io(std::io::Error::new(std::io::ErrorKind::Other, "stream")))
    }
}

/// properties of the 32-bit stat data evaluated directly on the real functions (no repository needed)
fn api_checks(rep: &mut Report) {
    use gix_index::entry::{stat::Time, Stat};
    // the racy guarantee at the 32-bit boundary: a file modified at or after the index timestamp is racy
    // (both times in the same 2^32-second era; the index format cannot tell eras apart, neither can git)
    let era = 1u64 << 32;
    for k in [0u64, 1, 2] {
        for (ts, mt) in [(10u64, 20u64), (20, 20), (21, 20), (1_700_000_000, 1_700_000_001), (era - 2, era - 1)] {
            let (ts, mt) = (k * era + ts, k * era + mt);
            let st = Stat {
                mtime: Time { secs: mt as u32, nsecs: 0 },
                ..Default::default()
            };
            let racy = st.is_racy(filetime::FileTime::from_unix_time(ts as i64, 0), Default::default());
            rep.oracle_checked();
            rep.oracle_only(&format!("is_racy ts={ts} mtime={mt}"), true);
            if (mt >= ts) != racy {
                rep.oracle_failure(
                    &format!("Stat::is_racy: a file modified at or after the index timestamp is not racy (times in era {k}, i.e. seconds + {k}*2^32)"),
                    &format!("is_racy(timestamp {ts}, mtime {mt} stored as {}) = {racy}, but mtime >= timestamp is {}", mt as u32, mt >= ts),
                    "api",
                );
            }
        }
    }
    // a file of 4 GiB + 5 bytes whose index entry records size 5 (32 bits): the size does not tell them apart,
    // the content has to be looked at
    use gix_status::index_as_worktree::traits::CompareBlobs;
    let mut state = gix_index::State::new(gix_hash::Kind::Sha1);
    state.dangerously_push_entry(
        Stat { size: 5, ..Default::default() },
        gix_hash::ObjectId::null(gix_hash::Kind::Sha1),
        gix_index::entry::Flags::empty(),
        gix_index::entry::Mode::FILE,
        "big".into(),
    );
    let entry = &state.entries()[0];
    let mut buf = Vec::new();
    let res = gix_status::index_as_worktree::traits::FastEq.compare_blobs(entry, (1u64 << 32) + 5, NoData, &mut buf);
    rep.oracle_checked();
    rep.oracle_only("FastEq size 5 vs 2^32+5", true);
    if matches!(res, Ok(Some(()))) {
        rep.oracle_failure(
            "FastEq::compare_blobs: a file of 4 GiB or more is reported as modified from its size alone",
            "entry.stat.size = 5 (32 bit), worktree file size 2^32+5: Ok(Some(())) without reading the content",
            "api",
        );
    }
}

fn main() {
    let args = Args::parse();
    let mut rep = Report::new("C49", &args);
    let scratch = Scratch::new("c49");
    if let Some(ops) = replay_ops(&args) {
        for op in ops {
            let a: Vec<&str> = op.split(' ').collect();
            match a.as_slice() {
                ["scenario", seed] => {
                    if let Ok(seed) = seed.parse::<u64>() {
                        let sc = scenario::build(seed, None, &scratch);
                        run_scenario(&mut rep, &sc);
                    }
                }
                ["corpus", k] => {
                    if let Ok(k) = k.parse::<u64>() {
                        let sc = scenario::build(k, Some(k), &scratch);
                        run_scenario(&mut rep, &sc);
                    }
                }
                ["api"] => api_checks(&mut rep),
                _ => {}
            }
        }
        rep.finish();
        return;
    }
    api_checks(&mut rep);
    // the deterministic corpus: a third of it (rotating with the seed) in the quick tier, all of it otherwise
    for k in 0..scenario::CORPUS {
        if args.thorough || k % 3 == args.seed % 3 {
            let sc = scenario::build(k, Some(k), &scratch);
            run_scenario(&mut rep, &sc);
            let _ = std::fs::remove_dir_all(&sc.dir);
        }
    }
    // intent-to-add entries whose worktree file changed afterwards: all of them in every tier
    for k in scenario::CORPUS..scenario::CORPUS + scenario::ITA_CORPUS {
        let sc = scenario::build(k, Some(k), &scratch);
        run_scenario(&mut rep, &sc);
        let _ = std::fs::remove_dir_all(&sc.dir);
    }
    let n = args.budget(20, 250);
    for i in 0..n {
        let seed = args.seed * 10_000 + i;
        let sc = scenario::build(seed, None, &scratch);
        run_scenario(&mut rep, &sc);
        let _ = std::fs::remove_dir_all(&sc.dir);
    }
    let _: Option<PathBuf> = None;
    rep.finish();
}
