//! C18 — reference lookup and iteration match git.
//!
//! Real code exercised (through the public API of `gix_ref::file::Store`, opened with
//! `Store::at`, i.e. no namespace and no linked worktree):
//!   `iter()?.all()` / `iter()?.prefixed(p)`  → `LooseThenPacked::next` (the merge),
//!       `SortedLoosePaths` + `gix_features::fs::walkdir_sorted_by_path_new` (the directory walk),
//!       `packed::Buffer::{iter, iter_prefixed}`;
//!   `try_find(short)` → `find_one_with_verified_input` (the DWIM candidate order).
//!
//! A store is materialised in a scratch git directory by writing loose files and `packed-refs`
//! directly (so that stale packed duplicates, empty directories and symbolic refs are under the
//! generator's control); the objects the refs point to are four real commits.
//!
//! Op lines (answered by the Lean model `GixModel.C18.handle`):
//!   all   <loose> <packed> <dirs>            what `iter().all()` yields
//!   pre   <loose> <packed> <dirs> <prefix>   what `iter().prefixed(prefix)` yields
//!   find  <loose> <packed> <dirs> <short>    what `try_find(short)` returns
//!   gitall  <loose> <packed> <dirs>          what `git for-each-ref` prints   (validates Spec.forEachRef)
//!   gitdwim <loose> <packed> <dirs> <short>  what `git rev-parse --symbolic-full-name` resolves to,
//!                                            before symref resolution            (validates Spec.dwim)
//! `<loose>` = comma list of `name:val` (`val` = commit index 0..3, `@target` symbolic, `!` broken
//! content), `<packed>` = comma list of `name:idx`, `<dirs>` = comma list of (possibly empty)
//! directories; `-` for an empty list. Names are relative to the git dir.
//!
//! Oracle (independent of the Lean model): `git for-each-ref` for order / exactly-once / values /
//! loose precedence; `git for-each-ref <dir>/` resp. the byte-prefix filter of git's full list for
//! prefixed iteration; `git rev-parse --symbolic-full-name <short>` for lookups.
use gix_object::bstr::ByteSlice;
use hcommon::*;
use std::collections::{BTreeMap, BTreeSet};
use std::path::{Path, PathBuf};

const NIDS: usize = 24;

#[derive(Clone, Debug, PartialEq, Eq)]
enum Val {
    Id(usize),
    Sym(String),
    Broken,
}

impl Val {
    fn enc(&self) -> String {
        match self {
            Val::Id(i) => i.to_string(),
            Val::Sym(s) => format!("@{s}"),
            Val::Broken => "!".into(),
        }
    }
    fn dec(s: &str) -> Option<Val> {
        if s == "!" {
            Some(Val::Broken)
        } else if let Some(t) = s.strip_prefix('@') {
            Some(Val::Sym(t.to_string()))
        } else {
            s.parse::<usize>().ok().filter(|i| *i <= NIDS).map(Val::Id)
        }
    }
}

#[derive(Clone, Debug, Default)]
struct Store {
    loose: Vec<(String, Val)>,
    packed: Vec<(String, usize)>,
    dirs: Vec<String>,
}

fn enc_list<T>(xs: &[T], f: impl Fn(&T) -> String) -> String {
    if xs.is_empty() {
        "-".into()
    } else {
        xs.iter().map(f).collect::<Vec<_>>().join(",")
    }
}

impl Store {
    fn enc(&self) -> String {
        format!(
            "{} {} {}",
            enc_list(&self.loose, |(n, v)| format!("{n}:{}", v.enc())),
            enc_list(&self.packed, |(n, v)| format!("{n}:{v}")),
            enc_list(&self.dirs, |d| d.clone())
        )
    }
    fn dec(l: &str, p: &str, d: &str) -> Option<Store> {
        let mut s = Store::default();
        if l != "-" {
            for e in l.split(',') {
                let (n, v) = e.split_once(':')?;
                s.loose.push((n.to_string(), Val::dec(v)?));
            }
        }
        if p != "-" {
            for e in p.split(',') {
                let (n, v) = e.split_once(':')?;
                s.packed.push((n.to_string(), v.parse::<usize>().ok().filter(|i| *i < NIDS)?));
            }
        }
        if d != "-" {
            for e in d.split(',') {
                s.dirs.push(e.to_string());
            }
        }
        // what the file system can hold: no name is both a file and a directory, no duplicates
        let files: BTreeSet<&str> = s.loose.iter().map(|(n, _)| n.as_str()).collect();
        if files.len() != s.loose.len() {
            return None;
        }
        let mut dirs: BTreeSet<String> = BTreeSet::new();
        for n in s.loose.iter().map(|(n, _)| n.as_str()) {
            let mut cur = n;
            while let Some((parent, _)) = cur.rsplit_once('/') {
                dirs.insert(parent.to_string());
                cur = parent;
            }
        }
        for n in &s.dirs {
            dirs.insert(n.clone());
            let mut cur = n.as_str();
            while let Some((parent, _)) = cur.rsplit_once('/') {
                dirs.insert(parent.to_string());
                cur = parent;
            }
        }
        if files.iter().any(|f| dirs.contains(*f)) {
            return None;
        }
        let ok_name = |n: &str| {
            !n.is_empty()
                && !n.starts_with('/')
                && !n.ends_with('/')
                && !n.contains("//")
                && n.bytes().all(|b| b.is_ascii_alphanumeric() || b"/-._".contains(&b))
                && n.split('/').all(|c| c != "." && c != "..")
                && (n.starts_with("refs/") || n.bytes().all(|b| b.is_ascii_uppercase() || b == b'_'))
        };
        if !s.loose.iter().all(|(n, _)| ok_name(n)) || !s.dirs.iter().all(|n| ok_name(n)) || !s.packed.iter().all(|(n, _)| ok_name(n)) {
            return None;
        }
        // the packed file is written sorted and without duplicates (what git writes)
        if !s.packed.windows(2).all(|w| w[0].0.as_bytes() < w[1].0.as_bytes()) {
            return None;
        }
        Some(s)
    }
}

struct Env {
    _scratch: Scratch,
    git_dir: PathBuf,
    ids: Vec<String>,
}

impl Env {
    fn new() -> Env {
        let scratch = Scratch::new("c18");
        let git_dir = scratch.join("r.git");
        std::fs::create_dir_all(&git_dir).unwrap();
        git_ok(&git_dir, &["init", "-q", "--bare", "."], None);
        let tree = git_ok(&git_dir, &["mktree"], Some(b""));
        // all commits with one process: raw commit objects hashed from files
        let mut paths = String::new();
        for i in 0..=NIDS {
            let f = scratch.join(format!("c{i}"));
            std::fs::write(
                &f,
                format!("tree {tree}\nauthor A U Thor <author@example.com> 1700000000 +0000\ncommitter C O Mitter <committer@example.com> 1700000000 +0000\n\nc{i}\n"),
            )
            .unwrap();
            paths.push_str(&f.display().to_string());
            paths.push('\n');
        }
        let out = git_ok(&git_dir, &["hash-object", "-w", "-t", "commit", "--stdin-paths"], Some(paths.as_bytes()));
        let ids: Vec<String> = out.lines().map(str::to_string).collect();
        assert_eq!(ids.len(), NIDS + 1);
        Env {
            _scratch: scratch,
            git_dir,
            ids,
        }
    }

    fn materialise(&self, s: &Store) {
        let refs = self.git_dir.join("refs");
        let _ = std::fs::remove_dir_all(&refs);
        let _ = std::fs::remove_file(self.git_dir.join("packed-refs"));
        std::fs::create_dir_all(&refs).unwrap();
        for e in std::fs::read_dir(&self.git_dir).unwrap().flatten() {
            let name = e.file_name().to_string_lossy().to_string();
            if name.bytes().all(|b| b.is_ascii_uppercase() || b == b'_') {
                let _ = std::fs::remove_file(e.path());
            }
        }
        for d in &s.dirs {
            std::fs::create_dir_all(self.git_dir.join(d)).unwrap();
        }
        for (n, v) in &s.loose {
            let p = self.git_dir.join(n);
            std::fs::create_dir_all(p.parent().unwrap()).unwrap();
            let content = match v {
                Val::Id(i) => format!("{}\n", self.ids[*i]),
                Val::Sym(t) => format!("ref: {t}\n"),
                Val::Broken => "not a ref\n".to_string(),
            };
            std::fs::write(p, content).unwrap();
        }
        if !s.packed.is_empty() {
            let mut out = String::from("# pack-refs with: peeled fully-peeled sorted \n");
            for (n, i) in &s.packed {
                out.push_str(&format!("{} {}\n", self.ids[*i], n));
            }
            std::fs::write(self.git_dir.join("packed-refs"), out).unwrap();
        }
    }

    fn open(&self) -> gix_ref::file::Store {
        gix_ref::file::Store::at(
            self.git_dir.clone(),
            gix_ref::store::init::Options {
                write_reflog: gix_ref::store::WriteReflog::Disable,
                object_hash: gix_hash::Kind::Sha1,
                precompose_unicode: false,
                prohibit_windows_device_names: false,
            },
        )
    }

    fn val_of_target(&self, t: &gix_ref::Target) -> String {
        match t {
            gix_ref::Target::Object(id) => {
                let h = id.to_string();
                match self.ids.iter().position(|x| *x == h) {
                    Some(i) => i.to_string(),
                    None => h,
                }
            }
            gix_ref::Target::Symbolic(n) => format!("@{}", n.as_bstr().to_str_lossy()),
        }
    }

    /// `iter().all()` / `iter().prefixed(p)` of the real code as one canonical line
    fn real_iter(&self, prefix: Option<&str>) -> String {
        let store = self.open();
        let r = catch(|| {
            let platform = match store.iter() {
                Ok(p) => p,
                Err(_) => return "err:open".to_string(),
            };
            let it = match prefix {
                None => platform.all(),
                Some(p) => platform.prefixed(Path::new(p)),
            };
            let it = match it {
                Ok(it) => it,
                Err(_) => return "err:init".to_string(),
            };
            let mut out = Vec::new();
            for item in it {
                match item {
                    Ok(r) => out.push(format!("{}={}", r.name.as_bstr().to_str_lossy(), self.val_of_target(&r.target))),
                    Err(gix_ref::file::iter::loose_then_packed::Error::ReferenceCreation { relative_path, .. }) => {
                        out.push(format!("{}=!", relative_path.display()))
                    }
                    Err(_) => out.push("?=err".into()),
                }
                if out.len() > 10_000 {
                    break;
                }
            }
            if out.is_empty() {
                "-".to_string()
            } else {
                out.join(" ")
            }
        });
        r.unwrap_or_else(|_| "panic".into())
    }

    fn real_find(&self, short: &str) -> String {
        let store = self.open();
        let r = catch(|| match store.try_find(short) {
            Ok(Some(r)) => format!("{}={}", r.name.as_bstr().to_str_lossy(), self.val_of_target(&r.target)),
            Ok(None) => "none".to_string(),
            Err(gix_ref::file::find::Error::RefnameValidation(_)) => "err:name".to_string(),
            Err(gix_ref::file::find::Error::ReferenceCreation { .. }) => "err:broken".to_string(),
            Err(_) => "err".to_string(),
        });
        r.unwrap_or_else(|_| "panic".into())
    }

    /// `git for-each-ref [pattern]` as `name=val …` (val = commit index or @symref target)
    fn git_list(&self, pattern: Option<&str>) -> Result<Vec<(String, String)>, String> {
        let mut args = vec!["for-each-ref", "--format=%(refname) %(objectname) %(symref)"];
        if let Some(p) = pattern {
            args.push(p);
        }
        let o = git(&self.git_dir, &args, None);
        if !o.ok {
            return Err(String::from_utf8_lossy(&o.stderr).to_string());
        }
        let mut out = Vec::new();
        for l in String::from_utf8_lossy(&o.stdout).lines() {
            let mut it = l.splitn(3, ' ');
            let name = it.next().unwrap_or("").to_string();
            let oid = it.next().unwrap_or("").to_string();
            let sym = it.next().unwrap_or("").to_string();
            let idx = match self.ids.iter().position(|x| *x == oid) {
                Some(i) => i.to_string(),
                None => oid,
            };
            // a symbolic ref is shown as `@<commit it resolves to>` (git prints the final target)
            let val = if !sym.is_empty() { format!("@{idx}") } else { idx };
            out.push((name, val));
        }
        Ok(out)
    }

    /// the commit (index) git resolves each short name to: `git cat-file --batch-check` runs every
    /// input line through the same `get_oid` → `repo_dwim_ref` (ref_rev_parse_rules, first match wins)
    /// as `git rev-parse <short>`; one process per store.
    fn git_dwim(&self, shorts: &[String]) -> Vec<Option<usize>> {
        let mut input = String::new();
        for q in shorts {
            input.push_str(q);
            input.push('\n');
        }
        let o = git(&self.git_dir, &["cat-file", "--batch-check=%(objectname)"], Some(input.as_bytes()));
        let out = String::from_utf8_lossy(&o.stdout).to_string();
        let lines: Vec<&str> = out.lines().collect();
        assert_eq!(lines.len(), shorts.len(), "git cat-file --batch-check answered every line: {out}");
        lines.iter().map(|l| self.ids.iter().position(|x| x == l)).collect()
    }
}

/// gitoxide's items with symbolic targets replaced by `@<commit they resolve to>` (what git shows)
fn canon_items(got: &str, t: &BTreeMap<Vec<u8>, Val>) -> String {
    if got == "-" {
        return got.to_string();
    }
    got.split(' ')
        .map(|item| match item.split_once("=@") {
            Some((n, _)) => match resolve(t, n).and_then(|r| t.get(r.as_bytes()).cloned()) {
                Some(Val::Id(i)) => format!("{n}=@{i}"),
                _ => item.to_string(),
            },
            None => item.to_string(),
        })
        .collect::<Vec<_>>()
        .join(" ")
}

fn join_list(xs: &[(String, String)]) -> String {
    if xs.is_empty() {
        "-".into()
    } else {
        xs.iter().map(|(n, v)| format!("{n}={v}")).collect::<Vec<_>>().join(" ")
    }
}

/// ground truth of the store as the harness wrote it: name → value with loose precedence
fn truth(s: &Store) -> BTreeMap<Vec<u8>, Val> {
    let mut m = BTreeMap::new();
    for (n, i) in &s.packed {
        m.insert(n.as_bytes().to_vec(), Val::Id(*i));
    }
    for (n, v) in &s.loose {
        m.insert(n.as_bytes().to_vec(), v.clone());
    }
    m
}

/// follow symbolic refs in the ground truth (git prints the final name)
fn resolve(t: &BTreeMap<Vec<u8>, Val>, name: &str) -> Option<String> {
    let mut cur = name.to_string();
    for _ in 0..10 {
        match t.get(cur.as_bytes()) {
            Some(Val::Id(_)) => return Some(cur),
            Some(Val::Sym(n)) => cur = n.clone(),
            Some(Val::Broken) | None => return None,
        }
    }
    None
}

fn is_dir_in(s: &Store, p: &str) -> bool {
    let p = p.trim_end_matches('/');
    if p == "refs" {
        return true;
    }
    let pre = format!("{p}/");
    s.loose.iter().any(|(n, _)| n.starts_with(&pre)) || s.dirs.iter().any(|d| d == p || d.starts_with(&pre))
}

struct Ctx {
    env: Env,
    rep: Report,
    shown: BTreeMap<String, u32>,
}

impl Ctx {
    fn fail(&mut self, class: &str, key: &str, detail: &str, op: &str) {
        let c = self.shown.entry(class.to_string()).or_insert(0);
        *c += 1;
        if *c <= 8 {
            self.rep.oracle_failure(key, detail, op);
        }
    }

    fn has_broken(s: &Store) -> bool {
        let t = truth(s);
        s.loose.iter().any(|(n, v)| match v {
            Val::Broken => true,
            Val::Sym(_) => resolve(&t, n).is_none(),
            _ => false,
        })
    }

    /// all/prefixed iteration of one materialised store
    fn do_iter(&mut self, s: &Store, prefixes: &[String]) {
        let enc = s.enc();
        let clean = !Self::has_broken(s);
        // --- all ---
        let op = format!("all {enc}");
        let got = self.env.real_iter(None);
        self.rep.case(&op, &got, true);
        let gl = self.env.git_list(None);
        match &gl {
            Ok(list) if clean => {
                self.rep.git_checked(1);
                self.rep.oracle_checked();
                let want = join_list(list);
                self.rep.case(&format!("gitall {enc}"), &want.replace("=@", "="), true);
                let got_c = canon_items(&got, &truth(s));
                if got_c != want {
                    self.fail("all", &format!("all {enc}"), &format!("iter().all() = [{got}] but git for-each-ref = [{want}] (@n: symbolic, resolving to commit n)"), &op);
                }
            }
            Ok(_) => self.rep.outside_domain(&format!("store with broken/dangling refs (git skips them): {enc} => {got}")),
            Err(e) => self.rep.outside_domain(&format!("git for-each-ref failed on {enc}: {e}")),
        }
        // --- prefixed ---
        for p in prefixes {
            let op = format!("pre {enc} {p}");
            let got = self.env.real_iter(Some(p));
            self.rep.case(&op, &got, true);
            if !clean || !p.starts_with("refs") {
                continue;
            }
            let Ok(all) = &gl else { continue };
            let dir = is_dir_in(s, p);
            self.rep.bucket(if dir { "prefix:dir" } else if p.ends_with('/') { "prefix:slash-nodir" } else { "prefix:partial" });
            let eff = if dir { format!("{}/", p.trim_end_matches('/')) } else { p.clone() };
            let want: Vec<(String, String)> = all.iter().filter(|(n, _)| n.starts_with(&eff)).cloned().collect();
            self.rep.oracle_checked();
            if dir || p.ends_with('/') {
                // git's own pattern matching for directory prefixes
                if self.rep.evaluations % 7 != 0 {
                } else if let Ok(gp) = self.env.git_list(Some(&eff)) {
                    self.rep.git_checked(1);
                    if gp != want {
                        self.rep.note(&format!("harness: git for-each-ref {eff} differs from the filtered full list on {enc}"));
                    }
                }
            }
            let want = join_list(&want);
            if canon_items(&got, &truth(s)) != want {
                self.fail(
                    if dir { "pre-dir" } else { "pre-partial" },
                    &format!("pre {enc} {p}"),
                    &format!("iter().prefixed({p:?}) = [{got}] but the refs git lists under {eff:?} are [{want}]"),
                    &op,
                );
            }
        }
    }

    fn do_find(&mut self, s: &Store, shorts: &[String]) {
        let enc = s.enc();
        let t = truth(s);
        let clean = !Self::has_broken(s);
        let wants = if clean { self.env.git_dwim(shorts) } else { vec![None; shorts.len()] };
        if clean {
            self.rep.git_checked(1);
        }
        for (q, want) in shorts.iter().zip(wants) {
            let op = format!("find {enc} {q}");
            let got = self.env.real_find(q);
            self.rep.case(&op, &got, true);
            if !clean {
                continue;
            }
            self.rep.oracle_checked();
            self.rep.bucket(if want.is_some() { "find:hit" } else { "find:miss" });
            self.rep.case(&format!("gitdwim {enc} {q}"), &want.map_or("none".to_string(), |i| i.to_string()), true);
            // the commit gitoxide's answer resolves to (following symbolic refs like git does)
            let got_name = got.split_once('=').map(|(n, _)| n.to_string());
            let got_id = got_name.as_deref().and_then(|n| resolve(&t, n)).and_then(|n| match t.get(n.as_bytes()) {
                Some(Val::Id(i)) => Some(*i),
                _ => None,
            });
            if got_id != want || (got.starts_with("err") && got != "err:name") || got == "panic" {
                self.fail(
                    "find",
                    &format!("find {enc} {q}"),
                    &format!("try_find({q:?}) = {got} (resolves to commit {got_id:?}) but git resolves {q:?} to commit {want:?}"),
                    &op,
                );
            }
        }
    }
}

const COMPONENTS: &[&str] = &["a", "a-b", "a.b", "a0", "b", "b-c", "a+", "A", "HEAD", "main", "c", "a,", "a-", "a_"];

fn gen_name(rng: &mut Rng) -> String {
    let top = *rng.pick(&["heads", "heads", "heads", "tags", "tags", "remotes", "remotes", "heads-x", "notes", "a", "a-b"]);
    let depth = 1 + rng.usize(3);
    let mut n = format!("refs/{top}");
    for _ in 0..depth {
        let lim = if rng.chance(1, 6) { COMPONENTS.len() } else { 6 };
        let c = *rng.pick(&COMPONENTS[..lim]);
        let c = if c.contains(',') || c.contains('+') { "a0" } else { c };
        n.push('/');
        n.push_str(c);
    }
    n
}

fn conflicts(names: &BTreeSet<String>, n: &str) -> bool {
    if names.contains(n) {
        return true;
    }
    let pre = format!("{n}/");
    if names.iter().any(|m| m.starts_with(&pre)) {
        return true;
    }
    let mut cur = n;
    while let Some((parent, _)) = cur.rsplit_once('/') {
        if names.contains(parent) {
            return true;
        }
        cur = parent;
    }
    false
}

fn gen_store(rng: &mut Rng) -> Store {
    let max = if rng.chance(1, 4) { 14 } else { 7 };
    let n = 1 + rng.usize(max);
    let mut names: BTreeSet<String> = BTreeSet::new();
    for _ in 0..n * 3 {
        if names.len() >= n {
            break;
        }
        let c = gen_name(rng);
        // git itself refuses D/F conflicts between any two refs; keep the set conflict-free
        if !conflicts(&names, &c) {
            names.insert(c);
        }
    }
    // the same short name under several of refs/{tags,heads,remotes,}: the DWIM order decides
    if rng.chance(1, 3) && !names.is_empty() {
        let v: Vec<String> = names.iter().cloned().collect();
        let n = rng.pick(&v).clone();
        if let Some((_, rest)) = n["refs/".len()..].split_once('/') {
            for _ in 0..1 + rng.usize(2) {
                let top = *rng.pick(&["heads", "tags", "remotes"]);
                let c = if rng.chance(1, 6) { format!("refs/{rest}") } else { format!("refs/{top}/{rest}") };
                if !conflicts(&names, &c) {
                    names.insert(c);
                }
            }
        }
    }
    let names: Vec<String> = names.into_iter().collect();
    let mut s = Store::default();
    let loose_bias = rng.below(5);
    // every value is a different commit, so that the commit identifies the ref and its storage
    let mut next = rng.usize(NIDS);
    let mut fresh = move || {
        next = (next + 1) % NIDS;
        next
    };
    for n in &names {
        let r = rng.below(4);
        let is_loose = r < loose_bias.min(3) || loose_bias == 4;
        let is_packed = !is_loose || rng.chance(1, 3);
        if is_packed {
            s.packed.push((n.clone(), fresh()));
        }
        if is_loose {
            let v = if rng.chance(1, 7) {
                // symbolic to an existing name (never to itself)
                let t = rng.pick(&names).clone();
                if &t == n {
                    Val::Id(fresh())
                } else {
                    Val::Sym(t)
                }
            } else {
                Val::Id(fresh())
            };
            s.loose.push((n.clone(), v));
        }
    }
    // HEAD is always there (detached at its own commit, or symbolic); now and then other pseudo-refs,
    // all-uppercase branches/tags, and files git and gitoxide ignore because of their names
    let head = if !names.is_empty() && rng.chance(1, 3) { Val::Sym(rng.pick(&names).clone()) } else { Val::Id(NIDS) };
    s.loose.push(("HEAD".into(), head));
    if rng.chance(1, 5) {
        let n = *rng.pick(&["FETCH_HEAD", "A", "ORIG_HEAD", "RELEASE"]);
        s.loose.push((n.to_string(), Val::Id(fresh())));
    }
    if rng.chance(1, 5) {
        let top = *rng.pick(&["heads", "tags", "remotes"]);
        let c = *rng.pick(&["A", "RELEASE", "HEAD", "FETCH_HEAD"]);
        let n = format!("refs/{top}/{c}");
        let all: BTreeSet<String> = s.loose.iter().map(|(n, _)| n.clone()).chain(s.packed.iter().map(|(n, _)| n.clone())).collect();
        if !conflicts(&all, &n) {
            if rng.chance(1, 2) {
                s.loose.push((n, Val::Id(fresh())));
            } else {
                s.packed.push((n, fresh()));
                s.packed.sort();
            }
        }
    }
    if rng.chance(1, 6) {
        let bad = *rng.pick(&["refs/heads/a.lock", "refs/heads/.a", "refs/tags/a..b", "refs/heads/b.", "refs/heads/a/b.lock"]);
        let all: BTreeSet<String> = s.loose.iter().map(|(n, _)| n.clone()).collect();
        if !conflicts(&all, bad) {
            s.loose.push((bad.to_string(), Val::Id(fresh())));
        }
    }
    // symref chains must end in a direct ref (no cycles, no dangling): demote offenders
    let t = truth(&s);
    let bad: Vec<String> = s
        .loose
        .iter()
        .filter(|(n, v)| matches!(v, Val::Sym(_)) && resolve(&t, n).is_none())
        .map(|(n, _)| n.clone())
        .collect();
    for (n, v) in s.loose.iter_mut() {
        if bad.contains(n) {
            *v = Val::Id(NIDS - 1 - rng.usize(2));
        }
    }
    // empty directories git leaves behind (must not collide with files)
    if rng.chance(1, 3) {
        let all: BTreeSet<String> = s.loose.iter().map(|(n, _)| n.clone()).collect();
        for _ in 0..1 + rng.usize(2) {
            let d = gen_name(rng);
            if !conflicts(&all, &d) || all.iter().any(|m| m.starts_with(&format!("{d}/"))) {
                if !all.contains(&d) && {
                    let mut ok = true;
                    let mut cur = d.as_str();
                    while let Some((parent, _)) = cur.rsplit_once('/') {
                        if all.contains(parent) {
                            ok = false;
                        }
                        cur = parent;
                    }
                    ok
                } {
                    s.dirs.push(d);
                }
            }
        }
        s.dirs.sort();
        s.dirs.dedup();
    }
    s
}

fn prefixes_for(rng: &mut Rng, s: &Store) -> Vec<String> {
    let mut out: BTreeSet<String> = BTreeSet::new();
    out.insert("refs/heads".into());
    out.insert("refs/heads/".into());
    let names: Vec<&String> = s.loose.iter().map(|(n, _)| n).chain(s.packed.iter().map(|(n, _)| n)).filter(|n| n.starts_with("refs/")).collect();
    for _ in 0..4 {
        if names.is_empty() {
            break;
        }
        let n = *rng.pick(&names);
        // cut at a random position: directory boundaries, partial components, full names
        let cut = 5 + rng.usize(n.len() - 4);
        let p = &n[..cut.min(n.len())];
        if p.len() >= 5 {
            out.insert(p.to_string());
        }
        if let Some((d, _)) = n.rsplit_once('/') {
            out.insert(d.to_string());
            if rng.chance(1, 2) {
                out.insert(format!("{d}/"));
            }
        }
    }
    if rng.chance(1, 4) {
        out.insert("refs".into());
    }
    if rng.chance(1, 4) {
        out.insert("refs/zz".into());
    }
    out.into_iter().collect()
}

fn shorts_for(rng: &mut Rng, s: &Store) -> Vec<String> {
    let mut out: BTreeSet<String> = BTreeSet::new();
    let names: Vec<&String> = s.loose.iter().map(|(n, _)| n).chain(s.packed.iter().map(|(n, _)| n)).collect();
    for n in &names {
        // every suffix at a component boundary is a candidate short name
        let mut cur = n.as_str();
        out.insert(cur.to_string());
        while let Some((_, rest)) = cur.split_once('/') {
            out.insert(rest.to_string());
            cur = rest;
        }
        if let Some(stripped) = n.strip_suffix("/HEAD") {
            if let Some((_, r)) = stripped.split_once("refs/remotes/") {
                out.insert(r.to_string());
            }
        }
    }
    out.insert("HEAD".into());
    out.insert("a".into());
    out.insert("nope".into());
    let mut v: Vec<String> = out.into_iter().collect();
    rng.shuffle(&mut v);
    v.truncate(10);
    v.sort();
    v
}

fn st(l: &[(&str, &str)], p: &[(&str, usize)], d: &[&str]) -> Store {
    let mut l: Vec<(&str, &str)> = l.to_vec();
    if !l.iter().any(|(n, _)| *n == "HEAD") {
        l.push(("HEAD", "24"));
    }
    Store {
        loose: l.iter().map(|(n, v)| (n.to_string(), Val::dec(v).unwrap())).collect(),
        packed: p.iter().map(|(n, v)| (n.to_string(), *v)).collect(),
        dirs: d.iter().map(|s| s.to_string()).collect(),
    }
}

fn corpus() -> Vec<(Store, Vec<String>, Vec<String>)> {
    let s = |v: &[&str]| v.iter().map(|x| x.to_string()).collect::<Vec<_>>();
    vec![
        // §7-h: '-' and '.' sort below '/', '0' above
        (
            st(&[("refs/heads/a/b", "0"), ("refs/heads/a-b", "1"), ("refs/heads/a.b", "2"), ("refs/heads/a0", "3")], &[], &[]),
            s(&["refs/heads", "refs/heads/a", "refs/heads/a/", "refs/heads/a-"]),
            s(&["a/b", "a-b", "a0", "heads/a.b"]),
        ),
        // the same with a packed name between the mis-ordered loose ones: merge duplicates / mis-orders
        (
            st(&[("refs/heads/a/b", "0"), ("refs/heads/a-b", "1")], &[("refs/heads/a-b", 2), ("refs/heads/a.b", 3), ("refs/heads/a/b", 1)], &[]),
            s(&["refs/heads", "refs/heads/a"]),
            s(&["a/b", "a-b"]),
        ),
        // nested
        (
            st(&[("refs/heads/a/b/c", "0"), ("refs/heads/a/b-c", "1"), ("refs/heads/a-b/c", "2")], &[("refs/heads/a/b-c", 3)], &[]),
            s(&["refs/heads/a", "refs/heads/a/b", "refs/heads/a-b"]),
            s(&["a/b/c", "c"]),
        ),
        // directory prefix without trailing slash vs sibling 'heads-x' (packed and loose)
        (
            st(&[("refs/heads/a", "0"), ("refs/heads-x/b", "1")], &[("refs/heads-x/a", 2), ("refs/heads/b", 3)], &[]),
            s(&["refs/heads", "refs/heads/", "refs/heads-x", "refs/head"]),
            s(&["a", "b", "heads-x/a"]),
        ),
        // partial prefix must filter on the full name, not on the last component
        (
            st(&[("refs/heads/b/ax", "0"), ("refs/heads/a-b/x", "1"), ("refs/heads/ab", "2")], &[("refs/heads/a-b/y", 3), ("refs/heads/b/ay", 0)], &[]),
            s(&["refs/heads/a", "refs/heads/zz/", "refs/heads/b/a"]),
            s(&["ab", "ax"]),
        ),
        // DWIM order: tags before heads before remotes; refs/<name> first; remotes/<name>/HEAD last
        (
            st(
                &[("refs/a", "0"), ("refs/tags/a", "1"), ("refs/heads/a", "2"), ("refs/remotes/a/HEAD", "@refs/remotes/a/b"), ("refs/remotes/a/b", "3")],
                &[],
                &[],
            ),
            s(&[]),
            s(&["a", "tags/a", "heads/a", "remotes/a", "a/b"]),
        ),
        (st(&[("refs/heads/a", "2")], &[("refs/tags/a", 1)], &[]), s(&[]), s(&["a"])),
        (st(&[("refs/remotes/a/b", "3"), ("refs/remotes/a/HEAD", "@refs/remotes/a/b")], &[("refs/remotes/a", 1)], &[]), s(&[]), s(&["a"])),
        (st(&[("refs/remotes/a/b", "3"), ("refs/remotes/a/HEAD", "@refs/remotes/a/b")], &[], &[]), s(&[]), s(&["a", "a/HEAD"])),
        // a packed, direct refs/remotes/<name>/HEAD
        (st(&[], &[("refs/remotes/a/HEAD", 1), ("refs/remotes/a/b", 2)], &[]), s(&[]), s(&["a"])),
        // KNOWN FINDING (Props.C18.refs_prefix_deviation_witness): a name starting with `refs/` that does not
        // exist itself is expanded by git with its other rules (here refs/tags/refs/heads/x), not by gitoxide
        (st(&[("refs/tags/refs/heads/x", "1")], &[], &[]), s(&[]), s(&["refs/heads/x", "refs/tags/refs/heads/x", "tags/refs/heads/x"])),
        // all-uppercase branch and tag names
        (st(&[("refs/heads/A", "0")], &[("refs/tags/RELEASE", 1)], &[]), s(&[]), s(&["A", "RELEASE", "heads/A", "tags/RELEASE"])),
        // stale packed value shadowed by loose; empty directories
        (
            st(&[("refs/heads/a", "1")], &[("refs/heads/a", 0), ("refs/heads/b", 2)], &["refs/heads/c", "refs/tags"]),
            s(&["refs/heads", "refs/heads/c", "refs/tags"]),
            s(&["a", "b", "c"]),
        ),
        (st(&[], &[], &[]), s(&["refs/heads"]), s(&["a"])),
    ]
}

fn main() {
    if let Err(msg) = catch(real_main) {
        eprintln!("harness panicked: {msg}");
        std::process::exit(101);
    }
}

fn real_main() {
    let args = Args::parse();
    let rep = Report::new("C18", &args);
    let mut rng = Rng::new(args.seed);
    let mut ctx = Ctx {
        env: Env::new(),
        rep,
        shown: BTreeMap::new(),
    };

    if let Some(ops) = replay_ops(&args) {
        for op in ops {
            let a: Vec<&str> = op.split(' ').collect();
            if a.len() < 4 {
                continue;
            }
            let Some(s) = Store::dec(a[1], a[2], a[3]) else { continue };
            ctx.env.materialise(&s);
            match (a[0], a.get(4)) {
                ("all", _) | ("gitall", _) => ctx.do_iter(&s, &[]),
                ("pre", Some(p)) => ctx.do_iter(&s, &[p.to_string()]),
                ("find", Some(q)) | ("gitdwim", Some(q)) => ctx.do_find(&s, &[q.to_string()]),
                _ => {}
            }
        }
        ctx.rep.finish();
        return;
    }

    for (s, pre, shorts) in corpus() {
        ctx.env.materialise(&s);
        ctx.rep.bucket("corpus");
        ctx.do_iter(&s, &pre);
        ctx.do_find(&s, &shorts);
    }
    let n = args.budget(60, 1000);
    for _ in 0..n {
        let s = gen_store(&mut rng);
        ctx.env.materialise(&s);
        ctx.rep.bucket(&format!("refs:{}", (s.loose.len() + s.packed.len()).min(12) / 3 * 3));
        if s.loose.iter().any(|(n, _)| s.packed.iter().any(|(m, _)| m == n)) {
            ctx.rep.bucket("stale-packed-duplicate");
        }
        if s.loose.iter().any(|(_, v)| matches!(v, Val::Sym(_))) {
            ctx.rep.bucket("symbolic");
        }
        if !s.dirs.is_empty() {
            ctx.rep.bucket("empty-dirs");
        }
        let pre = prefixes_for(&mut rng, &s);
        let shorts = shorts_for(&mut rng, &s);
        ctx.do_iter(&s, &pre);
        ctx.do_find(&s, &shorts);
    }
    ctx.rep.finish();
}
