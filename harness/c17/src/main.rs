//! C17 — reference transactions terminate under lock contention.
//!
//! Real code exercised: `gix_ref::file::Transaction::{prepare, commit}` (through the public API, on
//! a worker thread with a deadline) while `<ref>.lock` / `packed-refs.lock` files are held by
//! another party, with `Fail::Immediately` and `Fail::AfterDurationWithBackoff`;
//! `gix_utils::backoff::Exponential::until_no_remaining`.
//!
//! Correspondence ops (answered by the Lean model `GixModel.C17.handle`):
//!   hist <op> ; <op> ; …        see reftxn.rs — result + store dump after every operation; a
//!                               transaction that does not return is observed as `hang`
//!   backoff <ms>                the waits (ms) of `Exponential::default().until_no_remaining(ms)`
//!
//! Oracle (the property itself on the real code, independent of the model):
//!   * every prepare/commit returns before the deadline (a miss = hang = violation, the history is
//!     the replay); at most MAX_HANGS hangs are waited for per run;
//!   * a transaction that returned left no lock file behind except the ones held by the other
//!     party, and the time it took is bounded by the configured back-off (+ slack);
//!   * the randomised back-off: every wait is within 75 %..125 % of the quadratic step, the sum
//!     of the waits is at most duration + one step, the iterator is finite.
mod reftxn;

use hcommon::*;
use reftxn::*;
use std::collections::BTreeSet;

const MAX_HANGS: u64 = 3;

struct Ctx {
    world: World,
    rep: Report,
    /// lock files created by `lock` operations of the current history
    foreign: BTreeSet<String>,
}

/// Apply one operation of a history, check the property on it, and return its observation
/// (`None` = the history ends here: hang, or hang budget used up).
fn step(cx: &mut Ctx, op: &Op, history_so_far: &[Op]) -> (String, bool) {
    if let Op::Txn { .. } = op {
        if cx.world.hangs >= MAX_HANGS {
            // do not wait for further hangs in this run
            return ("skipped".into(), false);
        }
    }
    let view = cx.world.view().unwrap_or_default();
    // names "in play" besides the visible refs: lock files and reflogs without a reference
    let mut in_play = cx.foreign.clone();
    in_play.extend(cx.world.reflog_names());
    if df_conflict(op, &view, &in_play) && std::env::var_os("VERIF_DF_ALLOW").is_none() {
        // outside the domain of the model: a nested name while its parent/child is in play
        cx.rep.bucket("df-conflict");
        cx.rep.outside_domain(&format!("directory/file conflict: {}", op.fmt()));
        return ("df-skip".into(), false);
    }
    let t0 = std::time::Instant::now();
    let applied = cx.world.apply(op);
    let took = t0.elapsed();
    let line = || {
        let mut h = history_so_far.to_vec();
        h.push(op.clone());
        fmt_history(&h)
    };
    match applied {
        Applied::Hang => {
            let held: Vec<&str> = cx.foreign.iter().map(String::as_str).collect();
            let line = line();
            cx.rep.oracle_failure(
                &format!("hang [{}] held=[{}]", op.fmt(), held.join(",")),
                &format!("prepare/commit did not return (deadline: {:?} of CPU time or 45 s of wall-clock time; history: {line})", cx.world.deadline),
                &line,
            );
            cx.rep.bucket("hang");
            cx.world.fresh_dir_after_hang();
            ("hang".into(), false)
        }
        Applied::Done(res) => {
            match op {
                Op::Lock(n) if res == "ok" => {
                    cx.foreign.insert(n.clone());
                }
                Op::Unlock(n) => {
                    cx.foreign.remove(n);
                }
                _ => {}
            }
            if let Op::Txn { rf, pf, edits, .. } = op {
                cx.rep.oracle_checked();
                let key = res.split(':').take(2).collect::<Vec<_>>().join(":");
                cx.rep.bucket(&format!("txn:{key}"));
                // no lock file besides the foreign ones
                let locks: BTreeSet<String> = cx.world.lock_files().into_iter().collect();
                if locks != cx.foreign {
                    let line = line();
                    cx.rep.oracle_failure(
                        &format!("lock-leak [{}]", op.fmt()),
                        &format!("lock files {:?}, held by the other party {:?} (history: {line})", locks, cx.foreign),
                        &line,
                    );
                }
                // bounded time: every lock acquisition backs off for at most its duration plus
                // one step (<= 1.25 s); generous slack for a loaded machine
                let ms = |f: &FailMode| match f {
                    FailMode::I => 0u64,
                    FailMode::B(ms) => *ms,
                };
                let n_locks = edits.len() as u64 * 6;
                let bound = (ms(rf) + 1250) * n_locks + ms(pf) + 1250 + 1000;
                if took.as_millis() as u64 > bound {
                    let line = line();
                    cx.rep.oracle_failure(
                        &format!("slow [{}]", op.fmt()),
                        &format!("took {:?}, bound {bound} ms (history: {line})", took),
                        &line,
                    );
                }
                if res == "panic" {
                    cx.rep.outside_domain(&format!("panic: {}", op.fmt()));
                }
            }
            (format!("{res}#{}", cx.world.dump()), true)
        }
    }
}

/// Run a history from the initial state; returns the operations that were run (the history is cut
/// before an operation outside the model's domain) and the observation string.
fn run_history(cx: &mut Ctx, ops: &[Op]) -> (Vec<Op>, String) {
    cx.world.reset();
    cx.foreign.clear();
    let mut obs: Vec<String> = Vec::new();
    let mut done: Vec<Op> = Vec::new();
    for op in ops {
        let (o, go_on) = step(cx, op, &done);
        if o == "df-skip" {
            break;
        }
        done.push(op.clone());
        obs.push(o);
        if !go_on {
            break;
        }
    }
    (done, obs.join(" ; "))
}

fn record(cx: &mut Ctx, ops: &[Op], obs: &str) {
    if ops.is_empty() {
        return;
    }
    let line = fmt_history(ops);
    let nontrivial = ops.iter().any(|o| matches!(o, Op::Txn { .. }));
    cx.rep.case(&line, obs, nontrivial);
    cx.rep.bucket(&format!("hist-len:{:02}", ops.len().min(13)));
}

fn history_case(cx: &mut Ctx, ops: &[Op]) {
    let (done, obs) = run_history(cx, ops);
    record(cx, &done, &obs);
}

fn ed(s: &str) -> EditSpec {
    EditSpec::parse(s).unwrap_or_else(|| panic!("bad edit {s}"))
}

fn txn(mode: Mode, edits: &[&str]) -> Op {
    Op::Txn {
        edits: edits.iter().map(|e| ed(e)).collect(),
        mode,
        rf: FailMode::I,
        pf: FailMode::I,
    }
}

fn txn_b(mode: Mode, rf: FailMode, pf: FailMode, edits: &[&str]) -> Op {
    Op::Txn {
        edits: edits.iter().map(|e| ed(e)).collect(),
        mode,
        rf,
        pf,
    }
}

fn lock(n: &str) -> Op {
    Op::Lock(n.to_string())
}

fn corpus() -> Vec<Vec<Op>> {
    let mut v = Vec::new();
    // DESIGN §7-g: HEAD -> refs/heads/a (initial state), the referent's lock is held, the edit of
    // HEAD dereferences: the split edit fails to lock and the error path names the failing ref
    v.push(vec![lock("refs/heads/a"), txn(Mode::D, &["U,HEAD,d,any,o:c1,r"])]);
    v.push(vec![lock("refs/heads/a"), txn(Mode::D, &["D,HEAD,d,any,-,r"])]);
    v.push(vec![
        lock("refs/heads/a"),
        txn_b(Mode::D, FailMode::B(5), FailMode::I, &["U,HEAD,d,any,o:c1,r"]),
    ]);
    // two levels of splits: HEAD -> a -> b, b locked
    v.push(vec![
        txn(Mode::D, &["U,refs/heads/a,n,any,s:refs/heads/b,r"]),
        lock("refs/heads/b"),
        txn(Mode::D, &["U,HEAD,d,any,o:c2,r"]),
    ]);
    // direct ref locked (covered by upstream tests): error names the ref
    v.push(vec![lock("refs/heads/a"), txn(Mode::D, &["U,refs/heads/a,n,any,o:c1,r"])]);
    v.push(vec![lock("HEAD"), txn(Mode::D, &["U,HEAD,d,any,o:c1,r"])]);
    v.push(vec![lock("HEAD"), txn(Mode::D, &["U,HEAD,n,any,o:c1,r"])]);
    // packed-refs.lock held
    v.push(vec![lock("packed-refs"), txn(Mode::D, &["U,refs/heads/a,n,any,o:c1,r"])]);
    v.push(vec![lock("packed-refs"), txn(Mode::U, &["U,refs/heads/a,n,any,o:c1,r"])]);
    v.push(vec![lock("packed-refs"), txn(Mode::R, &["U,HEAD,d,any,o:c1,r"])]);
    v.push(vec![
        lock("packed-refs"),
        txn_b(Mode::U, FailMode::I, FailMode::B(8), &["U,refs/heads/b,n,any,o:c1,r"]),
    ]);
    v.push(vec![lock("packed-refs"), txn(Mode::D, &["D,refs/heads/a,n,any,-,r"])]);
    // a back-off longer than the largest single step (1.25 s): the accounting of the time slept
    // must add up over the steps or the acquisition never gives up (about 1.5 s of real sleeping)
    v.push(vec![
        lock("refs/heads/b"),
        txn_b(Mode::D, FailMode::B(1300), FailMode::I, &["U,refs/heads/b,n,any,o:c1,r"]),
    ]);
    // with a packed-refs file in place, the global lock replaces per-ref locks for deletions
    v.push(vec![
        txn(Mode::R, &["U,refs/heads/a,n,any,o:c1,r", "U,refs/tags/t,n,any,o:t1,r"]),
        lock("refs/heads/a"),
        txn(Mode::D, &["D,HEAD,d,any,-,r"]),
        txn(Mode::D, &["U,HEAD,d,any,o:c2,r"]),
        txn(Mode::R, &["U,HEAD,d,any,o:c2,r"]),
    ]);
    // a nested ref deleted under the global lock leaves an empty directory behind; writing the
    // shorter name directly into packed-refs then removes a "loose file" that is a directory
    // (failed with DeleteReference before fix 9d63a61ef)
    v.push(vec![
        txn(Mode::D, &["U,refs/heads/a/b,n,any,o:c1,r"]),
        txn(Mode::U, &["U,refs/tags/t,n,any,o:c1,r"]),
        txn(Mode::D, &["D,refs/heads/a/b,n,any,-,r"]),
        txn(Mode::R, &["U,refs/heads/a,n,any,o:c2,r", "U,refs/tags/t,n,any,o:c3,r"]),
        lock("refs/heads/a"),
        txn(Mode::D, &["D,refs/heads/a,n,any,-,r"]),
        txn(Mode::D, &["D,HEAD,d,mem=o:c2,-,r"]),
    ]);
    // lock of a later edit fails: the earlier locks are released
    v.push(vec![
        lock("refs/tags/t"),
        txn(
            Mode::D,
            &["U,refs/heads/a,n,any,o:c1,r", "U,refs/heads/b,n,any,o:c1,r", "U,refs/tags/t,n,any,o:c1,r"],
        ),
    ]);
    // symbolic cycle with deref: rounds are cut off
    v.push(vec![
        txn(
            Mode::D,
            &["U,refs/heads/a,n,any,s:refs/heads/b,r", "U,refs/heads/b,n,any,s:refs/heads/a,r"],
        ),
        txn(Mode::D, &["U,HEAD,d,any,o:c1,r"]),
        lock("refs/heads/b"),
        txn(Mode::D, &["D,HEAD,d,any,-,r"]),
    ]);
    // a chain of four symbolic refs is followed, five are refused
    v.push(vec![
        txn(
            Mode::D,
            &[
                "U,refs/heads/a,n,any,s:refs/heads/b,r",
                "U,refs/heads/b,n,any,s:refs/remotes/o/HEAD,r",
                "U,refs/remotes/o/HEAD,n,any,s:refs/tags/t,r",
            ],
        ),
        txn(Mode::D, &["U,HEAD,d,any,o:c1,r"]),
        lock("refs/tags/t"),
        txn(Mode::D, &["U,HEAD,d,any,o:c2,r"]),
        txn(Mode::D, &["U,refs/tags/t,n,any,s:refs/heads/a/b,r"]),
        Op::Unlock("refs/tags/t".into()),
        txn(Mode::D, &["U,refs/tags/t,n,any,s:refs/heads/zz,r"]),
        txn(Mode::D, &["U,HEAD,d,any,o:c2,r"]),
        lock("refs/heads/zz"),
        txn(Mode::D, &["U,HEAD,d,any,o:c3,r"]),
    ]);
    v
}

/// Generate a history operation by operation against the real store (so that expectations can
/// refer to current values) and observe it in the same pass.
fn gen_history(rng: &mut Rng, cx: &mut Ctx, cfg: &GenCfg) {
    cx.world.reset();
    cx.foreign.clear();
    let len = 1 + rng.usize(12);
    let mut ops: Vec<Op> = Vec::new();
    let mut obs: Vec<String> = Vec::new();
    let mut pending: Vec<Op> = Vec::new();
    let mut skips = 0;
    // most histories start by making some refs symbolic
    if rng.chance(2, 3) {
        let mut edits = Vec::new();
        for n in ["refs/heads/a", "refs/heads/b", "refs/remotes/o/HEAD", "refs/tags/t"] {
            if rng.chance(1, 3) {
                let t = *rng.pick(&["refs/heads/a", "refs/heads/b", "refs/tags/t", "refs/heads/a/b"]);
                if t != n {
                    edits.push(ed(&format!("U,{n},n,any,s:{t},r")));
                }
            } else if rng.chance(1, 2) {
                let o = *rng.pick(&["c1", "c2"]);
                edits.push(ed(&format!("U,{n},n,any,o:{o},r")));
            }
        }
        if !edits.is_empty() {
            let mode = *rng.pick(&[Mode::D, Mode::U, Mode::R]);
            pending.push(Op::Txn {
                edits,
                mode,
                rf: FailMode::I,
                pf: FailMode::I,
            });
        }
    }
    while ops.len() < len {
        let op = if let Some(op) = pending.pop() {
            op
        } else {
            let view = cx.world.view().unwrap_or_default();
            let r = rng.below(100);
            if r < 30 {
                // lock something a following transaction is likely to need
                let n = if rng.chance(1, 5) {
                    "packed-refs".to_string()
                } else if rng.chance(1, 2) {
                    let l = leaf_name(&view, *rng.pick(&EDIT_NAMES));
                    if l == GHOST {
                        "refs/heads/a".to_string()
                    } else {
                        l
                    }
                } else {
                    rng.pick(&EDIT_NAMES).to_string()
                };
                Op::Lock(n)
            } else if r < 38 {
                match cx.foreign.iter().nth(rng.usize(cx.foreign.len().max(1))) {
                    Some(n) => Op::Unlock(n.clone()),
                    None => Op::Unlock(rng.pick(&EDIT_NAMES).to_string()),
                }
            } else if r < 42 && cx.foreign.is_empty() {
                Op::GitPack {
                    all: true,
                    prune: rng.chance(3, 4),
                }
            } else {
                gen_txn(rng, &view, cfg)
            }
        };
        let (o, go_on) = step(cx, &op, &ops);
        if o == "df-skip" {
            // not part of the history; try another operation (bounded)
            skips += 1;
            if skips > 30 {
                break;
            }
            continue;
        }
        ops.push(op);
        obs.push(o);
        if !go_on {
            break;
        }
    }
    record(cx, &ops, &obs.join(" ; "));
}

fn backoff_case(cx: &mut Ctx, ms: u64) {
    let waits: Vec<u64> = gix_utils::backoff::Exponential::default()
        .until_no_remaining(std::time::Duration::from_millis(ms))
        .take(100_000)
        .map(|d| d.as_millis() as u64)
        .collect();
    let obs = if waits.len() >= 100_000 {
        "endless".to_string()
    } else {
        waits.iter().map(u64::to_string).collect::<Vec<_>>().join(",")
    };
    let op = format!("backoff {ms}");
    cx.rep.case(&op, if obs.is_empty() { "-" } else { &obs }, ms > 0);
    // the property on the randomised iterator
    cx.rep.oracle_checked();
    let rnd: Vec<u64> = gix_utils::backoff::Exponential::default_with_random()
        .until_no_remaining(std::time::Duration::from_millis(ms))
        .take(100_000)
        .map(|d| d.as_millis() as u64)
        .collect();
    let sum: u64 = rnd.iter().sum();
    let mut ok = rnd.len() < 100_000;
    let endless = if rnd.len() >= 100_000 || waits.len() >= 100_000 {
        " — the iterator did not stop within 100000 items: lock_with_mode would never give up"
    } else {
        ""
    };
    if sum > ms + 1250 {
        ok = false;
    }
    for (i, w) in rnd.iter().enumerate() {
        let step = (((i + 1) * (i + 1)) as u64).min(1000);
        if *w == 0 || (*w + 1) * 1000 <= step * 750 || *w * 1000 > step * 1250 {
            ok = false;
        }
    }
    // all waits but the last start within the duration
    if rnd.len() >= 2 && rnd[..rnd.len() - 1].iter().sum::<u64>() > ms {
        ok = false;
    }
    if !ok {
        cx.rep.oracle_failure(
            &format!("backoff {ms}"),
            &format!(
                "randomised waits {:?}{} violate the bound (sum {sum}, duration {ms}){endless}",
                &rnd[..rnd.len().min(40)],
                if rnd.len() > 40 { format!(" … {} items", rnd.len()) } else { String::new() }
            ),
            &op,
        );
    }
    cx.rep.bucket("backoff");
}

fn finish(mut cx: Ctx) -> ! {
    if cx.world.hangs > 0 {
        cx.rep.note(&format!("{} operations did not return before the deadline", cx.world.hangs));
    }
    if cx.world.refs_dir_recreated > 0 {
        cx.rep.note(&format!(
            "refs/ had been removed by gitoxide's lock clean-up before {} git operations (re-created for git)",
            cx.world.refs_dir_recreated
        ));
    }
    let Ctx { world, rep, .. } = cx;
    rep.finish();
    drop(world); // removes the scratch directory
    // abandoned workers may still be spinning: leave without joining them
    std::process::exit(0)
}

fn main() {
    let args = Args::parse();
    let rep = Report::new("C17", &args);
    let mut rng = Rng::new(args.seed);
    let mut cx = Ctx {
        world: World::new("c17"),
        rep,
        foreign: BTreeSet::new(),
    };
    let cfg = GenCfg {
        backoff: true,
        missing_oid: true,
        log_only: true,
    };
    if let Some(ops) = replay_ops(&args) {
        for line in ops {
            if let Some(h) = parse_history(&line) {
                history_case(&mut cx, &h);
            } else if let Some(ms) = line.strip_prefix("backoff ").and_then(|s| s.parse().ok()) {
                backoff_case(&mut cx, ms);
            } else {
                cx.rep.note(&format!("unparsable replay line: {line}"));
            }
        }
        finish(cx);
    }
    // (VERIF_C17_NO_CORPUS=1: random histories only — used to show that the generator reaches the
    // §7-g hang without the hand-written witness)
    if std::env::var_os("VERIF_C17_NO_CORPUS").is_none() {
        for h in corpus() {
            history_case(&mut cx, &h);
        }
    }
    for ms in [0u64, 1, 2, 4, 5, 13, 14, 15, 30, 100, 1000, 5000, 20000, 50000] {
        backoff_case(&mut cx, ms);
    }
    for _ in 0..args.budget(40, 400) {
        let top = if rng.chance(1, 2) { 200 } else { 400_000 };
        let ms = rng.below(top);
        backoff_case(&mut cx, ms);
    }
    let n = args.budget(300, 3_000);
    for _ in 0..n {
        gen_history(&mut rng, &mut cx, &cfg);
    }
    finish(cx);
}
