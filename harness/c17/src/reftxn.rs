//! Shared by the C16 and C17 harnesses (c16 includes this file with `#[path]`): a scratch git
//! directory, the small reference name space, the operation language of a *history*
//! (reference transactions run through the REAL `gix_ref::file::Transaction`, `git update-ref`,
//! `git pack-refs`, lock files held by "another party"), and the canonical dump of the store after
//! each operation.
//!
//! A history is ONE operation line for the Lean driver:
//!
//!   hist <op> ; <op> ; …
//!   op  := txn mode=<D|U|R> rf=<I|B<ms>> pf=<I|B<ms>> <edit>…
//!        | gitupdate-ref d=<0|1> nd=<0|1> <name> <new|-> <old|->
//!        | gitpack-refs all=<0|1> prune=<0|1>
//!        | lock <name|packed-refs> | unlock <name|packed-refs>
//!   edit := <U|D>,<name>,<d|n>,<any|me|mne|mem=T|emm=T>,<T|->,<r|l>      T := o:<oid> | s:<name>
//!
//! and its observation is `<result>#<dump>` per operation joined by ` ; ` where
//!   dump := <name>=<T|->/<L?P?> … pk=<0|1> locks=<a,b|->
//! (value as `try_find` of a freshly opened store sees it, L = a loose file exists, P = the
//! packed-refs buffer has an entry, pk = the packed-refs file exists, locks = all `*.lock` files).
use std::collections::BTreeMap;
use std::path::{Path, PathBuf};
use std::sync::Arc;

use gix_ref::file::transaction::PackedRefs;
use gix_ref::transaction::{Change, LogChange, PreviousValue, RefEdit, RefLog};
use gix_ref::Target;
use hcommon::*;

/// The name space (bytewise sorted).
pub const NAMES: [&str; 7] = [
    "HEAD",
    "refs/heads/a",
    "refs/heads/a/b",
    "refs/heads/b",
    "refs/heads/zz",
    "refs/remotes/o/HEAD",
    "refs/tags/t",
];
/// the names edits are generated for
pub const EDIT_NAMES: [&str; 6] = [
    "HEAD",
    "refs/heads/a",
    "refs/heads/a/b",
    "refs/heads/b",
    "refs/remotes/o/HEAD",
    "refs/tags/t",
];
/// A name that is never edited directly, only reached through symbolic refs.
pub const GHOST: &str = "refs/heads/zz";
/// short object names: three commits, an annotated tag of c1, and an object that does not exist
pub const OIDS: [&str; 5] = ["c1", "c2", "c3", "t1", "zz"];
pub const MISSING_HEX: &str = "eeeeeeeeeeeeeeeeeeeeeeeeeeeeeeeeeeeeeeee";

#[derive(Clone, PartialEq, Eq, Debug, PartialOrd, Ord)]
pub enum Tgt {
    O(String),
    S(String),
}

impl Tgt {
    pub fn fmt(&self) -> String {
        match self {
            Tgt::O(o) => format!("o:{o}"),
            Tgt::S(n) => format!("s:{n}"),
        }
    }
    pub fn parse(s: &str) -> Option<Tgt> {
        if let Some(o) = s.strip_prefix("o:") {
            OIDS.contains(&o).then(|| Tgt::O(o.to_string()))
        } else {
            s.strip_prefix("s:").filter(|n| valid_name(n)).map(|n| Tgt::S(n.to_string()))
        }
    }
}

pub fn valid_name(n: &str) -> bool {
    NAMES.contains(&n)
}

#[derive(Clone, PartialEq, Eq, Debug)]
pub enum Prev {
    Any,
    MustExist,
    MustNotExist,
    Mem(Tgt),
    Emm(Tgt),
}

impl Prev {
    pub fn fmt(&self) -> String {
        match self {
            Prev::Any => "any".into(),
            Prev::MustExist => "me".into(),
            Prev::MustNotExist => "mne".into(),
            Prev::Mem(t) => format!("mem={}", t.fmt()),
            Prev::Emm(t) => format!("emm={}", t.fmt()),
        }
    }
    pub fn parse(s: &str) -> Option<Prev> {
        Some(match s {
            "any" => Prev::Any,
            "me" => Prev::MustExist,
            "mne" => Prev::MustNotExist,
            _ => {
                if let Some(t) = s.strip_prefix("mem=") {
                    Prev::Mem(Tgt::parse(t)?)
                } else if let Some(t) = s.strip_prefix("emm=") {
                    Prev::Emm(Tgt::parse(t)?)
                } else {
                    return None;
                }
            }
        })
    }
}

#[derive(Clone, PartialEq, Eq, Debug)]
pub struct EditSpec {
    pub del: bool,
    pub name: String,
    pub deref: bool,
    pub expected: Prev,
    pub new: Option<Tgt>,
    pub log_only: bool,
}

impl EditSpec {
    pub fn fmt(&self) -> String {
        format!(
            "{},{},{},{},{},{}",
            if self.del { "D" } else { "U" },
            self.name,
            if self.deref { "d" } else { "n" },
            self.expected.fmt(),
            self.new.as_ref().map_or("-".to_string(), Tgt::fmt),
            if self.log_only { "l" } else { "r" }
        )
    }
    pub fn parse(s: &str) -> Option<EditSpec> {
        let f: Vec<&str> = s.split(',').collect();
        if f.len() != 6 {
            return None;
        }
        let del = match f[0] {
            "U" => false,
            "D" => true,
            _ => return None,
        };
        if !valid_name(f[1]) {
            return None;
        }
        let deref = match f[2] {
            "d" => true,
            "n" => false,
            _ => return None,
        };
        let expected = Prev::parse(f[3])?;
        let new = if del {
            if f[4] != "-" {
                return None;
            }
            None
        } else {
            Some(Tgt::parse(f[4])?)
        };
        let log_only = match f[5] {
            "r" => false,
            "l" => true,
            _ => return None,
        };
        Some(EditSpec {
            del,
            name: f[1].to_string(),
            deref,
            expected,
            new,
            log_only,
        })
    }
}

#[derive(Clone, Copy, PartialEq, Eq, Debug)]
pub enum Mode {
    D,
    U,
    R,
}

#[derive(Clone, Copy, PartialEq, Eq, Debug)]
pub enum FailMode {
    I,
    B(u64),
}

impl FailMode {
    pub fn fmt(&self) -> String {
        match self {
            FailMode::I => "I".into(),
            FailMode::B(ms) => format!("B{ms}"),
        }
    }
    pub fn parse(s: &str) -> Option<FailMode> {
        if s == "I" {
            Some(FailMode::I)
        } else {
            s.strip_prefix('B')?.parse().ok().map(FailMode::B)
        }
    }
    pub fn real(&self) -> gix_lock::acquire::Fail {
        match self {
            FailMode::I => gix_lock::acquire::Fail::Immediately,
            FailMode::B(ms) => gix_lock::acquire::Fail::AfterDurationWithBackoff(std::time::Duration::from_millis(*ms)),
        }
    }
}

#[derive(Clone, PartialEq, Eq, Debug)]
pub enum Op {
    Txn {
        edits: Vec<EditSpec>,
        mode: Mode,
        rf: FailMode,
        pf: FailMode,
    },
    GitUpdate {
        del: bool,
        noderef: bool,
        name: String,
        new: Option<String>,
        old: Option<String>,
    },
    GitPack {
        all: bool,
        prune: bool,
    },
    Lock(String),
    Unlock(String),
    /// Another writer holds `packed-refs.lock` when the transaction starts, rewrites packed-refs
    /// (`mods`: name -> new object, or removal) and releases the lock while the transaction waits
    /// for it (`AfterDurationWithBackoff`).
    Race {
        mods: Vec<(String, Option<String>)>,
        txn: Box<Op>,
    },
}

impl Op {
    pub fn fmt(&self) -> String {
        match self {
            Op::Txn { edits, mode, rf, pf } => {
                let mut s = format!(
                    "txn mode={} rf={} pf={}",
                    match mode {
                        Mode::D => "D",
                        Mode::U => "U",
                        Mode::R => "R",
                    },
                    rf.fmt(),
                    pf.fmt()
                );
                for e in edits {
                    s.push(' ');
                    s.push_str(&e.fmt());
                }
                s
            }
            Op::GitUpdate {
                del,
                noderef,
                name,
                new,
                old,
            } => format!(
                "gitupdate-ref d={} nd={} {} {} {}",
                *del as u8,
                *noderef as u8,
                name,
                new.as_deref().unwrap_or("-"),
                old.as_deref().unwrap_or("-")
            ),
            Op::GitPack { all, prune } => format!("gitpack-refs all={} prune={}", *all as u8, *prune as u8),
            Op::Lock(n) => format!("lock {n}"),
            Op::Unlock(n) => format!("unlock {n}"),
            Op::Race { mods, txn } => {
                let m: Vec<String> = mods
                    .iter()
                    .map(|(n, o)| match o {
                        Some(o) => format!("+{n}={o}"),
                        None => format!("-{n}"),
                    })
                    .collect();
                format!("race {} {}", if m.is_empty() { "-".to_string() } else { m.join(",") }, txn.fmt())
            }
        }
    }

    pub fn parse(toks: &[&str]) -> Option<Op> {
        let flag = |s: &str, key: &str| -> Option<bool> {
            match s.strip_prefix(key)? {
                "0" => Some(false),
                "1" => Some(true),
                _ => None,
            }
        };
        match *toks.first()? {
            "txn" => {
                if toks.len() < 4 {
                    return None;
                }
                let mode = match toks[1] {
                    "mode=D" => Mode::D,
                    "mode=U" => Mode::U,
                    "mode=R" => Mode::R,
                    _ => return None,
                };
                let rf = FailMode::parse(toks[2].strip_prefix("rf=")?)?;
                let pf = FailMode::parse(toks[3].strip_prefix("pf=")?)?;
                let edits = toks[4..].iter().map(|t| EditSpec::parse(t)).collect::<Option<Vec<_>>>()?;
                Some(Op::Txn { edits, mode, rf, pf })
            }
            "gitupdate-ref" => {
                if toks.len() != 6 {
                    return None;
                }
                let del = flag(toks[1], "d=")?;
                let noderef = flag(toks[2], "nd=")?;
                if !valid_name(toks[3]) {
                    return None;
                }
                let oid = |s: &str| -> Option<Option<String>> {
                    if s == "-" {
                        Some(None)
                    } else if OIDS.contains(&s) || s == "0" {
                        Some(Some(s.to_string()))
                    } else {
                        None
                    }
                };
                Some(Op::GitUpdate {
                    del,
                    noderef,
                    name: toks[3].to_string(),
                    new: oid(toks[4])?,
                    old: oid(toks[5])?,
                })
            }
            "gitpack-refs" => {
                if toks.len() != 3 {
                    return None;
                }
                Some(Op::GitPack {
                    all: flag(toks[1], "all=")?,
                    prune: flag(toks[2], "prune=")?,
                })
            }
            "race" => {
                if toks.len() < 3 {
                    return None;
                }
                let mut mods = Vec::new();
                if toks[1] != "-" {
                    for m in toks[1].split(',') {
                        if let Some(rest) = m.strip_prefix('+') {
                            let (n, o) = rest.split_once('=')?;
                            if !valid_name(n) || !OIDS.contains(&o) {
                                return None;
                            }
                            mods.push((n.to_string(), Some(o.to_string())));
                        } else {
                            let n = m.strip_prefix('-')?;
                            if !valid_name(n) {
                                return None;
                            }
                            mods.push((n.to_string(), None));
                        }
                    }
                }
                let txn = Op::parse(&toks[2..])?;
                matches!(txn, Op::Txn { .. }).then(|| Op::Race {
                    mods,
                    txn: Box::new(txn),
                })
            }
            "lock" | "unlock" => {
                if toks.len() != 2 || !(valid_name(toks[1]) || toks[1] == "packed-refs") {
                    return None;
                }
                Some(if toks[0] == "lock" {
                    Op::Lock(toks[1].to_string())
                } else {
                    Op::Unlock(toks[1].to_string())
                })
            }
            _ => None,
        }
    }
}

pub fn fmt_history(ops: &[Op]) -> String {
    let mut s = String::from("hist");
    for (i, op) in ops.iter().enumerate() {
        if i > 0 {
            s.push_str(" ;");
        }
        s.push(' ');
        s.push_str(&op.fmt());
    }
    s
}

pub fn parse_history(line: &str) -> Option<Vec<Op>> {
    let toks: Vec<&str> = line.split(' ').collect();
    if toks.first() != Some(&"hist") {
        return None;
    }
    let mut ops = Vec::new();
    for group in toks[1..].split(|t| *t == ";") {
        if group.is_empty() {
            return None;
        }
        ops.push(Op::parse(group)?);
    }
    Some(ops)
}

/// In-memory object database handed to the packed-refs transaction for peeling.
pub struct Objects {
    pub map: BTreeMap<gix_hash::ObjectId, (gix_object::Kind, Vec<u8>)>,
}

impl gix_object::Find for Objects {
    fn try_find<'a>(
        &self,
        id: &gix_hash::oid,
        buffer: &'a mut Vec<u8>,
    ) -> Result<Option<gix_object::Data<'a>>, gix_object::find::Error> {
        match self.map.get(id) {
            None => Ok(None),
            Some((kind, data)) => {
                buffer.clear();
                buffer.extend_from_slice(data);
                Ok(Some(gix_object::Data {
                    kind: *kind,
                    data: buffer,
                }))
            }
        }
    }
}

struct SharedObjects(Arc<Objects>);
impl gix_object::Find for SharedObjects {
    fn try_find<'a>(
        &self,
        id: &gix_hash::oid,
        buffer: &'a mut Vec<u8>,
    ) -> Result<Option<gix_object::Data<'a>>, gix_object::find::Error> {
        self.0.try_find(id, buffer)
    }
}

pub struct World {
    pub scratch: Scratch,
    pub git_dir: PathBuf,
    pub oid_of: BTreeMap<String, gix_hash::ObjectId>,
    pub short_of: BTreeMap<gix_hash::ObjectId, String>,
    pub objects: Arc<Objects>,
    /// how many operations were abandoned because they did not return before the deadline
    pub hangs: u64,
    pub deadline: std::time::Duration,
    /// how often `refs/` was missing before a git operation
    pub refs_dir_recreated: u64,
    generation: u64,
}

pub enum Applied {
    Done(String),
    Hang,
}

impl World {
    pub fn new(tag: &str) -> World {
        let scratch = Scratch::new(tag);
        let mut w = World {
            git_dir: scratch.join("g0"),
            scratch,
            oid_of: BTreeMap::new(),
            short_of: BTreeMap::new(),
            objects: Arc::new(Objects { map: BTreeMap::new() }),
            hangs: 0,
            deadline: std::time::Duration::from_secs(3),
            refs_dir_recreated: 0,
            generation: 0,
        };
        w.init_repo();
        w
    }

    fn init_repo(&mut self) {
        std::fs::create_dir_all(&self.git_dir).expect("mkdir");
        let d = self.git_dir.clone();
        git_ok(&d, &["init", "-q", "--bare", "."], None);
        git_ok(&d, &["config", "core.logAllRefUpdates", "true"], None);
        let tree = git_ok(&d, &["hash-object", "-w", "-t", "tree", "--stdin"], Some(b""));
        let mut map = BTreeMap::new();
        let mut commits = Vec::new();
        for (i, short) in ["c1", "c2", "c3"].iter().enumerate() {
            let msg = format!("commit {i}");
            let mut args = vec!["commit-tree", tree.as_str(), "-m", msg.as_str()];
            let parent;
            if let Some(p) = commits.last() {
                parent = String::clone(p);
                args.push("-p");
                args.push(parent.as_str());
            }
            let id = git_ok(&d, &args, None);
            commits.push(id.clone());
            self.oid_of
                .insert(short.to_string(), gix_hash::ObjectId::from_hex(id.as_bytes()).expect("hex"));
        }
        let tag_body = format!(
            "object {}\ntype commit\ntag v\ntagger T <t@example.com> 1700000000 +0000\n\nmsg\n",
            commits[0]
        );
        let tag = git_ok(&d, &["hash-object", "-w", "-t", "tag", "--stdin"], Some(tag_body.as_bytes()));
        self.oid_of
            .insert("t1".into(), gix_hash::ObjectId::from_hex(tag.as_bytes()).expect("hex"));
        for (short, id) in &self.oid_of {
            let kind = git_ok(&d, &["cat-file", "-t", &id.to_string()], None);
            let data = git(&d, &["cat-file", &kind, &id.to_string()], None).stdout;
            let kind = match kind.as_str() {
                "commit" => gix_object::Kind::Commit,
                "tag" => gix_object::Kind::Tag,
                "tree" => gix_object::Kind::Tree,
                _ => gix_object::Kind::Blob,
            };
            map.insert(*id, (kind, data));
            self.short_of.insert(*id, short.clone());
        }
        let missing = gix_hash::ObjectId::from_hex(MISSING_HEX.as_bytes()).expect("hex");
        self.oid_of.insert("zz".into(), missing);
        self.short_of.insert(missing, "zz".into());
        self.objects = Arc::new(Objects { map });
        self.reset();
    }

    /// Back to the canonical initial state: `HEAD -> refs/heads/a` (unborn), no refs, no
    /// packed-refs, no reflogs, no lock files.
    pub fn reset(&mut self) {
        for sub in ["refs", "logs"] {
            let _ = std::fs::remove_dir_all(self.git_dir.join(sub));
        }
        for f in ["packed-refs", "packed-refs.lock", "HEAD.lock"] {
            let _ = std::fs::remove_file(self.git_dir.join(f));
        }
        let head = self.git_dir.join("HEAD");
        if head.is_dir() {
            let _ = std::fs::remove_dir_all(&head);
        }
        std::fs::create_dir_all(self.git_dir.join("refs/heads")).expect("mkdir");
        std::fs::create_dir_all(self.git_dir.join("refs/tags")).expect("mkdir");
        std::fs::write(head, b"ref: refs/heads/a\n").expect("write HEAD");
    }

    /// After a hang the abandoned worker still owns lock files in the old directory: move on to a
    /// fresh git directory (objects are shared through a copy of the object directory).
    pub fn fresh_dir_after_hang(&mut self) {
        self.generation += 1;
        let new_dir = self.scratch.join(format!("g{}", self.generation));
        std::fs::create_dir_all(&new_dir).expect("mkdir");
        git_ok(&new_dir, &["init", "-q", "--bare", "."], None);
        git_ok(&new_dir, &["config", "core.logAllRefUpdates", "true"], None);
        let _ = std::fs::remove_dir_all(new_dir.join("objects"));
        copy_dir(&self.git_dir.join("objects"), &new_dir.join("objects"));
        self.git_dir = new_dir;
        self.reset();
    }

    pub fn store(&self) -> gix_ref::file::Store {
        gix_ref::file::Store::at(self.git_dir.clone(), Default::default())
    }

    fn short(&self, id: &gix_hash::oid) -> String {
        self.short_of
            .get(&id.to_owned())
            .cloned()
            .unwrap_or_else(|| format!("?{}", id.to_hex_with_len(8)))
    }

    pub fn tgt_of(&self, t: &Target) -> Tgt {
        match t {
            Target::Object(id) => Tgt::O(self.short(id)),
            Target::Symbolic(n) => Tgt::S(n.as_bstr().to_string()),
        }
    }

    fn lock_path(&self, name: &str) -> PathBuf {
        self.git_dir.join(format!("{name}.lock"))
    }

    /// Names that have a reflog file (a log-only edit creates one without the reference).
    pub fn reflog_names(&self) -> Vec<String> {
        NAMES
            .iter()
            .filter(|n| self.git_dir.join("logs").join(n).is_file())
            .map(|n| n.to_string())
            .collect()
    }

    /// The (old, new) pairs of the reflog of `name` in short object names (`0` = null id), or
    /// `None` if there is no reflog file.
    pub fn reflog_lines(&self, name: &str) -> Option<Vec<(String, String)>> {
        let path = self.git_dir.join("logs").join(name);
        if !path.is_file() {
            return None;
        }
        let data = std::fs::read(&path).ok()?;
        let short = |hex: &str| -> String {
            if hex.bytes().all(|b| b == b'0') {
                return "0".into();
            }
            match gix_hash::ObjectId::from_hex(hex.as_bytes()) {
                Ok(id) => self.short(&id),
                Err(_) => "?".into(),
            }
        };
        Some(
            String::from_utf8_lossy(&data)
                .lines()
                .map(|l| {
                    let mut it = l.split(' ');
                    let a = it.next().unwrap_or("");
                    let b = it.next().unwrap_or("");
                    (short(a), short(b))
                })
                .collect(),
        )
    }

    /// `dump()` plus the reflogs: ` logs=<name>@<old>><new>,…;<name>@…` (`-` if there is none)
    pub fn dump_x(&self) -> String {
        let mut parts = Vec::new();
        for n in NAMES {
            if let Some(lines) = self.reflog_lines(n) {
                let l: Vec<String> = lines.iter().map(|(a, b)| format!("{a}>{b}")).collect();
                parts.push(format!("{n}@{}", l.join(",")));
            }
        }
        format!(
            "{} logs={}",
            self.dump(),
            if parts.is_empty() { "-".to_string() } else { parts.join(";") }
        )
    }

    /// All `*.lock` files below the git directory (relative, without the suffix), sorted.
    pub fn lock_files(&self) -> Vec<String> {
        let mut out = Vec::new();
        fn walk(base: &Path, dir: &Path, out: &mut Vec<String>) {
            let Ok(rd) = std::fs::read_dir(dir) else { return };
            for e in rd.flatten() {
                let p = e.path();
                let Ok(ft) = e.file_type() else { continue };
                if ft.is_dir() {
                    if p.file_name().map_or(false, |n| n == "objects") {
                        continue;
                    }
                    walk(base, &p, out);
                } else if let Some(stem) = p.to_str().and_then(|s| s.strip_suffix(".lock")) {
                    if let Ok(rel) = Path::new(stem).strip_prefix(base) {
                        out.push(rel.to_string_lossy().into_owned());
                    }
                }
            }
        }
        for top in ["refs", "HEAD.lock", "packed-refs.lock"] {
            let p = self.git_dir.join(top);
            if p.is_dir() {
                walk(&self.git_dir, &p, &mut out);
            } else if p.is_file() {
                out.push(top.trim_end_matches(".lock").to_string());
            }
        }
        out.sort();
        out
    }

    /// What a freshly opened store sees for every name of the name space.
    pub fn view(&self) -> Result<BTreeMap<String, Tgt>, String> {
        let store = self.store();
        let mut m = BTreeMap::new();
        for n in NAMES {
            match store.try_find(n) {
                Ok(Some(r)) => {
                    if r.name.as_bstr() != n {
                        return Err(format!("try_find({n}) returned {}", r.name.as_bstr()));
                    }
                    m.insert(n.to_string(), self.tgt_of(&r.target));
                }
                Ok(None) => {}
                // a loose file where a directory of the name is needed (refs/heads/a vs
                // refs/heads/a/b): try_find fails with ENOTDIR; such a name does not exist
                Err(_) if NAMES.iter().any(|p| n.starts_with(&format!("{p}/")) && self.git_dir.join(p).is_file()) => {}
                Err(e) => return Err(format!("try_find({n}): {e}")),
            }
        }
        Ok(m)
    }

    /// `store.iter().all()` as (name, target) in the order the iterator yields them.
    pub fn iter_all(&self) -> Result<Vec<(String, Tgt)>, String> {
        let store = self.store();
        let platform = store.iter().map_err(|e| format!("iter(): {e}"))?;
        let mut out = Vec::new();
        for r in platform.all().map_err(|e| format!("all(): {e}"))? {
            let r = r.map_err(|e| format!("iter item: {e}"))?;
            out.push((r.name.as_bstr().to_string(), self.tgt_of(&r.target)));
        }
        Ok(out)
    }

    pub fn dump(&self) -> String {
        let store = self.store();
        let packed = store.cached_packed_buffer().ok().flatten();
        let mut s = String::new();
        for n in NAMES {
            let v = match store.try_find(n) {
                Ok(Some(r)) => self.tgt_of(&r.target).fmt(),
                Ok(None) => "-".to_string(),
                // ENOTDIR below a loose file of a shorter name: the reference does not exist
                Err(_) if NAMES.iter().any(|p| n.starts_with(&format!("{p}/")) && self.git_dir.join(p).is_file()) => {
                    "-".to_string()
                }
                Err(_) => "!".to_string(),
            };
            let loose = self.git_dir.join(n).is_file();
            let in_packed = packed.as_ref().map_or(false, |p| {
                let full: &gix_ref::FullNameRef = n.try_into().expect("valid");
                p.try_find(full).ok().flatten().is_some()
            });
            s.push_str(&format!(
                "{n}={v}/{}{} ",
                if loose { "L" } else { "" },
                if in_packed { "P" } else { "" }
            ));
        }
        let locks = self.lock_files();
        s.push_str(&format!(
            "pk={} locks={}",
            self.git_dir.join("packed-refs").is_file() as u8,
            if locks.is_empty() { "-".to_string() } else { locks.join(",") }
        ));
        s
    }

    fn real_target(&self, t: &Tgt) -> Target {
        match t {
            Tgt::O(o) => Target::Object(self.oid_of[o]),
            Tgt::S(n) => Target::Symbolic(n.as_str().try_into().expect("valid name")),
        }
    }

    fn real_prev(&self, p: &Prev) -> PreviousValue {
        match p {
            Prev::Any => PreviousValue::Any,
            Prev::MustExist => PreviousValue::MustExist,
            Prev::MustNotExist => PreviousValue::MustNotExist,
            Prev::Mem(t) => PreviousValue::MustExistAndMatch(self.real_target(t)),
            Prev::Emm(t) => PreviousValue::ExistingMustMatch(self.real_target(t)),
        }
    }

    pub fn real_edit(&self, e: &EditSpec) -> RefEdit {
        let mode = if e.log_only { RefLog::Only } else { RefLog::AndReference };
        RefEdit {
            change: if e.del {
                Change::Delete {
                    expected: self.real_prev(&e.expected),
                    log: mode,
                }
            } else {
                Change::Update {
                    log: LogChange {
                        mode,
                        force_create_reflog: false,
                        message: "m".into(),
                    },
                    expected: self.real_prev(&e.expected),
                    new: self.real_target(e.new.as_ref().expect("update has a new value")),
                }
            },
            name: e.name.as_str().try_into().expect("valid name"),
            deref: e.deref,
        }
    }

    /// gitoxide removes empty directories up to the git directory when it drops a lock, `refs/`
    /// included (pinned by gix-ref's test `intermediate_directories_are_removed_on_rollback`);
    /// git then no longer recognises the repository. Returns true if `refs/` had to be re-created.
    pub fn ensure_refs_dir(&mut self) -> bool {
        let refs = self.git_dir.join("refs");
        if refs.is_dir() {
            false
        } else {
            let _ = std::fs::create_dir_all(&refs);
            self.refs_dir_recreated += 1;
            true
        }
    }

    /// Run one operation against the real code / the git binary. Transactions run on a worker
    /// thread with a deadline.
    pub fn apply(&mut self, op: &Op) -> Applied {
        if matches!(op, Op::GitUpdate { .. } | Op::GitPack { .. }) {
            self.ensure_refs_dir();
        }
        match op {
            Op::Txn { edits, mode, rf, pf } => {
                let edits: Vec<RefEdit> = edits.iter().map(|e| self.real_edit(e)).collect();
                let git_dir = self.git_dir.clone();
                let objects = self.objects.clone();
                let (mode, rf, pf) = (*mode, rf.real(), pf.real());
                let res = with_cpu_deadline(self.deadline, move || run_txn(git_dir, objects, edits, mode, rf, pf));
                match res {
                    None => {
                        self.hangs += 1;
                        Applied::Hang
                    }
                    Some(Ok(s)) => Applied::Done(s),
                    Some(Err(_panic)) => Applied::Done("panic".into()),
                }
            }
            Op::GitUpdate {
                del,
                noderef,
                name,
                new,
                old,
            } => {
                let hex = |s: &String| {
                    if s == "0" {
                        "0".repeat(40)
                    } else {
                        self.oid_of[s].to_string()
                    }
                };
                // `--git-dir=.`: never let git discover some other repository when HEAD is gone
                let mut args: Vec<String> = vec!["--git-dir=.".into(), "update-ref".into()];
                if *del {
                    args.push("-d".into());
                }
                if *noderef {
                    args.push("--no-deref".into());
                }
                args.push(name.clone());
                if let Some(n) = new {
                    args.push(hex(n));
                }
                if let Some(o) = old {
                    args.push(hex(o));
                }
                let argv: Vec<&str> = args.iter().map(String::as_str).collect();
                let out = git(&self.git_dir, &argv, None);
                Applied::Done(if out.ok { "ok".into() } else { "fail".into() })
            }
            Op::GitPack { all, prune } => {
                let mut args = vec!["--git-dir=.", "pack-refs"];
                if *all {
                    args.push("--all");
                }
                args.push(if *prune { "--prune" } else { "--no-prune" });
                let out = git(&self.git_dir, &args, None);
                Applied::Done(if out.ok { "ok".into() } else { "fail".into() })
            }
            Op::Lock(name) => {
                let p = self.lock_path(name);
                if p.exists() {
                    return Applied::Done("held".into());
                }
                if let Some(parent) = p.parent() {
                    if std::fs::create_dir_all(parent).is_err() {
                        return Applied::Done("blocked".into());
                    }
                }
                match std::fs::OpenOptions::new().write(true).create_new(true).open(&p) {
                    Ok(_) => Applied::Done("ok".into()),
                    Err(_) => Applied::Done("blocked".into()),
                }
            }
            Op::Race { mods, txn } => self.apply_race(mods, txn),
            Op::Unlock(name) => {
                let p = self.lock_path(name);
                match std::fs::remove_file(&p) {
                    Ok(()) => {
                        // like a real lock holder (gix-lock, git): remove the directories that
                        // were created for the lock file if they are empty now
                        let mut dir = p.parent().map(Path::to_owned);
                        while let Some(d) = dir {
                            if d == self.git_dir || d == self.git_dir.join("refs") || std::fs::remove_dir(&d).is_err() {
                                break;
                            }
                            dir = d.parent().map(Path::to_owned);
                        }
                        Applied::Done("ok".into())
                    }
                    Err(_) => Applied::Done("none".into()),
                }
            }
        }
    }
}

impl World {
    /// The packed-refs file as (name, hex) pairs (peeled lines are dropped).
    fn packed_entries(&self) -> Vec<(String, String)> {
        let Ok(data) = std::fs::read(self.git_dir.join("packed-refs")) else { return Vec::new() };
        String::from_utf8_lossy(&data)
            .lines()
            .filter(|l| !l.starts_with('#') && !l.starts_with('^'))
            .filter_map(|l| l.split_once(' ').map(|(h, n)| (n.to_string(), h.to_string())))
            .collect()
    }

    /// See `Op::Race`. The other writer does what every writer of packed-refs does: create
    /// `packed-refs.lock` with the new content, then rename it onto `packed-refs`.
    fn apply_race(&mut self, mods: &[(String, Option<String>)], txn: &Op) -> Applied {
        let Op::Txn { edits, mode, rf, .. } = txn else { return Applied::Done("bad-race".into()) };
        let mut entries: BTreeMap<String, String> = self.packed_entries().into_iter().collect();
        for (n, o) in mods {
            match o {
                Some(o) => {
                    entries.insert(n.clone(), self.oid_of[o].to_string());
                }
                None => {
                    entries.remove(n);
                }
            }
        }
        let mut text = String::from("# pack-refs with: peeled fully-peeled sorted \n");
        for (n, h) in &entries {
            text.push_str(&format!("{h} {n}\n"));
        }
        let lock = self.git_dir.join("packed-refs.lock");
        {
            use std::io::Write;
            let Ok(mut f) = std::fs::OpenOptions::new().write(true).create_new(true).open(&lock) else {
                return Applied::Done("race-lock-busy".into());
            };
            let _ = f.write_all(text.as_bytes());
        }
        // the transaction under test: waits for packed-refs.lock for up to 8 s
        let edits: Vec<RefEdit> = edits.iter().map(|e| self.real_edit(e)).collect();
        let git_dir = self.git_dir.clone();
        let objects = self.objects.clone();
        let (mode, rf) = (*mode, rf.real());
        let pf = gix_lock::acquire::Fail::AfterDurationWithBackoff(std::time::Duration::from_secs(8));
        let (tx, rx) = std::sync::mpsc::channel();
        let (started_tx, started_rx) = std::sync::mpsc::channel();
        std::thread::spawn(move || {
            let _ = started_tx.send(());
            let r = catch(move || run_txn(git_dir, objects, edits, mode, rf, pf));
            let _ = tx.send(r);
        });
        let _ = started_rx.recv_timeout(std::time::Duration::from_secs(30));
        // give it time to get to the lock (and, if it reads the snapshot too early, to read it)
        std::thread::sleep(std::time::Duration::from_millis(300));
        let early = rx.try_recv().ok();
        // the other writer commits and releases
        let _ = std::fs::rename(&lock, self.git_dir.join("packed-refs"));
        let res = match early {
            Some(r) => Some(r),
            None => rx.recv_timeout(std::time::Duration::from_secs(40)).ok(),
        };
        match res {
            None => {
                self.hangs += 1;
                Applied::Hang
            }
            Some(Ok(s)) => Applied::Done(s),
            Some(Err(_)) => Applied::Done("panic".into()),
        }
    }
}

/// Like `hcommon::with_deadline`, but robust on a heavily loaded machine: the deadline is on the
/// CPU time the worker thread has consumed (a hang in this code is a busy loop; a worker that is
/// merely not scheduled, or sleeping in a lock back-off, does not use CPU), with a generous
/// wall-clock cap on top. `None` = hang; the thread is abandoned.
pub fn with_cpu_deadline<T: Send + 'static>(
    cpu: std::time::Duration,
    f: impl FnOnce() -> T + Send + 'static,
) -> Option<Result<T, String>> {
    let (tx, rx) = std::sync::mpsc::channel();
    let (tid_tx, tid_rx) = std::sync::mpsc::channel();
    std::thread::spawn(move || {
        let _ = tid_tx.send(std::fs::read_link("/proc/thread-self").ok());
        let r = catch(f);
        let _ = tx.send(r);
    });
    let stat_path = tid_rx
        .recv_timeout(std::time::Duration::from_secs(120))
        .ok()
        .flatten()
        .map(|p| Path::new("/proc").join(p).join("stat"));
    let cpu_used = |p: &Path| -> Option<std::time::Duration> {
        let s = std::fs::read_to_string(p).ok()?;
        // fields after the parenthesised command name: state is #3, utime #14, stime #15
        let rest = &s[s.rfind(')')? + 2..];
        let f: Vec<&str> = rest.split(' ').collect();
        let ticks: u64 = f.get(11)?.parse::<u64>().ok()? + f.get(12)?.parse::<u64>().ok()?;
        Some(std::time::Duration::from_millis(ticks * 10)) // USER_HZ = 100
    };
    let start = std::time::Instant::now();
    let wall_cap = std::time::Duration::from_secs(45);
    loop {
        match rx.recv_timeout(std::time::Duration::from_millis(100)) {
            Ok(r) => return Some(r),
            Err(std::sync::mpsc::RecvTimeoutError::Disconnected) => return None,
            Err(std::sync::mpsc::RecvTimeoutError::Timeout) => {}
        }
        match stat_path.as_deref().and_then(cpu_used) {
            Some(used) if used >= cpu => return None,
            Some(_) => {}
            // no /proc: fall back to wall-clock time
            None if start.elapsed() >= cpu * 4 => return None,
            None => {}
        }
        if start.elapsed() >= wall_cap {
            return None;
        }
    }
}

fn copy_dir(from: &Path, to: &Path) {
    std::fs::create_dir_all(to).expect("mkdir");
    for e in std::fs::read_dir(from).expect("read_dir").flatten() {
        let p = e.path();
        let t = to.join(e.file_name());
        if p.is_dir() {
            copy_dir(&p, &t);
        } else {
            std::fs::copy(&p, &t).expect("copy");
        }
    }
}

fn committer() -> gix_actor::Signature {
    gix_actor::Signature {
        name: "committer".into(),
        email: "committer@example.com".into(),
        time: gix_date::Time {
            seconds: 1234,
            offset: 1800,
            sign: gix_date::time::Sign::Plus,
        },
    }
}

fn lock_err(source: &gix_lock::acquire::Error, name: &str, what: &str) -> String {
    match source {
        gix_lock::acquire::Error::PermanentlyLocked { .. } => format!("err:{what}:{name}"),
        gix_lock::acquire::Error::Io(_) => format!("err:{what}io:{name}"),
    }
}

/// prepare + commit through the real transaction; canonical result string.
pub fn run_txn(
    git_dir: PathBuf,
    objects: Arc<Objects>,
    edits: Vec<RefEdit>,
    mode: Mode,
    rf: gix_lock::acquire::Fail,
    pf: gix_lock::acquire::Fail,
) -> String {
    use gix_ref::file::transaction::{commit, prepare};
    let store = gix_ref::file::Store::at(git_dir, Default::default());
    let packed = match mode {
        Mode::D => PackedRefs::DeletionsOnly,
        Mode::U => PackedRefs::DeletionsAndNonSymbolicUpdates(Box::new(SharedObjects(objects))),
        Mode::R => PackedRefs::DeletionsAndNonSymbolicUpdatesRemoveLooseSourceReference(Box::new(SharedObjects(objects))),
    };
    let prepared = match store.transaction().packed_refs(packed).prepare(edits, rf, pf) {
        Ok(t) => t,
        Err(e) => {
            return match &e {
                prepare::Error::PreprocessingFailed(_) => "err:pre".into(),
                prepare::Error::PackedTransactionAcquire(s) => lock_err(s, "packed-refs", "plock"),
                prepare::Error::PackedTransactionPrepare(_) => "err:pprep".into(),
                prepare::Error::LockAcquire { source, full_name } => lock_err(source, &full_name.to_string(), "lock"),
                prepare::Error::DeleteReferenceMustExist { full_name } => format!("err:delme:{full_name}"),
                prepare::Error::MustNotExist { full_name, .. } => format!("err:mne:{full_name}"),
                prepare::Error::MustExist { full_name, .. } => format!("err:me:{full_name}"),
                prepare::Error::ReferenceOutOfDate { full_name, .. } => format!("err:ood:{full_name}"),
                prepare::Error::Io(_) => "err:io".into(),
                prepare::Error::Packed(_) => "err:packed-open".into(),
                prepare::Error::PackedFind(_) => "err:packed-find".into(),
                prepare::Error::ReferenceDecode(_) => "err:decode".into(),
            }
        }
    };
    let sig = committer();
    match prepared.commit(sig.to_ref()) {
        Ok(_) => "ok".into(),
        Err(e) => match &e {
            commit::Error::LockCommit { full_name, .. } => format!("err:c-lock:{full_name}"),
            commit::Error::DeleteReference { full_name, .. } => format!("err:c-delref:{full_name}"),
            commit::Error::DeleteReflog { full_name, .. } => format!("err:c-dellog:{full_name}"),
            commit::Error::PackedTransactionCommit(_) => "err:c-packed".into(),
            commit::Error::CreateOrUpdateRefLog(_) => "err:c-reflog".into(),
            commit::Error::PreprocessingFailed { .. } => "err:c-pre".into(),
        },
    }
}

// ---------------------------------------------------------------------------------------------
// generators (shared)

pub struct GenCfg {
    /// allow `AfterDurationWithBackoff` lock modes (C17)
    pub backoff: bool,
    /// allow the non-existing object `zz`
    pub missing_oid: bool,
    /// allow user-level `RefLog::Only` edits
    pub log_only: bool,
}

pub fn gen_target(rng: &mut Rng, cfg: &GenCfg) -> Tgt {
    if rng.chance(7, 10) {
        let r = rng.below(100);
        Tgt::O(
            if r < 2 && cfg.missing_oid {
                "zz"
            } else if r < 12 {
                "t1"
            } else {
                *rng.pick(&["c1", "c2", "c3"])
            }
            .to_string(),
        )
    } else {
        let r = rng.below(20);
        Tgt::S(if r == 0 { GHOST.to_string() } else { rng.pick(&EDIT_NAMES[1..]).to_string() })
    }
}

/// follow symbolic refs in `view` (at most 5 hops) to the name the chain ends at
pub fn leaf_name(view: &BTreeMap<String, Tgt>, name: &str) -> String {
    let mut cur = name.to_string();
    for _ in 0..5 {
        match view.get(&cur) {
            Some(Tgt::S(next)) => cur = next.clone(),
            _ => break,
        }
    }
    cur
}

pub fn gen_edit(rng: &mut Rng, view: &BTreeMap<String, Tgt>, cfg: &GenCfg) -> EditSpec {
    let name = if rng.chance(1, 4) { "HEAD" } else { *rng.pick(&EDIT_NAMES) }.to_string();
    let del = rng.chance(3, 10);
    let deref = rng.chance(1, 2);
    let new = (!del).then(|| gen_target(rng, cfg));
    // the value the expectation will be compared with
    let subject = if deref { leaf_name(view, &name) } else { name.clone() };
    let current = view.get(&subject).cloned();
    let matching = |rng: &mut Rng| -> Tgt {
        match (&current, rng.chance(7, 10)) {
            (Some(t), true) => t.clone(),
            _ => gen_target(rng, &GenCfg { backoff: false, missing_oid: false, log_only: false }),
        }
    };
    let r = rng.below(100);
    let expected = if r < 35 {
        Prev::Any
    } else if r < 45 {
        Prev::MustExist
    } else if r < 55 {
        if del && !rng.chance(1, 10) {
            Prev::Any
        } else {
            Prev::MustNotExist
        }
    } else if r < 80 {
        Prev::Mem(matching(rng))
    } else {
        Prev::Emm(matching(rng))
    };
    EditSpec {
        del,
        name,
        deref,
        expected,
        new,
        log_only: cfg.log_only && rng.chance(3, 100),
    }
}

pub fn gen_txn(rng: &mut Rng, view: &BTreeMap<String, Tgt>, cfg: &GenCfg) -> Op {
    let n = *rng.pick(&[1usize, 1, 1, 2, 2, 2, 3, 3, 4, 5, 6]);
    let mut edits: Vec<EditSpec> = Vec::new();
    let mut tries = 0;
    while edits.len() < n && tries < 40 {
        tries += 1;
        let e = gen_edit(rng, view, cfg);
        if edits.iter().any(|x| x.name == e.name) && !rng.chance(1, 20) {
            continue;
        }
        edits.push(e);
    }
    let mode = *rng.pick(&[Mode::D, Mode::D, Mode::U, Mode::R]);
    let fm = |rng: &mut Rng| {
        if cfg.backoff && rng.chance(1, 5) {
            FailMode::B(*rng.pick(&[1u64, 3, 8, 20]))
        } else {
            FailMode::I
        }
    };
    let rf = fm(rng);
    let pf = fm(rng);
    Op::Txn { edits, mode, rf, pf }
}

pub fn gen_git_update(rng: &mut Rng, view: &BTreeMap<String, Tgt>) -> Op {
    let name = rng.pick(&EDIT_NAMES).to_string();
    let del = rng.chance(3, 10);
    let noderef = rng.chance(2, 5);
    let new = (!del).then(|| rng.pick(&["c1", "c2", "c3"]).to_string());
    let subject = if noderef { name.clone() } else { leaf_name(view, &name) };
    // the value git compares <old> with is the peeled value of the subject
    let resolved = match view.get(&leaf_name(view, &subject)) {
        Some(Tgt::O(o)) => Some(o.clone()),
        _ => None,
    };
    let r = rng.below(100);
    let old = if r < 45 {
        None
    } else if r < 55 {
        Some("0".to_string())
    } else {
        match (&resolved, rng.chance(3, 4)) {
            (Some(o), true) if o != "zz" => Some(o.clone()),
            _ => Some(rng.pick(&["c1", "c2", "c3"]).to_string()),
        }
    };
    Op::GitUpdate {
        del,
        noderef,
        name,
        new,
        old,
    }
}

// ---------------------------------------------------------------------------------------------
// the domain of the model: no directory/file conflicts between nested names

/// Names an operation reads or writes as references (edit names and, for dereferencing edits,
/// the names along the chain of symbolic refs).
pub fn touched(op: &Op, view: &BTreeMap<String, Tgt>) -> Vec<String> {
    let chain = |name: &str, out: &mut Vec<String>| {
        let mut cur = name.to_string();
        for _ in 0..6 {
            out.push(cur.clone());
            match view.get(&cur) {
                Some(Tgt::S(next)) => cur = next.clone(),
                _ => break,
            }
        }
    };
    let mut out = Vec::new();
    match op {
        Op::Txn { edits, .. } => {
            for e in edits {
                if e.deref {
                    chain(&e.name, &mut out);
                } else {
                    out.push(e.name.clone());
                }
            }
        }
        Op::GitUpdate { noderef, name, .. } => {
            if *noderef {
                out.push(name.clone());
            } else {
                chain(name, &mut out);
            }
        }
        Op::Lock(n) => out.push(n.clone()),
        Op::Unlock(_) | Op::GitPack { .. } => {}
        Op::Race { txn, .. } => return touched(txn, view),
    }
    out
}

/// Would `op` touch one side of a directory/file conflict (`x` and `x/y` both in play)? Such
/// operations are outside the domain of the model (and of git: it refuses to create them).
pub fn df_conflict(op: &Op, view: &BTreeMap<String, Tgt>, locks: &std::collections::BTreeSet<String>) -> bool {
    let t = touched(op, view);
    let in_play = |n: &str| view.contains_key(n) || locks.contains(n) || t.iter().any(|x| x == n);
    for x in &t {
        for y in NAMES {
            let nested = y.starts_with(&format!("{x}/")) || x.starts_with(&format!("{y}/"));
            if nested && in_play(y) {
                return true;
            }
        }
    }
    false
}
