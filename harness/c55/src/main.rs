//! C55 — worktree streams and archives.
//!
//! ops (correspondence with the Lean model GixModel.C55):
//!   enc (<path> <kind> <id> <m|c:sizes> <content>)*      raw pipe bytes of `from_tree(empty tree)` +
//!                                                       additional entries, read through `into_read()`
//!   dec <sizes> <hex stream>                            `Stream::from_read(bytes)`, `next_entry` loop, every
//!                                                       entry read to the end with buffers of the given sizes
//!   tree <sizes> <forest…> . <additional entries…>      `repo.worktree_stream(tree)` + `add_entry`, same loop
//! oracle (the property itself, against git):
//!   stream entries == `git ls-tree -r` (without submodules) + `git cat-file` contents (+ additional entries),
//!   each exactly once; tar and zip written by gix-archive, unpacked with tar / python zipfile, equal to
//!   what `git archive` of the same tree unpacks to (plus the additional entries).
use gix::bstr::{BString, ByteSlice};
use hcommon::*;
use std::collections::BTreeMap;
use std::io::{Read, Write};
use std::os::unix::ffi::OsStrExt;
use std::os::unix::fs::PermissionsExt;
use std::path::{Path, PathBuf};

// ---------------------------------------------------------------------------------------------
// content specs shared with the Lean driver

#[derive(Clone, Debug)]
enum Content {
    Hex(Vec<u8>),
    Lcg(u64, usize),
    Rep(u8, usize),
}

impl Content {
    fn bytes(&self) -> Vec<u8> {
        match self {
            Content::Hex(b) => b.clone(),
            Content::Lcg(seed, len) => {
                let mut x = *seed;
                (0..*len)
                    .map(|_| {
                        x = (x * 1103515245 + 12345) % 2147483648;
                        ((x / 65536) % 256) as u8
                    })
                    .collect()
            }
            Content::Rep(b, len) => vec![*b; *len],
        }
    }
    fn spec(&self) -> String {
        match self {
            Content::Hex(b) => format!("h:{}", hex(b)),
            Content::Lcg(s, l) => format!("r:{s}:{l}"),
            Content::Rep(b, l) => format!("z:{b}:{l}"),
        }
    }
}

fn fnv64(bs: &[u8]) -> u64 {
    let mut h: u64 = 0xcbf29ce484222325;
    for b in bs {
        h ^= *b as u64;
        h = h.wrapping_mul(0x100000001b3);
    }
    h
}

fn summary(bs: &[u8]) -> String {
    if bs.len() <= 48 {
        format!("{}:{}", bs.len(), hex(bs))
    } else {
        format!("{}:#{:016x}", bs.len(), fnv64(bs))
    }
}

fn kind_of(mode: gix_object::tree::EntryMode) -> u8 {
    use gix_object::tree::EntryKind::*;
    match mode.kind() {
        Tree => 0,
        Blob => 1,
        BlobExecutable => 2,
        Link => 3,
        Commit => 4,
    }
}

fn mode_of(kind: u8) -> gix_object::tree::EntryMode {
    use gix_object::tree::EntryKind::*;
    match kind {
        0 => Tree,
        1 => Blob,
        2 => BlobExecutable,
        3 => Link,
        _ => Commit,
    }
    .into()
}

#[derive(Clone, Debug, PartialEq, Eq, PartialOrd, Ord)]
struct Seen {
    path: Vec<u8>,
    kind: u8,
    id: Vec<u8>,
    declared: Option<usize>,
    content: Vec<u8>,
}

fn seen_str(s: &Seen) -> String {
    format!(
        "{},{},{},{},{}",
        hex(&s.path),
        s.kind,
        hex(&s.id),
        s.declared.map_or("?".to_string(), |n| n.to_string()),
        summary(&s.content)
    )
}

fn join(v: Vec<String>) -> String {
    if v.is_empty() {
        "-".into()
    } else {
        v.join("|")
    }
}

/// `while let Some(entry) = stream.next_entry()? { read to the end with the given buffer sizes }`
fn drain(stream: &mut gix_worktree_stream::Stream, sizes: &[usize]) -> (String, Vec<Seen>) {
    let mut seen = Vec::new();
    let mut i = 0usize;
    // a size of 0 in the list = "read with an empty buffer here" (must return 0 and change nothing)
    let sz = |i: usize| -> usize {
        if sizes.iter().all(|s| *s == 0) {
            1
        } else {
            sizes[i % sizes.len()]
        }
    };
    let status = loop {
        let r = catch(|| -> Result<Option<Seen>, String> {
            match stream.next_entry() {
                Err(e) => Err(e.to_string()),
                Ok(None) => Ok(None),
                Ok(Some(mut entry)) => {
                    let mut content = Vec::new();
                    let declared = entry.bytes_remaining();
                    loop {
                        let mut buf = vec![0u8; sz(i)];
                        i += 1;
                        match entry.read(&mut buf) {
                            Ok(0) if buf.is_empty() => continue,
                            Ok(0) => break,
                            Ok(n) => content.extend_from_slice(&buf[..n]),
                            Err(e) => return Err(e.to_string()),
                        }
                    }
                    Ok(Some(Seen {
                        path: entry.relative_path().to_vec(),
                        kind: kind_of(entry.mode),
                        id: entry.id.as_bytes().to_vec(),
                        declared,
                        content,
                    }))
                }
            }
        });
        match r {
            Err(_) => break "panic",
            Ok(Err(_)) => break "err",
            Ok(Ok(None)) => break "ok",
            Ok(Ok(Some(s))) => seen.push(s),
        }
    };
    (format!("{status} {}", join(seen.iter().map(seen_str).collect())), seen)
}

// ---------------------------------------------------------------------------------------------
// additional entries

#[derive(Clone, Debug)]
enum How {
    Memory,
    /// a regular file: `File::read` fills the 65535 byte buffer
    File,
    /// a FIFO fed in pieces of the given sizes (each at most 4096 = PIPE_BUF, written only after
    /// the previous piece was taken): `read` returns exactly these pieces
    Fifo(Vec<usize>),
}

#[derive(Clone, Debug)]
struct Extra {
    path: Vec<u8>,
    kind: u8,
    id: [u8; 20],
    how: How,
    content: Content,
}

impl Extra {
    fn op(&self) -> String {
        let how = match &self.how {
            How::Memory => "m".to_string(),
            How::File => "c:65535".to_string(),
            How::Fifo(s) => format!("c:{}", s.iter().map(|n| n.to_string()).collect::<Vec<_>>().join(",")),
        };
        format!("{} {} {} {} {}", hex(&self.path), self.kind, hex(&self.id), how, self.content.spec())
    }
}

struct Ctx {
    rep: Report,
    scratch: Scratch,
    repo: PathBuf,
    counter: usize,
    fifo_threads: Vec<std::thread::JoinHandle<()>>,
}

fn add_extras(cx: &mut Ctx, stream: &mut gix_worktree_stream::Stream, extras: &[Extra]) {
    for e in extras {
        cx.counter += 1;
        let source = match &e.how {
            How::Memory => {
                if e.kind == 0 {
                    gix_worktree_stream::entry::Source::Null
                } else {
                    gix_worktree_stream::entry::Source::Memory(e.content.bytes())
                }
            }
            How::File => {
                let p = cx.scratch.join(format!("extra{}", cx.counter));
                std::fs::write(&p, e.content.bytes()).expect("write extra file");
                gix_worktree_stream::entry::Source::Path(p)
            }
            How::Fifo(sizes) => {
                let p = cx.scratch.join(format!("fifo{}", cx.counter));
                let c = std::ffi::CString::new(p.as_os_str().as_bytes()).unwrap();
                assert_eq!(unsafe { libc::mkfifo(c.as_ptr(), 0o600) }, 0, "mkfifo");
                let data = e.content.bytes();
                let sizes = sizes.clone();
                let p2 = p.clone();
                cx.fifo_threads.push(std::thread::spawn(move || {
                    use std::os::fd::AsRawFd;
                    let mut f = std::fs::OpenOptions::new().write(true).open(&p2).expect("open fifo for writing");
                    let mut pos = 0;
                    let mut i = 0;
                    'pieces: while pos < data.len() {
                        let n = sizes[i % sizes.len()].clamp(1, 4096).min(data.len() - pos);
                        i += 1;
                        if f.write_all(&data[pos..pos + n]).is_err() {
                            break; // the reader went away (it must not: the oracle will see the short content)
                        }
                        pos += n;
                        // wait until the reader took it, so that its next read sees exactly the next piece
                        let t0 = std::time::Instant::now();
                        loop {
                            let mut avail: libc::c_int = 0;
                            unsafe { libc::ioctl(f.as_raw_fd(), libc::FIONREAD, &mut avail) };
                            if avail == 0 {
                                break;
                            }
                            if t0.elapsed() > std::time::Duration::from_secs(3) {
                                break 'pieces; // nobody reads any more
                            }
                            std::thread::yield_now();
                        }
                    }
                }));
                gix_worktree_stream::entry::Source::Path(p)
            }
        };
        stream.add_entry(gix_worktree_stream::AdditionalEntry {
            id: gix_hash::ObjectId::from_bytes_or_panic(&e.id),
            mode: mode_of(e.kind),
            relative_path: BString::from(e.path.clone()),
            source,
        });
    }
}

fn join_fifos(cx: &mut Ctx) {
    for t in cx.fifo_threads.drain(..) {
        let _ = t.join();
    }
}

const EMPTY_TREE: &str = "4b825dc642cb6eb9a060e54bf8d69288fbee4904";

fn open_repo(cx: &Ctx) -> gix::Repository {
    gix::open_opts(&cx.repo, gix::open::Options::isolated()).expect("open scratch repo")
}

fn stream_of(cx: &mut Ctx, tree_hex: &str, extras: &[Extra]) -> gix_worktree_stream::Stream {
    let repo = open_repo(cx);
    let id = gix::ObjectId::from_hex(tree_hex.as_bytes()).expect("hex id");
    let (mut stream, _index) = repo.worktree_stream(id).expect("worktree_stream");
    add_extras(cx, &mut stream, extras);
    stream
}

// ---------------------------------------------------------------------------------------------
// ops

fn do_enc(cx: &mut Ctx, extras: &[Extra]) {
    let mut stream = stream_of(cx, EMPTY_TREE, extras);
    let mut raw = Vec::new();
    let r = stream.as_read_mut().read_to_end(&mut raw);
    join_fifos(cx);
    let op = format!("enc{}", extras.iter().map(|e| format!(" {}", e.op())).collect::<String>());
    match r {
        Ok(_) => cx.rep.case(&op, &summary(&raw), !extras.is_empty()),
        Err(_) => cx.rep.case(&op, "err", true),
    }
    cx.rep.bucket("op:enc");
    // the property on the real code: what was written decodes to what was added
    let mut back = gix_worktree_stream::Stream::from_read(std::io::Cursor::new(raw));
    let (_, seen) = drain(&mut back, &[8192]);
    cx.rep.oracle_checked();
    let want: Vec<(Vec<u8>, u8, Vec<u8>)> = extras
        .iter()
        .map(|e| (e.path.clone(), e.kind, if e.kind == 0 && matches!(e.how, How::Memory) { vec![] } else { e.content.bytes() }))
        .collect();
    let got: Vec<(Vec<u8>, u8, Vec<u8>)> = seen.iter().map(|s| (s.path.clone(), s.kind, s.content.clone())).collect();
    if want != got {
        let first = want.iter().zip(&got).position(|(a, b)| a != b).unwrap_or(want.len().min(got.len()));
        cx.rep.oracle_failure(
            &format!("enc-roundtrip {}", short_key(&op)),
            &format!(
                "additional entries written by from_tree() and read back through Stream::from_read() differ at entry {first}: {} entries added, {} read; added (path, kind, bytes) = {:?}, read {:?}",
                want.len(),
                got.len(),
                want.get(first).map(|w| (String::from_utf8_lossy(&w.0).into_owned(), w.1, w.2.len())),
                got.get(first).map(|w| (String::from_utf8_lossy(&w.0).into_owned(), w.1, w.2.len()))
            ),
            &op,
        );
    }
}

fn short_key(op: &str) -> String {
    if op.len() > 200 {
        format!("{}…(len={} fnv={:016x})", &op[..120], op.len(), fnv64(op.as_bytes()))
    } else {
        op.to_string()
    }
}

fn sizes_str(sizes: &[usize]) -> String {
    if sizes.is_empty() {
        "-".into()
    } else {
        sizes.iter().map(|n| n.to_string()).collect::<Vec<_>>().join(",")
    }
}

fn do_dec(cx: &mut Ctx, raw: &[u8], sizes: &[usize]) {
    let mut stream = gix_worktree_stream::Stream::from_read(std::io::Cursor::new(raw.to_vec()));
    let (obs, _) = drain(&mut stream, sizes);
    cx.rep.case(&format!("dec {} {}", sizes_str(sizes), hex(raw)), &obs, true);
    cx.rep.bucket(&format!("op:dec:{}", obs.split(' ').next().unwrap_or("")));
}

/// the harness' own encoder (independent of gitoxide and of the Lean model) for `dec` inputs
fn my_encode(path: &[u8], kind: u8, id: &[u8; 20], content: &[u8], chunks: Option<&[usize]>) -> Vec<u8> {
    let mut o = Vec::new();
    o.extend_from_slice(&(path.len() as u64).to_le_bytes());
    o.extend_from_slice(&(if chunks.is_some() { u64::MAX } else { content.len() as u64 }).to_le_bytes());
    o.push(kind);
    o.push(0);
    o.extend_from_slice(id);
    o.extend_from_slice(path);
    match chunks {
        None => o.extend_from_slice(content),
        Some(sizes) => {
            let mut pos = 0;
            let mut i = 0;
            while pos < content.len() {
                let n = sizes[i % sizes.len()].clamp(1, 65535).min(content.len() - pos);
                i += 1;
                o.extend_from_slice(&(n as u16).to_le_bytes());
                o.extend_from_slice(&content[pos..pos + n]);
                pos += n;
            }
            o.extend_from_slice(&[0, 0]);
        }
    }
    o
}

// ---------------------------------------------------------------------------------------------
// trees built with git

#[derive(Clone, Debug)]
enum Item {
    File { name: Vec<u8>, exec: bool, content: Content },
    Link { name: Vec<u8>, target: Vec<u8> },
    Gitlink { name: Vec<u8> },
    Dir { name: Vec<u8>, children: Vec<Item> },
}

fn os(p: &[u8]) -> &std::ffi::OsStr {
    std::ffi::OsStr::from_bytes(p)
}

fn materialize(dir: &Path, items: &[Item], gitlinks: &mut Vec<PathBuf>) {
    for it in items {
        match it {
            Item::File { name, exec, content } => {
                let p = dir.join(os(name));
                std::fs::write(&p, content.bytes()).expect("write file");
                if *exec {
                    std::fs::set_permissions(&p, std::fs::Permissions::from_mode(0o755)).expect("chmod");
                }
            }
            Item::Link { name, target } => {
                std::os::unix::fs::symlink(os(target), dir.join(os(name))).expect("symlink");
            }
            Item::Gitlink { name } => gitlinks.push(dir.join(os(name))),
            Item::Dir { name, children } => {
                let p = dir.join(os(name));
                std::fs::create_dir(&p).expect("mkdir");
                materialize(&p, children, gitlinks);
            }
        }
    }
}

/// one level of `git ls-tree`: (mode, type, id hex, name)
fn ls_tree(repo: &Path, tree: &str) -> Vec<(String, String, String, Vec<u8>)> {
    let o = git(repo, &["ls-tree", "-z", tree], None);
    assert!(o.ok, "ls-tree");
    o.stdout
        .split(|b| *b == 0)
        .filter(|r| !r.is_empty())
        .map(|rec| {
            let tab = rec.iter().position(|b| *b == b'\t').expect("tab");
            let head = String::from_utf8_lossy(&rec[..tab]).to_string();
            let mut it = head.split(' ');
            (
                it.next().unwrap().to_string(),
                it.next().unwrap().to_string(),
                it.next().unwrap().to_string(),
                rec[tab + 1..].to_vec(),
            )
        })
        .collect()
}

/// what git stores: path -> (kind, id hex), gitlinks separately, plus the forest op tokens in git's tree order
fn walk_git_tree(
    repo: &Path,
    tree: &str,
    prefix: &[u8],
    contents: &BTreeMap<Vec<u8>, Content>,
    leaves: &mut Vec<(Vec<u8>, u8, String)>,
    gitlinks: &mut Vec<Vec<u8>>,
    tokens: &mut Vec<String>,
) {
    for (mode, _ty, id, name) in ls_tree(repo, tree) {
        let mut path = prefix.to_vec();
        if !path.is_empty() {
            path.push(b'/');
        }
        path.extend_from_slice(&name);
        match mode.as_str() {
            "040000" => {
                tokens.push(format!("d {}", hex(&name)));
                walk_git_tree(repo, &id, &path, contents, leaves, gitlinks, tokens);
                tokens.push("u".into());
            }
            "160000" => {
                tokens.push(format!("g {} {}", hex(&name), id));
                gitlinks.push(path);
            }
            m => {
                let kind = match m {
                    "100755" => 2,
                    "120000" => 3,
                    _ => 1,
                };
                let spec = contents.get(&path).map(|c| c.spec()).unwrap_or_else(|| "h:-".into());
                tokens.push(format!("f {} {} {} {}", hex(&name), kind, id, spec));
                leaves.push((path, kind, id));
            }
        }
    }
}

fn collect_contents(prefix: &[u8], items: &[Item], out: &mut BTreeMap<Vec<u8>, Content>) {
    for it in items {
        let (name, c) = match it {
            Item::File { name, content, .. } => (name, Some(content.clone())),
            Item::Link { name, target } => (name, Some(Content::Hex(target.clone()))),
            Item::Gitlink { name } => (name, None),
            Item::Dir { name, children } => {
                let mut p = prefix.to_vec();
                if !p.is_empty() {
                    p.push(b'/');
                }
                p.extend_from_slice(name);
                collect_contents(&p, children, out);
                continue;
            }
        };
        let mut p = prefix.to_vec();
        if !p.is_empty() {
            p.push(b'/');
        }
        p.extend_from_slice(name);
        if let Some(c) = c {
            out.insert(p, c);
        }
    }
}

/// unpacked archive: path -> (kind, content or link target)
fn walk_dir(root: &Path, rel: &Path, out: &mut BTreeMap<Vec<u8>, (u8, Vec<u8>)>, dirs: &mut Vec<Vec<u8>>) {
    let mut names: Vec<_> = std::fs::read_dir(root.join(rel)).expect("read_dir").map(|e| e.unwrap().file_name()).collect();
    names.sort();
    for n in names {
        let r = rel.join(&n);
        let full = root.join(&r);
        let md = std::fs::symlink_metadata(&full).expect("lstat");
        let key = r.as_os_str().as_bytes().to_vec();
        if md.file_type().is_symlink() {
            out.insert(key, (3, std::fs::read_link(&full).unwrap().as_os_str().as_bytes().to_vec()));
        } else if md.is_dir() {
            dirs.push(key);
            walk_dir(root, &r, out, dirs);
        } else {
            let kind = if md.permissions().mode() & 0o100 != 0 { 2 } else { 1 };
            out.insert(key, (kind, std::fs::read(&full).unwrap()));
        }
    }
}

fn untar(cx: &Ctx, tarfile: &Path, tag: &str) -> Option<(BTreeMap<Vec<u8>, (u8, Vec<u8>)>, Vec<Vec<u8>>)> {
    let dir = cx.scratch.join(format!("x-{tag}-{}", cx.counter));
    let _ = std::fs::remove_dir_all(&dir);
    std::fs::create_dir_all(&dir).unwrap();
    let st = std::process::Command::new("tar")
        .arg("-xf")
        .arg(tarfile)
        .arg("-C")
        .arg(&dir)
        .env("LC_ALL", "C")
        .output()
        .expect("run tar");
    if !st.status.success() {
        return None;
    }
    let mut m = BTreeMap::new();
    let mut dirs = Vec::new();
    walk_dir(&dir, Path::new(""), &mut m, &mut dirs);
    let _ = std::fs::remove_dir_all(&dir);
    Some((m, dirs))
}

const ZIP_PY: &str = r#"
import zipfile, sys
z = zipfile.ZipFile(sys.argv[1])
for i in z.infolist():
    if i.filename.endswith('/'):
        continue
    mode = i.external_attr >> 16
    kind = 3 if (mode & 0o170000) == 0o120000 else (2 if mode & 0o100 else 1)
    sys.stdout.write('%s %d %s\n' % (i.filename.encode('utf-8', 'surrogateescape').hex() or '-', kind, z.read(i).hex() or '-'))
"#;

fn unzip(cx: &Ctx, zipfile: &Path) -> Option<BTreeMap<Vec<u8>, (u8, Vec<u8>)>> {
    let py = if Path::new("/usr/bin/python3").exists() { "/usr/bin/python3" } else { "python3" };
    let o = std::process::Command::new(py)
        .arg("-S")
        .arg("-c")
        .arg(ZIP_PY)
        .arg(zipfile)
        .env("LC_ALL", "C")
        .current_dir(&cx.scratch.path)
        .output()
        .expect("run python3");
    if !o.status.success() {
        return None;
    }
    let mut m = BTreeMap::new();
    for line in String::from_utf8_lossy(&o.stdout).lines() {
        let a: Vec<&str> = line.split(' ').collect();
        if a.len() == 3 {
            m.insert(unhex(a[0])?, (a[1].parse().ok()?, unhex(a[2])?));
        }
    }
    Some(m)
}

/// what tar-rs' `set_link_name` makes of a link target (re-assembled from `Path::components()`):
/// empty components and `.` components other than a leading one are dropped, a trailing slash stays
fn normalize_link(t: &[u8]) -> Vec<u8> {
    let abs = t.first() == Some(&b'/');
    let mut parts: Vec<&[u8]> = Vec::new();
    for (i, p) in t.split(|b| *b == b'/').enumerate() {
        if p.is_empty() || (p == b"." && !(i == 0 && !abs)) {
            continue;
        }
        parts.push(p);
    }
    let mut o = Vec::new();
    if abs {
        o.push(b'/');
    }
    for (i, p) in parts.iter().enumerate() {
        if i > 0 {
            o.push(b'/');
        }
        o.extend_from_slice(p);
    }
    if t.last() == Some(&b'/') && o.last() != Some(&b'/') {
        o.push(b'/');
    }
    o
}

struct TreeCase {
    items: Vec<Item>,
    extras: Vec<Extra>,
    sizes: Vec<usize>,
    with_attributes: bool,
    /// the attributes only select the identity filter `burst` (content arrives in bursts, unknown length):
    /// the reference is `git cat-file` of the blobs
    identity_filter: bool,
}

fn diff_maps(
    a: &BTreeMap<Vec<u8>, (u8, Vec<u8>)>,
    b: &BTreeMap<Vec<u8>, (u8, Vec<u8>)>,
    an: &str,
    bn: &str,
) -> Option<String> {
    for (k, v) in a {
        match b.get(k) {
            None => return Some(format!("{:?} is in {an} but not in {bn}", k.as_bstr())),
            Some(w) if w != v => {
                return Some(format!(
                    "{:?}: {an} has kind {} with {} bytes, {bn} has kind {} with {} bytes{}",
                    k.as_bstr(),
                    v.0,
                    v.1.len(),
                    w.0,
                    w.1.len(),
                    if v.1.len() == w.1.len() { " (content differs)" } else { "" }
                ))
            }
            _ => {}
        }
    }
    for k in b.keys() {
        if !a.contains_key(k) {
            return Some(format!("{:?} is in {bn} but not in {an}", k.as_bstr()));
        }
    }
    None
}

fn do_tree(cx: &mut Ctx, case: &TreeCase) {
    let t0 = std::time::Instant::now();
    cx.counter += 1;
    let n = cx.counter;
    let repo = cx.repo.clone();
    let sub = format!("t{n}");
    let dir = repo.join(&sub);
    std::fs::create_dir(&dir).expect("mkdir tree dir");
    let mut gl = Vec::new();
    materialize(&dir, &case.items, &mut gl);
    git_ok(&repo, &["add", "--", &sub], None);
    for g in &gl {
        let rel = g.strip_prefix(&repo).unwrap();
        let o = std::process::Command::new("git")
            .current_dir(&repo)
            .args(["update-index", "--add", "--cacheinfo"])
            .arg({
                let mut s = std::ffi::OsString::from("160000,1234567890123456789012345678901234567890,");
                s.push(rel.as_os_str());
                s
            })
            .env("GIT_CONFIG_NOSYSTEM", "1")
            .output()
            .expect("update-index");
        assert!(o.status.success(), "update-index --cacheinfo: {}", String::from_utf8_lossy(&o.stderr));
    }
    let tree = if case.items.is_empty() {
        EMPTY_TREE.to_string()
    } else {
        git_ok(&repo, &["write-tree", &format!("--prefix={sub}/")], None)
    };
    let mut contents = BTreeMap::new();
    collect_contents(b"", &case.items, &mut contents);
    let mut leaves = Vec::new();
    let mut gitlinks = Vec::new();
    let mut tokens = Vec::new();
    walk_git_tree(&repo, &tree, b"", &contents, &mut leaves, &mut gitlinks, &mut tokens);

    // --- the stream
    let mut stream = stream_of(cx, &tree, &case.extras);
    let (obs, seen) = drain(&mut stream, &case.sizes);
    join_fifos(cx);
    let op = format!(
        "tree {} {} .{}",
        sizes_str(&case.sizes),
        tokens.join(" "),
        case.extras.iter().map(|e| format!(" {}", e.op())).collect::<String>()
    )
    .replace("  ", " ");
    if !case.with_attributes {
        cx.rep.case(&op, &obs, !leaves.is_empty() || !case.extras.is_empty());
    } else {
        cx.rep.oracle_only(&op, true);
    }
    cx.rep.bucket(&format!("tree:leaves{}", (leaves.len() / 4 * 4).min(16)));
    cx.rep.bucket(&format!("tree:extras{}", case.extras.len().min(3)));
    if !gitlinks.is_empty() {
        cx.rep.bucket("tree:with-gitlink");
    }
    if case.with_attributes {
        cx.rep.bucket("tree:with-attributes");
    }
    let key = format!("tree#{n} seed-relative {}", short_key(&op));

    if std::env::var_os("C55_TIMING").is_some() { eprintln!("tree#{n} setup+stream {:?}", t0.elapsed()); }
    // --- oracle 1: entries of the stream vs git's own view of the tree
    cx.rep.oracle_checked();
    if !obs.starts_with("ok ") {
        cx.rep.oracle_failure(&format!("stream-failed {key}"), &format!("draining the stream ended with {}", &obs[..obs.len().min(40)]), &op);
        return;
    }
    // git archive is the reference for attribute handling (export-ignore, eol); unpack it first
    let git_tar = cx.scratch.join(format!("git{n}.tar"));
    let o = git(&repo, &["archive", "--format=tar", "-o", git_tar.to_str().unwrap(), &tree], None);
    assert!(o.ok, "git archive: {}", String::from_utf8_lossy(&o.stderr));
    let (git_files, git_dirs) = untar(cx, &git_tar, "git").expect("untar git archive");
    cx.rep.git_checked(1);
    let mut expect: BTreeMap<Vec<u8>, (u8, Vec<u8>)> = git_files.clone();
    if !case.with_attributes || case.identity_filter {
        // without attributes (or with the identity filter only) the reference is ls-tree + cat-file, independent of git archive
        let mut m = BTreeMap::new();
        let mut req = String::new();
        for (_, _, id) in &leaves {
            req.push_str(id);
            req.push('\n');
        }
        let o = git(&repo, &["cat-file", "--batch"], Some(req.as_bytes()));
        assert!(o.ok, "cat-file --batch");
        let mut rest = &o.stdout[..];
        for (path, kind, _) in &leaves {
            let nl = rest.iter().position(|b| *b == b'\n').expect("batch header");
            let head = String::from_utf8_lossy(&rest[..nl]).to_string();
            let size: usize = head.rsplit(' ').next().unwrap().parse().expect("size");
            let body = &rest[nl + 1..nl + 1 + size];
            m.insert(path.clone(), (*kind, body.to_vec()));
            rest = &rest[nl + 1 + size + 1..];
        }
        cx.rep.git_checked(leaves.len() as u64);
        if let Some(d) = diff_maps(&m, &git_files, "ls-tree/cat-file", "git archive") {
            cx.rep.note(&format!("git archive and ls-tree disagree (harness problem?): {d}"));
        }
        expect = m;
    }
    let n_tree = seen.len() - case.extras.len().min(seen.len());
    let (tree_part, extra_part) = seen.split_at(n_tree);
    let mut got = BTreeMap::new();
    let mut dup = None;
    for s in tree_part {
        if got.insert(s.path.clone(), (s.kind, s.content.clone())).is_some() {
            dup = Some(s.path.clone());
        }
    }
    if let Some(p) = dup {
        cx.rep.oracle_failure(&format!("stream-duplicate {key}"), &format!("{:?} is yielded twice", p.as_bstr()), &op);
    }
    if let Some(d) = diff_maps(&got, &expect, "the stream", "git") {
        cx.rep.oracle_failure(&format!("stream-differs {key}"), &d, &op);
    }
    let want_extra: Vec<(Vec<u8>, u8, Vec<u8>)> = case
        .extras
        .iter()
        .map(|e| (e.path.clone(), e.kind, if e.kind == 0 && matches!(e.how, How::Memory) { vec![] } else { e.content.bytes() }))
        .collect();
    let got_extra: Vec<(Vec<u8>, u8, Vec<u8>)> = extra_part.iter().map(|s| (s.path.clone(), s.kind, s.content.clone())).collect();
    if want_extra != got_extra {
        cx.rep.oracle_failure(
            &format!("stream-extras-differ {key}"),
            &format!("{} additional entries were added, the stream ends with {:?}", want_extra.len(), got_extra.iter().map(|e| e.0.as_bstr().to_string()).collect::<Vec<_>>()),
            &op,
        );
    }
    if !gitlinks.is_empty() {
        cx.rep.outside_domain("submodule entries are not part of the stream; git archive adds an empty directory for them");
    }
    let _ = git_dirs;

    if std::env::var_os("C55_TIMING").is_some() { eprintln!("tree#{n} oracle1 {:?}", t0.elapsed()); }
    // --- oracle 2: archives. Additional entries: files, executables and links only (what git archive can hold too)
    let arch_extras: Vec<Extra> = case.extras.iter().filter(|e| e.kind != 0 && e.kind != 4).cloned().collect();
    let mut expect_arch = git_files.clone();
    for e in &arch_extras {
        expect_arch.insert(e.path.clone(), (e.kind, e.content.bytes()));
    }
    // tar
    {
        let mut stream = stream_of(cx, &tree, &arch_extras);
        let out = cx.scratch.join(format!("gix{n}.tar"));
        let f = std::fs::File::create(&out).unwrap();
        let r = catch(|| {
            gix_archive::write_stream(
                &mut stream,
                gix_worktree_stream::Stream::next_entry,
                std::io::BufWriter::new(f),
                gix_archive::Options {
                    format: gix_archive::Format::Tar,
                    tree_prefix: None,
                    modification_time: 1_700_000_000,
                },
            )
            .map_err(|e| e.to_string())
        });
        join_fifos(cx);
        cx.rep.oracle_checked();
        match r {
            Ok(Ok(())) => match untar(cx, &out, "gix") {
                Some((files, _)) => {
                    // the tar crate re-assembles link targets from their path components
                    let mut expect_norm = expect_arch.clone();
                    let mut normalized = false;
                    for (k, v) in expect_norm.iter_mut() {
                        if v.0 == 3 && files.get(k).map_or(false, |f| f.0 == 3 && f.1 != v.1 && f.1 == normalize_link(&v.1)) {
                            v.1 = normalize_link(&v.1);
                            normalized = true;
                        }
                    }
                    if let Some(d) = diff_maps(&files, &expect_norm, "gix-archive tar", "git archive") {
                        cx.rep.oracle_failure(&format!("tar-differs {key}"), &d, &op);
                    } else if normalized {
                        let d = diff_maps(&files, &expect_arch, "gix-archive tar", "git archive").unwrap_or_default();
                        cx.rep.oracle_failure("tar-link-target-normalized", &d, &op);
                    }
                }
                None => cx.rep.oracle_failure(&format!("tar-unreadable {key}"), "tar cannot unpack the archive", &op),
            },
            other => cx.rep.oracle_failure(&format!("tar-failed {key}"), &format!("write_stream: {other:?}"), &op),
        }
        let _ = std::fs::remove_file(&out);
    }
    // zip: the format documents that ill-formed UTF-8 in paths is converted
    let all_utf8 = expect_arch.keys().all(|k| std::str::from_utf8(k).is_ok())
        && expect_arch.values().all(|v| v.0 != 3 || std::str::from_utf8(&v.1).is_ok());
    if all_utf8 {
        let git_zip = cx.scratch.join(format!("git{n}.zip"));
        let o = git(&repo, &["archive", "--format=zip", "-o", git_zip.to_str().unwrap(), &tree], None);
        assert!(o.ok, "git archive zip");
        let mut expect_zip = unzip(cx, &git_zip).expect("python unzip of git's archive");
        for e in &arch_extras {
            expect_zip.insert(e.path.clone(), (e.kind, e.content.bytes()));
        }
        let mut stream = stream_of(cx, &tree, &arch_extras);
        let out = cx.scratch.join(format!("gix{n}.zip"));
        let f = std::fs::File::create(&out).unwrap();
        let r = catch(|| {
            gix_archive::write_stream_seek(
                &mut stream,
                gix_worktree_stream::Stream::next_entry,
                f,
                gix_archive::Options {
                    format: gix_archive::Format::Zip { compression_level: Some(1) },
                    tree_prefix: None,
                    modification_time: 1_700_000_000,
                },
            )
            .map_err(|e| e.to_string())
        });
        join_fifos(cx);
        cx.rep.oracle_checked();
        match r {
            Ok(Ok(())) => match unzip(cx, &out) {
                Some(files) => {
                    if let Some(d) = diff_maps(&files, &expect_zip, "gix-archive zip", "git archive --format=zip") {
                        cx.rep.oracle_failure(&format!("zip-differs {key}"), &d, &op);
                    }
                }
                None => cx.rep.oracle_failure(&format!("zip-unreadable {key}"), "python zipfile cannot read the archive", &op),
            },
            other => cx.rep.oracle_failure(&format!("zip-failed {key}"), &format!("write_stream_seek: {other:?}"), &op),
        }
        let _ = std::fs::remove_file(&out);
        let _ = std::fs::remove_file(&git_zip);
    } else {
        cx.rep.outside_domain("paths or link targets that are not UTF-8: Format::Zip documents that they are converted, zip not compared");
    }
    let _ = std::fs::remove_file(&git_tar);
    if std::env::var_os("C55_TIMING").is_some() { eprintln!("tree#{n} all {:?}", t0.elapsed()); }
}

// ---------------------------------------------------------------------------------------------
// generators

fn gen_len(r: &mut Rng, thorough: bool) -> usize {
    match r.below(20) {
        0 | 1 => 0,
        2 => 1,
        3 => *r.pick(&[65534usize, 65535, 65536, 65537]),
        4 => *r.pick(&[131069usize, 131070, 131071, 196605]),
        5 => {
            if thorough || r.chance(1, 4) {
                1 << 20
            } else {
                70_000
            }
        }
        6..=8 => 100 + r.usize(4000),
        _ => r.usize(60),
    }
}

fn gen_content(r: &mut Rng, thorough: bool) -> Content {
    let len = gen_len(r, thorough);
    if len <= 40 {
        match r.below(3) {
            0 => Content::Hex(r.over(b"ab\n\r\0 $Id$", len)),
            _ => Content::Hex(r.bytes(len)),
        }
    } else if r.chance(1, 3) {
        Content::Rep(*r.pick(&[0u8, b'a', 0xff]), len)
    } else {
        Content::Lcg(r.below(1 << 30), len)
    }
}

fn gen_name(r: &mut Rng, used: &mut Vec<Vec<u8>>) -> Vec<u8> {
    loop {
        let n: Vec<u8> = match r.below(12) {
            0 => b"a b".to_vec(),
            1 => "ü.txt".as_bytes().to_vec(),
            2 => b"x\xff".to_vec(),
            3 => vec![b'n'; 120],
            4 => b"-dash".to_vec(),
            5 => b"a.txt".to_vec(),
            6 => b"Makefile".to_vec(),
            _ => {
                let mut v = r.over(b"abcxyz019._-", 7);
                if v.is_empty() || v == b"." || v == b".." || v == b".git" {
                    v = b"f".to_vec();
                }
                v
            }
        };
        if !used.contains(&n) {
            used.push(n.clone());
            return n;
        }
    }
}

fn gen_items(r: &mut Rng, depth: usize, budget: &mut usize, thorough: bool, big_left: &mut usize) -> Vec<Item> {
    let n = if depth == 0 { 1 + r.usize(6) } else { 1 + r.usize(4) };
    let mut used = Vec::new();
    let mut v = Vec::new();
    for _ in 0..n {
        if *budget == 0 {
            break;
        }
        *budget -= 1;
        let name = gen_name(r, &mut used);
        v.push(match r.below(10) {
            0 | 1 if depth < 4 => Item::Dir {
                name,
                children: gen_items(r, depth + 1, budget, thorough, big_left),
            },
            2 => Item::Link {
                name,
                target: match r.below(8) {
                    0 => b"../x".to_vec(),
                    1 => vec![b't'; 150],
                    2 => b"a b".to_vec(),
                    3 => r.over(b"abc/.", 8).into_iter().chain(*b"t").collect(),
                    4 => b"/abs/path".to_vec(),
                    _ => {
                        let mut t = r.over(b"abcxyz", 5);
                        t.extend_from_slice(b"/t");
                        t
                    }
                },
            },
            3 if r.chance(1, 2) => Item::Gitlink { name },
            4 => Item::File { name, exec: true, content: gen_content(r, thorough) },
            _ => {
                let mut c = gen_content(r, thorough);
                if c.bytes().len() > 60_000 {
                    if *big_left == 0 {
                        c = Content::Lcg(7, 300);
                    } else {
                        *big_left -= 1;
                    }
                }
                Item::File { name, exec: false, content: c }
            }
        });
    }
    // a directory must not be empty for git
    v.retain(|it| !matches!(it, Item::Dir { children, .. } if children.is_empty()));
    if v.is_empty() {
        v.push(Item::File { name: b"only".to_vec(), exec: false, content: Content::Hex(b"x".to_vec()) });
    }
    v
}

fn max_file_len(items: &[Item]) -> usize {
    items
        .iter()
        .map(|it| match it {
            Item::File { content, .. } => content.bytes().len(),
            Item::Dir { children, .. } => max_file_len(children),
            _ => 0,
        })
        .max()
        .unwrap_or(0)
}

/// A blob of 300 000 bytes behind a filter program that streams (reads a bit, writes a bit): the filter
/// driver writes the whole blob to the program's stdin before it reads any of its output.
fn probe_filter_large(cx: &mut Ctx) {
    cx.counter += 1;
    let n = cx.counter;
    let repo = cx.repo.clone();
    let sub = format!("t{n}");
    let dir = repo.join(&sub);
    std::fs::create_dir(&dir).unwrap();
    std::fs::write(dir.join(".gitattributes"), b"*.burst filter=burst\n").unwrap();
    let content = Content::Lcg(21, 300_000).bytes();
    std::fs::write(dir.join("large.burst"), &content).unwrap();
    git_ok(&repo, &["add", "--", &sub], None);
    let tree = git_ok(&repo, &["write-tree", &format!("--prefix={sub}/")], None);
    let repo2 = repo.clone();
    let tree2 = tree.clone();
    let r = with_deadline(std::time::Duration::from_secs(20), move || {
        let repo = gix::open_opts(&repo2, gix::open::Options::isolated()).expect("open");
        let id = gix::ObjectId::from_hex(tree2.as_bytes()).expect("hex");
        let (mut stream, _) = repo.worktree_stream(id).expect("worktree_stream");
        drain(&mut stream, &[8192]).1
    });
    cx.rep.oracle_only(&format!("filter-large tree {tree}"), true);
    cx.rep.oracle_checked();
    let op = format!("tree 8192 (300000 byte blob with `filter=burst`, tree {tree})");
    match r {
        None => cx.rep.oracle_failure(
            "filter-program-deadlock-large-blob",
            "worktree_stream() of a tree with a 300000 byte blob behind `filter.burst.smudge` (an identity filter that streams) did not deliver the entry within 20 s: gix-filter writes the whole blob to the filter's stdin before reading its stdout, both pipes fill up; git archive of the same tree finishes",
            &op,
        ),
        Some(Err(m)) => cx.rep.oracle_failure("filter-large-panic", &m, &op),
        Some(Ok(seen)) => {
            let got = seen.iter().find(|s| s.path == b"large.burst").map(|s| s.content.clone());
            if got.as_deref() != Some(&content[..]) {
                cx.rep.oracle_failure(
                    &format!("stream-differs large.burst tree {tree}"),
                    &format!("large.burst: stream has {:?} bytes, git cat-file has {}", got.map(|g| g.len()), content.len()),
                    &op,
                );
            }
        }
    }
}

fn gen_extra(r: &mut Rng, idx: usize, thorough: bool) -> Extra {
    // every EntryKind a caller may add: blob, executable, link, tree and commit (gitlink)
    let kind = *r.pick(&[1u8, 1, 1, 2, 2, 3, 3, 0, 4, 4]);
    let how = if kind == 0 {
        How::Memory
    } else {
        match r.below(4) {
            0 => How::File,
            1 => How::Fifo((0..1 + r.usize(4)).map(|_| *r.pick(&[1usize, 2, 7, 100, 4095, 4096])).collect()),
            _ => How::Memory,
        }
    };
    let content = match (&how, kind) {
        (_, 0) => Content::Hex(vec![]),
        (_, 3) => Content::Hex(r.over(b"abc/", 6).into_iter().chain(*b"l").collect()),
        (How::Memory, 4) => Content::Hex(r.over(b"xy", 3)),
        (How::Fifo(sizes), _) => {
            // at most ~30 hand-overs between the writer thread and the producer
            let total: usize = (0..30).map(|i| sizes[i % sizes.len()]).sum();
            Content::Lcg(r.below(1000), r.usize(total + 1))
        }
        _ => gen_content(r, thorough),
    };
    let mut id = [0u8; 20];
    if r.chance(1, 2) {
        for b in id.iter_mut() {
            *b = r.byte();
        }
    }
    Extra {
        path: format!("extra-{idx}/e{}", r.below(100)).into_bytes(),
        kind,
        id,
        how,
        content,
    }
}

fn gen_sizes(r: &mut Rng) -> Vec<usize> {
    match r.below(7) {
        6 => vec![0, 5000, 0, 0, 70_000],
        0 => vec![1],
        1 => vec![8192],
        2 => vec![65535],
        3 => vec![65536, 1],
        4 => (0..1 + r.usize(4)).map(|_| 1 + r.usize(70_000)).collect(),
        _ => vec![4096, 3, 70000],
    }
}

fn corpus(cx: &mut Ctx) {
    let id0 = [0u8; 20];
    // protocol boundaries: chunk length 65535, 65536 bytes = 65535 + 1, empty, one byte
    for len in [0usize, 1, 65534, 65535, 65536, 65537, 131070, 131071] {
        for how in [How::Memory, How::File] {
            do_enc(
                cx,
                &[Extra { path: b"p".to_vec(), kind: 1, id: id0, how, content: Content::Lcg(len as u64, len) }],
            );
        }
    }
    do_enc(cx, &[]);
    do_enc(
        cx,
        &[
            Extra { path: b"dir".to_vec(), kind: 0, id: id0, how: How::Memory, content: Content::Hex(vec![]) },
            Extra { path: b"dir/link".to_vec(), kind: 3, id: [7; 20], how: How::Memory, content: Content::Hex(b"target".to_vec()) },
            Extra { path: vec![b'x'; 300], kind: 2, id: id0, how: How::Fifo(vec![1, 4096, 2]), content: Content::Lcg(5, 20_000) },
            Extra { path: b"".to_vec(), kind: 1, id: id0, how: How::Memory, content: Content::Hex(b"empty path".to_vec()) },
        ],
    );
    // every entry kind as an additional entry (mode byte 0..4 written by the producer, read back by the consumer),
    // from memory and from a file, with null and non-null ids
    for kind in 0u8..=4 {
        for how in [How::Memory, How::File] {
            if kind == 0 && matches!(how, How::File) {
                continue;
            }
            let content = if kind == 0 { Content::Hex(vec![]) } else { Content::Hex(b"k".to_vec()) };
            do_enc(cx, &[Extra { path: format!("kind{kind}").into_bytes(), kind, id: [kind; 20], how, content }]);
        }
    }
    do_enc(
        cx,
        &(0u8..=4)
            .rev()
            .map(|kind| Extra {
                path: format!("all/k{kind}").into_bytes(),
                kind,
                id: id0,
                how: How::Memory,
                content: if kind == 0 { Content::Hex(vec![]) } else { Content::Hex(vec![b'a' + kind]) },
            })
            .collect::<Vec<_>>(),
    );
    // decoder: every chunk size class, consumer buffers of 1 / 65535 / 65536+, truncation at every header position
    let body = Content::Lcg(3, 70_000).bytes();
    for chunks in [vec![65535usize], vec![1], vec![65534, 1, 7], vec![4096]] {
        for sizes in [vec![1usize], vec![65535], vec![70_000], vec![3, 65536]] {
            let mut raw = my_encode(b"a/b", 1, &id0, &body[..66_000], Some(&chunks));
            raw.extend_from_slice(&my_encode(b"c", 3, &[9; 20], b"tgt", None));
            if chunks == [1] && sizes != [70_000] {
                continue; // 66k one-byte chunks with tiny buffers: slow in the Lean driver, covered by the other pairs
            }
            do_dec(cx, &raw, &sizes);
        }
    }
    let small = {
        let mut raw = my_encode(b"a", 2, &id0, b"hello world", Some(&[4]));
        raw.extend_from_slice(&my_encode(b"b", 1, &id0, b"known", None));
        raw
    };
    for cut in 0..=small.len() {
        do_dec(cx, &small[..cut], &[5]);
    }
    // reads with an empty buffer in between
    do_dec(cx, &small, &[0, 3]);
    do_dec(cx, &small, &[4, 0, 0]);
    // a mode byte outside the protocol
    let mut bad = my_encode(b"a", 1, &id0, b"x", None);
    bad[16] = 9;
    do_dec(cx, &bad, &[8]);
    // trees
    do_tree(cx, &TreeCase { items: vec![], extras: vec![], sizes: vec![8192], with_attributes: false, identity_filter: false });
    do_tree(
        cx,
        &TreeCase {
            items: vec![
                Item::File { name: b"z".to_vec(), exec: false, content: Content::Hex(b"last at top level\n".to_vec()) },
                Item::Dir {
                    name: b"a".to_vec(),
                    children: vec![
                        Item::File { name: b"empty".to_vec(), exec: false, content: Content::Hex(vec![]) },
                        Item::Dir {
                            name: b"deep".to_vec(),
                            children: vec![Item::File { name: b"x.sh".to_vec(), exec: true, content: Content::Lcg(1, 65536) }],
                        },
                        Item::Link { name: b"l".to_vec(), target: b"../z".to_vec() },
                    ],
                },
                Item::Dir { name: b"a-b".to_vec(), children: vec![Item::File { name: b"f".to_vec(), exec: false, content: Content::Rep(0, 65535) }] },
                Item::Gitlink { name: b"sub".to_vec() },
            ],
            extras: vec![
                Extra { path: b"added".to_vec(), kind: 1, id: [0; 20], how: How::File, content: Content::Lcg(2, 131_071) },
                Extra { path: b"added-sub".to_vec(), kind: 4, id: [3; 20], how: How::Memory, content: Content::Hex(vec![]) },
                Extra { path: b"added-dir".to_vec(), kind: 0, id: [0; 20], how: How::Memory, content: Content::Hex(vec![]) },
                Extra { path: b"added-dir/x".to_vec(), kind: 2, id: [0; 20], how: How::Memory, content: Content::Hex(b"#!/bin/sh\n".to_vec()) },
                Extra { path: b"added-dir/l".to_vec(), kind: 3, id: [0; 20], how: How::Memory, content: Content::Hex(b"x".to_vec()) },
            ],
            sizes: vec![4096, 3, 70_000],
            with_attributes: false,
            identity_filter: false,
        },
    );
    // two symbolic links in one archive; a link target that is not in normal form
    do_tree(
        cx,
        &TreeCase {
            items: vec![
                Item::Link { name: b"l1".to_vec(), target: b"first".to_vec() },
                Item::Link { name: b"l2".to_vec(), target: b"second".to_vec() },
                Item::File { name: b"first".to_vec(), exec: false, content: Content::Hex(b"1".to_vec()) },
            ],
            extras: vec![],
            sizes: vec![8192],
            with_attributes: false,
            identity_filter: false,
        },
    );
    do_tree(
        cx,
        &TreeCase {
            items: vec![
                Item::Link { name: b"dot".to_vec(), target: b"./x".to_vec() },
                Item::Link { name: b"inner".to_vec(), target: b"a/./x".to_vec() },
                Item::File { name: b"x".to_vec(), exec: false, content: Content::Hex(b"1".to_vec()) },
            ],
            extras: vec![],
            sizes: vec![8192],
            with_attributes: false,
            identity_filter: false,
        },
    );
    // export-ignore and eol conversion via .gitattributes in the tree
    do_tree(
        cx,
        &TreeCase {
            items: vec![
                Item::File {
                    name: b".gitattributes".to_vec(),
                    exec: false,
                    content: Content::Hex(b"secret export-ignore\nprivate export-ignore\n*.txt text eol=crlf\n".to_vec()),
                },
                Item::File { name: b"secret".to_vec(), exec: false, content: Content::Hex(b"s".to_vec()) },
                Item::File { name: b"a.txt".to_vec(), exec: false, content: Content::Hex(b"one\ntwo\n".to_vec()) },
                Item::Dir {
                    name: b"private".to_vec(),
                    children: vec![Item::File { name: b"k".to_vec(), exec: false, content: Content::Hex(b"k".to_vec()) }],
                },
                Item::Dir {
                    name: b"pub".to_vec(),
                    children: vec![
                        Item::File { name: b"secret".to_vec(), exec: false, content: Content::Hex(b"s2".to_vec()) },
                        Item::File { name: b"b.txt".to_vec(), exec: true, content: Content::Hex(b"x\r\ny\n".to_vec()) },
                    ],
                },
            ],
            extras: vec![],
            sizes: vec![8192],
            with_attributes: true,
            identity_filter: false,
        },
    );
    // blobs that reach write_stream() through a filter program: unknown length, short reads (bursts)
    do_tree(
        cx,
        &TreeCase {
            items: vec![
                Item::File { name: b".gitattributes".to_vec(), exec: false, content: Content::Hex(b"*.burst filter=burst\n".to_vec()) },
                Item::File { name: b"small.burst".to_vec(), exec: false, content: Content::Lcg(11, 5000) },
                Item::File { name: b"big.burst".to_vec(), exec: true, content: Content::Lcg(12, 100_000) },
                Item::File { name: b"empty.burst".to_vec(), exec: false, content: Content::Hex(vec![]) },
                Item::Dir {
                    name: b"d".to_vec(),
                    children: vec![Item::File { name: b"x.burst".to_vec(), exec: false, content: Content::Lcg(13, 70_001) }],
                },
                Item::File { name: b"plain".to_vec(), exec: false, content: Content::Hex(b"not filtered".to_vec()) },
            ],
            extras: vec![],
            sizes: vec![8192],
            with_attributes: true,
            identity_filter: true,
        },
    );
}

fn main() {
    let args = Args::parse();
    let scratch = Scratch::new("c55");
    let repo = scratch.join("repo");
    std::fs::create_dir_all(&repo).unwrap();
    git_ok(&repo, &["init", "-q"], None);
    git_ok(&repo, &["config", "core.autocrlf", "false"], None);
    assert_eq!(git_ok(&repo, &["mktree"], Some(b"")), EMPTY_TREE, "the empty tree is written");
    // an identity smudge filter that hands its output over in bursts (short reads for whoever reads its pipe)
    let burst = scratch.join("burst.sh");
    std::fs::write(&burst, "#!/bin/sh\nhead -c 1000\nsleep 0.02\nhead -c 70000\nsleep 0.02\ncat\n").unwrap();
    std::fs::set_permissions(&burst, std::fs::Permissions::from_mode(0o755)).unwrap();
    git_ok(&repo, &["config", "filter.burst.smudge", burst.to_str().unwrap()], None);
    git_ok(&repo, &["config", "filter.burst.clean", "cat"], None);
    let mut cx = Ctx {
        rep: Report::new("C55", &args),
        scratch,
        repo,
        counter: 0,
        fifo_threads: Vec::new(),
    };
    let mut r = Rng::new(args.seed);
    if replay_ops(&args).is_some() {
        // trees are rebuilt from the seed: a replay re-runs the corpus and the seeded stream
        cx.rep.note("replay: C55 cases are rebuilt from the seed (they need a git repository), re-running corpus + seed");
    }
    corpus(&mut cx);
    probe_filter_large(&mut cx);
    let trees = args.budget(24, 120);
    for t in 0..trees {
        let mut budget = 4 + r.usize(24);
        let mut big_left = 2;
        let with_attributes = r.chance(1, 6);
        let mut items = gen_items(&mut r, 0, &mut budget, args.thorough, &mut big_left);
        if with_attributes {
            items.retain(|it| !matches!(it, Item::File { name, .. } | Item::Link { name, .. } | Item::Gitlink { name } | Item::Dir { name, .. } if name == b".gitattributes"));
            let attrs: &[u8] = match if max_file_len(&items) <= 100_000 { r.below(4) } else { r.below(3) } {
                3 => b"* filter=burst\n.gitattributes -filter\n",
                0 => b"*.txt text eol=crlf\nMakefile export-ignore\n",
                1 => b"a* export-ignore\n",
                _ => b"* text=auto eol=crlf\n",
            };
            items.push(Item::File { name: b".gitattributes".to_vec(), exec: false, content: Content::Hex(attrs.to_vec()) });
        }
        let n_extra = if r.chance(1, 2) { 0 } else { 1 + r.usize(3) };
        let extras = (0..n_extra).map(|i| gen_extra(&mut r, i, args.thorough)).collect();
        let sizes = gen_sizes(&mut r);
        let identity_filter = with_attributes && items.iter().any(|it| matches!(it, Item::File { name, content: Content::Hex(c), .. } if name == b".gitattributes" && c.starts_with(b"* filter=burst")));
        do_tree(&mut cx, &TreeCase { items, extras, sizes, with_attributes, identity_filter });
        // protocol-level cases in between
        let extras: Vec<Extra> = (0..r.usize(4)).map(|i| gen_extra(&mut r, i, false)).collect();
        do_enc(&mut cx, &extras);
        if t % 2 == 0 {
            let mut raw = Vec::new();
            for i in 0..1 + r.usize(3) {
                let c = if r.chance(1, 8) { Content::Lcg(9, 66_000) } else { Content::Lcg(r.below(99), r.usize(300)) }.bytes();
                let chunks: Option<Vec<usize>> = if r.chance(1, 2) {
                    Some((0..1 + r.usize(3)).map(|_| *r.pick(&[1usize, 2, 100, 65535, 40_000])).collect())
                } else {
                    None
                };
                let mut id = [0u8; 20];
                id[0] = i as u8;
                raw.extend_from_slice(&my_encode(format!("p{i}").as_bytes(), r.below(5) as u8, &id, &c, chunks.as_deref()));
            }
            if r.chance(1, 4) {
                let cut = r.usize(raw.len() + 1);
                raw.truncate(cut);
            }
            let sizes = gen_sizes(&mut r);
            do_dec(&mut cx, &raw, &sizes);
        }
    }
    cx.rep.finish();
}
