//! C04 — the tree editor (`gix_object::tree::Editor` and its `Cursor`): every history of
//! upsert/remove/write/cursor/set_root must end in the root tree git builds from scratch for the
//! resulting set of paths.
//!
//! One op line = one whole history (`h <tokens…>`), because the Lean driver is stateless per line:
//!   new | store <id> <n> (<mode> <name> <oid>)* | setroot <n> (<mode> <name> <oid>)*
//!   U <mode> <id> <k> <comp>*k | R <k> <comp>*k | W | C <k> <comp>*k | cU … | cR … | cW
//! observation = per-op results joined by `|`: ok | err:empty | err:find | nocursor | panic (ends the
//! history) | W:<number of out() calls>:[<hexpath>:<octal mode>:<oid>,…] (the leaves reachable from
//! the written root through the trees handed to `out` and the pre-stored trees).
use std::cell::RefCell;
use std::collections::{BTreeMap, BTreeSet, HashMap};
use std::rc::Rc;

use gix_hash::ObjectId;
use gix_object::bstr::ByteSlice;
use gix_object::tree::{Entry, EntryKind, EntryMode};
use gix_object::{Tree, WriteTo};
use hcommon::*;

type Path = Vec<Vec<u8>>;
type Store = Rc<RefCell<HashMap<ObjectId, Tree>>>;

#[derive(Clone, Debug, PartialEq)]
struct E {
    mode: u16,
    name: Vec<u8>,
    oid: Vec<u8>,
}

#[derive(Clone, Debug, PartialEq)]
enum Op {
    New,
    Store { id: Vec<u8>, entries: Vec<E> },
    SetRoot { entries: Vec<E> },
    Upsert { cur: bool, mode: u16, id: Vec<u8>, path: Path },
    Remove { cur: bool, path: Path },
    Write { cur: bool },
    Cursor { path: Path },
}

fn is_tree_mode(m: u16) -> bool {
    m & 0o170000 == 0o040000
}

fn kind_of(mode: u16) -> Option<EntryKind> {
    Some(match mode {
        0o040000 => EntryKind::Tree,
        0o100644 => EntryKind::Blob,
        0o100755 => EntryKind::BlobExecutable,
        0o120000 => EntryKind::Link,
        0o160000 => EntryKind::Commit,
        _ => return None,
    })
}

fn entries_tokens(es: &[E], out: &mut Vec<String>) {
    out.push(es.len().to_string());
    for e in es {
        out.push(e.mode.to_string());
        out.push(hex(&e.name));
        out.push(hex(&e.oid));
    }
}

fn path_tokens(p: &Path, out: &mut Vec<String>) {
    out.push(p.len().to_string());
    for c in p {
        out.push(hex(c));
    }
}

fn op_line(ops: &[Op]) -> String {
    let mut t: Vec<String> = vec!["h".into()];
    for op in ops {
        match op {
            Op::New => t.push("new".into()),
            Op::Store { id, entries } => {
                t.push("store".into());
                t.push(hex(id));
                entries_tokens(entries, &mut t);
            }
            Op::SetRoot { entries } => {
                t.push("setroot".into());
                entries_tokens(entries, &mut t);
            }
            Op::Upsert { cur, mode, id, path } => {
                t.push(if *cur { "cU" } else { "U" }.into());
                t.push(mode.to_string());
                t.push(hex(id));
                path_tokens(path, &mut t);
            }
            Op::Remove { cur, path } => {
                t.push(if *cur { "cR" } else { "R" }.into());
                path_tokens(path, &mut t);
            }
            Op::Write { cur } => t.push(if *cur { "cW" } else { "W" }.into()),
            Op::Cursor { path } => {
                t.push("C".into());
                path_tokens(path, &mut t);
            }
        }
    }
    t.join(" ")
}

fn parse_line(line: &str) -> Option<Vec<Op>> {
    let t: Vec<&str> = line.split(' ').collect();
    if t.first() != Some(&"h") {
        return None;
    }
    let mut i = 1;
    let mut ops = Vec::new();
    fn entries(t: &[&str], i: &mut usize) -> Option<Vec<E>> {
        let n: usize = t.get(*i)?.parse().ok()?;
        *i += 1;
        let mut v = Vec::new();
        for _ in 0..n {
            v.push(E { mode: t.get(*i)?.parse().ok()?, name: unhex(t.get(*i + 1)?)?, oid: unhex(t.get(*i + 2)?)? });
            *i += 3;
        }
        Some(v)
    }
    fn path(t: &[&str], i: &mut usize) -> Option<Path> {
        let n: usize = t.get(*i)?.parse().ok()?;
        *i += 1;
        let mut v = Vec::new();
        for _ in 0..n {
            v.push(unhex(t.get(*i)?)?);
            *i += 1;
        }
        Some(v)
    }
    while i < t.len() {
        let k = t[i];
        i += 1;
        ops.push(match k {
            "new" => Op::New,
            "store" => {
                let id = unhex(t.get(i)?)?;
                i += 1;
                Op::Store { id, entries: entries(&t, &mut i)? }
            }
            "setroot" => Op::SetRoot { entries: entries(&t, &mut i)? },
            "U" | "cU" => {
                let mode = t.get(i)?.parse().ok()?;
                let id = unhex(t.get(i + 1)?)?;
                i += 2;
                Op::Upsert { cur: k == "cU", mode, id, path: path(&t, &mut i)? }
            }
            "R" | "cR" => Op::Remove { cur: k == "cR", path: path(&t, &mut i)? },
            "W" => Op::Write { cur: false },
            "cW" => Op::Write { cur: true },
            "C" => Op::Cursor { path: path(&t, &mut i)? },
            _ => return None,
        });
    }
    Some(ops)
}

/// human readable, used as the key of a failing history
fn short(ops: &[Op]) -> String {
    let p = |p: &Path| p.iter().map(|c| String::from_utf8_lossy(c).to_string()).collect::<Vec<_>>().join("/");
    ops.iter()
        .map(|op| match op {
            Op::New => "new".to_string(),
            Op::Store { id, .. } => format!("store {}", &hex(id)[..8.min(hex(id).len())]),
            Op::SetRoot { entries } => format!(
                "setroot({})",
                entries.iter().map(|e| format!("{:o}:{}", e.mode, String::from_utf8_lossy(&e.name))).collect::<Vec<_>>().join(",")
            ),
            Op::Upsert { cur, mode, id, path } => format!("{}U {:o} {} {}", if *cur { "c" } else { "" }, mode, &hex(id)[..4.min(hex(id).len())], p(path)),
            Op::Remove { cur, path } => format!("{}R {}", if *cur { "c" } else { "" }, p(path)),
            Op::Write { cur } => format!("{}W", if *cur { "c" } else { "" }),
            Op::Cursor { path } => format!("C {}", p(path)),
        })
        .collect::<Vec<_>>()
        .join("; ")
}

// ------------------------------------------------------------------------------------------------
// the real code

struct Odb(Store);

impl gix_object::Find for Odb {
    fn try_find<'a>(&self, id: &gix_hash::oid, buffer: &'a mut Vec<u8>) -> Result<Option<gix_object::Data<'a>>, gix_object::find::Error> {
        match self.0.borrow().get(id) {
            None => Ok(None),
            Some(tree) => {
                buffer.clear();
                tree.write_to(buffer).expect("stored trees serialize");
                Ok(Some(gix_object::Data { kind: gix_object::Kind::Tree, data: &*buffer }))
            }
        }
    }
}

fn to_entry(e: &E) -> Entry {
    Entry { mode: EntryMode(e.mode), filename: e.name.clone().into(), oid: ObjectId::from_bytes_or_panic(&e.oid) }
}

fn tree_id_of(tree: &Tree) -> Result<ObjectId, std::io::Error> {
    let mut buf = Vec::new();
    tree.write_to(&mut buf)?;
    Ok(gix_object::compute_hash(gix_hash::Kind::Sha1, gix_object::Kind::Tree, &buf))
}

fn null_id() -> Vec<u8> {
    vec![0; 20]
}

fn empty_tree_id() -> Vec<u8> {
    ObjectId::empty_tree(gix_hash::Kind::Sha1).as_bytes().to_vec()
}

/// leaves reachable from `root` through `store`, in tree order
fn flatten(store: &HashMap<ObjectId, Tree>, root: &ObjectId, prefix: &mut Vec<u8>, out: &mut Vec<String>, leaves: &mut Vec<(Vec<u8>, u16, Vec<u8>)>, depth: usize) {
    let Some(tree) = store.get(root) else { return };
    if depth > 64 {
        out.push("too-deep".into());
        return;
    }
    for e in &tree.entries {
        let plen = prefix.len();
        if !prefix.is_empty() {
            prefix.push(b'/');
        }
        prefix.extend_from_slice(&e.filename);
        if e.mode.is_tree() && store.contains_key(&e.oid) {
            flatten(store, &e.oid, prefix, out, leaves, depth + 1);
        } else {
            // a tree entry that cannot be resolved (unknown or empty-tree id) is listed as a leaf with a trailing '/'
            let mut p = prefix.clone();
            if e.mode.is_tree() {
                p.push(b'/');
            }
            out.push(format!("{}:{:o}:{}", hex(&p), e.mode.0, hex(e.oid.as_bytes())));
            leaves.push((p, e.mode.0, e.oid.as_bytes().to_vec()));
        }
        prefix.truncate(plen);
    }
}

struct WriteRec {
    op_index: usize,
    root: ObjectId,
    leaves: Vec<(Vec<u8>, u16, Vec<u8>)>,
    /// problems with the trees handed to `out` (unsorted, null ids, empty non-root tree)
    bad_trees: Vec<String>,
}

struct RunResult {
    obs: Vec<String>,
    writes: Vec<WriteRec>,
    panicked: Option<String>,
}

fn key_of(e: &Entry) -> Vec<u8> {
    let mut k = e.filename.to_vec();
    if e.mode.is_tree() {
        k.push(b'/');
    }
    k
}

fn run_real(ops: &[Op]) -> RunResult {
    let store: Store = Store::default();
    let odb = Odb(store.clone());
    let mut editor = gix_object::tree::Editor::new(Tree::default(), &odb, gix_hash::Kind::Sha1);
    let mut res = RunResult { obs: Vec::new(), writes: Vec::new(), panicked: None };

    // the `out` callback: hash, remember, count, and check what the property says about written trees
    struct OutState {
        calls: usize,
        written: Vec<(ObjectId, Tree)>,
    }
    fn do_write(
        w: impl FnOnce(&mut dyn FnMut(&Tree) -> Result<ObjectId, std::io::Error>) -> Result<ObjectId, std::io::Error>,
        store: &Store,
        op_index: usize,
    ) -> Result<(String, Option<WriteRec>), String> {
        let st = RefCell::new(OutState { calls: 0, written: Vec::new() });
        let r = catch(|| {
            let mut cb = |t: &Tree| -> Result<ObjectId, std::io::Error> {
                let id = tree_id_of(t)?;
                let mut s = st.borrow_mut();
                s.calls += 1;
                s.written.push((id, t.clone()));
                store.borrow_mut().insert(id, t.clone());
                Ok(id)
            };
            w(&mut cb)
        })?;
        let st = st.into_inner();
        match r {
            Err(_) => Ok(("W:err".into(), None)),
            Ok(root) => {
                let mut bad = Vec::new();
                for (id, t) in &st.written {
                    let keys: Vec<Vec<u8>> = t.entries.iter().map(key_of).collect();
                    if !keys.windows(2).all(|w| w[0] < w[1]) {
                        bad.push(format!("tree {id} is not strictly sorted"));
                    }
                    let mut names: Vec<&[u8]> = t.entries.iter().map(|e| e.filename.as_slice()).collect();
                    names.sort();
                    if names.windows(2).any(|w| w[0] == w[1]) {
                        bad.push(format!("tree {id} has a duplicate name"));
                    }
                    if t.entries.iter().any(|e| e.oid.is_null()) {
                        bad.push(format!("tree {id} contains a null id"));
                    }
                    if t.entries.is_empty() && *id != root {
                        bad.push(format!("empty non-root tree {id} written"));
                    }
                }
                let mut listing = Vec::new();
                let mut leaves = Vec::new();
                flatten(&store.borrow(), &root, &mut Vec::new(), &mut listing, &mut leaves, 0);
                Ok((
                    format!("W:{}:[{}]", st.calls, listing.join(",")),
                    Some(WriteRec { op_index, root, leaves, bad_trees: bad }),
                ))
            }
        }
    }
    fn edit_obs(r: Result<Result<(), gix_object::tree::editor::Error>, String>) -> Result<String, String> {
        match r {
            Err(p) => Err(p),
            Ok(Ok(())) => Ok("ok".into()),
            Ok(Err(gix_object::tree::editor::Error::EmptyPathComponent)) => Ok("err:empty".into()),
            Ok(Err(gix_object::tree::editor::Error::FindExistingObject(_))) => Ok("err:find".into()),
        }
    }

    let mut i = 0;
    'outer: while i < ops.len() {
        let step: Result<String, String> = match &ops[i] {
            Op::New => {
                store.borrow_mut().clear();
                editor = gix_object::tree::Editor::new(Tree::default(), &odb, gix_hash::Kind::Sha1);
                Ok("ok".into())
            }
            Op::Store { id, entries } => {
                let t = Tree { entries: entries.iter().map(to_entry).collect() };
                store.borrow_mut().insert(ObjectId::from_bytes_or_panic(id), t);
                Ok("ok".into())
            }
            Op::SetRoot { entries } => {
                editor.set_root(Tree { entries: entries.iter().map(to_entry).collect() });
                Ok("ok".into())
            }
            Op::Upsert { cur: false, mode, id, path } => match kind_of(*mode) {
                None => Ok("badkind".into()),
                Some(kind) => edit_obs(catch(|| editor.upsert(path.iter().map(|c| c.as_bstr()), kind, ObjectId::from_bytes_or_panic(id)).map(|_| ()))),
            },
            Op::Remove { cur: false, path } => edit_obs(catch(|| editor.remove(path.iter().map(|c| c.as_bstr())).map(|_| ()))),
            Op::Write { cur: false } => match do_write(|cb| editor.write(cb), &store, i) {
                Err(p) => Err(p),
                Ok((o, rec)) => {
                    if let Some(rec) = rec {
                        res.writes.push(rec);
                    }
                    Ok(o)
                }
            },
            Op::Cursor { path } => {
                match catch(|| editor.cursor_at(path.iter().map(|c| c.as_bstr()))) {
                    Err(p) => Err(p),
                    Ok(Err(e)) => edit_obs(Ok(Err(e))),
                    Ok(Ok(mut cursor)) => {
                        res.obs.push("ok".into());
                        i += 1;
                        while i < ops.len() {
                            let step: Result<String, String> = match &ops[i] {
                                Op::Upsert { cur: true, mode, id, path } => match kind_of(*mode) {
                                    None => Ok("badkind".into()),
                                    Some(kind) => {
                                        edit_obs(catch(|| cursor.upsert(path.iter().map(|c| c.as_bstr()), kind, ObjectId::from_bytes_or_panic(id)).map(|_| ())))
                                    }
                                },
                                Op::Remove { cur: true, path } => edit_obs(catch(|| cursor.remove(path.iter().map(|c| c.as_bstr())).map(|_| ()))),
                                Op::Write { cur: true } => match do_write(|cb| cursor.write(cb), &store, i) {
                                    Err(p) => Err(p),
                                    Ok((o, rec)) => {
                                        if let Some(rec) = rec {
                                            res.writes.push(rec);
                                        }
                                        Ok(o)
                                    }
                                },
                                _ => break,
                            };
                            match step {
                                Ok(o) => res.obs.push(o),
                                Err(p) => {
                                    res.obs.push("panic".into());
                                    res.panicked = Some(p);
                                    break 'outer;
                                }
                            }
                            i += 1;
                        }
                        continue 'outer;
                    }
                }
            }
            // cursor ops without a live cursor
            Op::Upsert { cur: true, .. } | Op::Remove { cur: true, .. } | Op::Write { cur: true } => Ok("nocursor".into()),
        };
        match step {
            Ok(o) => res.obs.push(o),
            Err(p) => {
                res.obs.push("panic".into());
                res.panicked = Some(p);
                break;
            }
        }
        i += 1;
    }
    res
}

// ------------------------------------------------------------------------------------------------
// the expectation: a flat set of leaves, edited the obvious way, built from scratch

#[derive(Clone, Default)]
struct Fs {
    leaves: BTreeMap<Path, (u16, Vec<u8>)>,
    /// false once the history left the domain in which "the resulting set of paths" is defined
    /// (error results, tree-kind leaves git cannot produce, unknown tree ids)
    in_domain: bool,
    why_out: String,
}

fn is_prefix(a: &Path, b: &Path) -> bool {
    a.len() <= b.len() && a[..] == b[..a.len()]
}

impl Fs {
    fn out(&mut self, why: &str) {
        if self.in_domain {
            self.in_domain = false;
            self.why_out = why.to_string();
        }
    }
    fn flatten_store(store: &HashMap<Vec<u8>, Vec<E>>, entries: &[E], prefix: &Path, into: &mut BTreeMap<Path, (u16, Vec<u8>)>, ok: &mut bool, depth: usize) {
        if depth > 32 {
            *ok = false;
            return;
        }
        for e in entries {
            let mut p = prefix.clone();
            p.push(e.name.clone());
            if is_tree_mode(e.mode) {
                match store.get(&e.oid) {
                    Some(sub) if !sub.is_empty() => Self::flatten_store(store, sub, &p, into, ok, depth + 1),
                    _ => *ok = false,
                }
            } else {
                into.insert(p, (e.mode, e.oid.clone()));
            }
        }
    }
    fn remove_under(&mut self, p: &Path) {
        self.leaves.retain(|q, _| !is_prefix(p, q));
    }
    fn remove_prefixes_of(&mut self, p: &Path) {
        self.leaves.retain(|q, _| !is_prefix(q, p));
    }
}

/// apply the history to the expectation; returns for every op index the expected leaves *at that op* if it is a write
fn run_expected(ops: &[Op]) -> Vec<Option<(bool, BTreeMap<Path, (u16, Vec<u8>)>, String)>> {
    run_expected2(ops).0
}

/// second component: was the history still inside the domain after each op
fn run_expected2(ops: &[Op]) -> (Vec<Option<(bool, BTreeMap<Path, (u16, Vec<u8>)>, String)>>, Vec<bool>) {
    let mut fs = Fs { in_domain: true, ..Default::default() };
    let mut store: HashMap<Vec<u8>, Vec<E>> = HashMap::new();
    let mut cursor: Option<Path> = None;
    let mut out = Vec::new();
    let mut dom = Vec::new();
    for op in ops {
        let mut at_write = None;
        let valid = |p: &Path| !p.is_empty() && p.iter().all(|c| !c.is_empty() && !c.contains(&b'/') && !c.contains(&0));
        match op {
            Op::New => {
                fs = Fs { in_domain: true, ..Default::default() };
                store.clear();
                cursor = None;
            }
            Op::Store { id, entries } => {
                store.insert(id.clone(), entries.clone());
            }
            Op::SetRoot { entries } => {
                cursor = None;
                fs = Fs { in_domain: true, ..Default::default() };
                let mut ok = true;
                Fs::flatten_store(&store, entries, &Vec::new(), &mut fs.leaves, &mut ok, 0);
                if !ok {
                    fs.out("set_root to a tree with unresolvable or empty subtrees");
                }
            }
            Op::Cursor { path } => {
                cursor = None;
                if !valid(path) {
                    fs.out("cursor_at with an invalid path");
                } else {
                    // the path becomes a directory: files on the way (and at it) are replaced
                    fs.remove_prefixes_of(path);
                    cursor = Some(path.clone());
                }
            }
            Op::Upsert { cur, mode, id, path } => {
                if !*cur {
                    cursor = None;
                }
                let base = if *cur { cursor.clone() } else { Some(Vec::new()) };
                match base {
                    None => fs.out("cursor op without cursor"),
                    Some(base) => {
                        if !valid(path) || kind_of(*mode).is_none() {
                            fs.out("upsert with an invalid path");
                        } else {
                            let mut full = base;
                            full.extend(path.iter().cloned());
                            fs.remove_under(&full);
                            fs.remove_prefixes_of(&full);
                            if is_tree_mode(*mode) {
                                if *id == null_id() {
                                    // an explicit null-id tree placeholder: an empty directory, i.e. nothing; edits below
                                    // it are fine ("paths leading through them will not be considered a problem")
                                } else {
                                    match store.get(id) {
                                        Some(sub) if !sub.is_empty() => {
                                            let mut ok = true;
                                            let sub = sub.clone();
                                            Fs::flatten_store(&store, &sub, &full, &mut fs.leaves, &mut ok, 0);
                                            if !ok {
                                                fs.out("upsert of a tree with unresolvable subtrees");
                                            }
                                        }
                                        _ => fs.out("upsert of a tree-kind leaf git cannot produce (empty or unknown tree id)"),
                                    }
                                }
                            } else if *id != null_id() {
                                fs.leaves.insert(full, (*mode, id.clone()));
                            }
                        }
                    }
                }
            }
            Op::Remove { cur, path } => {
                if !*cur {
                    cursor = None;
                }
                let base = if *cur { cursor.clone() } else { Some(Vec::new()) };
                match base {
                    None => fs.out("cursor op without cursor"),
                    Some(base) => {
                        if !valid(path) {
                            fs.out("remove with an invalid path");
                        } else {
                            let mut full = base;
                            full.extend(path.iter().cloned());
                            fs.remove_under(&full);
                        }
                    }
                }
            }
            Op::Write { cur } => {
                if !*cur {
                    cursor = None;
                }
                let base = if *cur { cursor.clone() } else { Some(Vec::new()) };
                match base {
                    None => fs.out("cursor op without cursor"),
                    Some(base) => {
                        let sub: BTreeMap<Path, (u16, Vec<u8>)> =
                            fs.leaves.iter().filter(|(q, _)| is_prefix(&base, q)).map(|(q, v)| (q[base.len()..].to_vec(), v.clone())).collect();
                        at_write = Some((fs.in_domain, sub, fs.why_out.clone()));
                    }
                }
            }
        }
        out.push(at_write);
        dom.push(fs.in_domain);
    }
    (out, dom)
}

/// build the canonical nested trees for a leaf set by hand (sorting by name+'/' for directories) and
/// hash them; `on_tree` sees every tree (children before parents). Independent of gix-object's Ord.
fn build_local(leaves: &BTreeMap<Path, (u16, Vec<u8>)>, prefix: &Path, on_tree: &mut dyn FnMut(&Path, &[(Vec<u8>, u16, Vec<u8>)], &[u8])) -> Vec<u8> {
    let mut direct: Vec<(Vec<u8>, u16, Vec<u8>)> = Vec::new();
    let mut dirs: BTreeSet<Vec<u8>> = BTreeSet::new();
    for (q, (m, id)) in leaves.iter().filter(|(q, _)| is_prefix(prefix, q) && q.len() > prefix.len()) {
        if q.len() == prefix.len() + 1 {
            direct.push((q[prefix.len()].clone(), *m, id.clone()));
        } else {
            dirs.insert(q[prefix.len()].clone());
        }
    }
    for d in dirs {
        let mut p = prefix.clone();
        p.push(d.clone());
        let id = build_local(leaves, &p, on_tree);
        direct.push((d, 0o040000, id));
    }
    direct.sort_by(|a, b| {
        let ka = [a.0.as_slice(), if is_tree_mode(a.1) { b"/" } else { b"" }].concat();
        let kb = [b.0.as_slice(), if is_tree_mode(b.1) { b"/" } else { b"" }].concat();
        ka.cmp(&kb)
    });
    let mut bytes = Vec::new();
    for (n, m, id) in &direct {
        bytes.extend_from_slice(format!("{:o} ", m).as_bytes());
        bytes.extend_from_slice(n);
        bytes.push(0);
        bytes.extend_from_slice(id);
    }
    let id = gix_object::compute_hash(gix_hash::Kind::Sha1, gix_object::Kind::Tree, &bytes).as_bytes().to_vec();
    on_tree(prefix, &direct, &id);
    id
}

// ------------------------------------------------------------------------------------------------
// git as the builder-from-scratch

struct GitOracle {
    scratch: Scratch,
    /// (key, op line, real root id, leaves)
    pending: Vec<(String, String, String, BTreeMap<Path, (u16, Vec<u8>)>)>,
    index_checks_left: u64,
}

impl GitOracle {
    fn new(index_checks: u64) -> Self {
        let scratch = Scratch::new("c04");
        git_ok(&scratch.path, &["init", "-q", "."], None);
        GitOracle { scratch, pending: Vec::new(), index_checks_left: index_checks }
    }
    /// bottom-up `git mktree --batch`, one git process per directory depth for all pending writes
    fn run(&mut self, rep: &mut Report) {
        if self.pending.is_empty() {
            return;
        }
        // all directories of all pending leaf sets, by depth
        let mut dirs: Vec<BTreeSet<Path>> = Vec::new();
        let mut maxd = 0;
        for (_, _, _, leaves) in &self.pending {
            let mut s = BTreeSet::new();
            s.insert(Vec::new());
            for q in leaves.keys() {
                for k in 1..q.len() {
                    s.insert(q[..k].to_vec());
                    maxd = maxd.max(k);
                }
            }
            dirs.push(s);
        }
        let mut ids: HashMap<(usize, Path), String> = HashMap::new();
        for depth in (0..=maxd).rev() {
            let mut input = Vec::new();
            let mut order = Vec::new();
            for (w, (_, _, _, leaves)) in self.pending.iter().enumerate() {
                for d in dirs[w].iter().filter(|d| d.len() == depth) {
                    for (q, (m, id)) in leaves.iter().filter(|(q, _)| q.len() == depth + 1 && is_prefix(d, q)) {
                        let ty = if *m == 0o160000 { "commit" } else { "blob" };
                        input.extend_from_slice(format!("{:o} {} {}\t", m, ty, hex(id)).as_bytes());
                        input.extend_from_slice(&q[depth]);
                        input.push(0);
                    }
                    for sub in dirs[w].iter().filter(|s| s.len() == depth + 1 && is_prefix(d, s)) {
                        let id = &ids[&(w, sub.clone())];
                        input.extend_from_slice(format!("40000 tree {}\t", id).as_bytes());
                        input.extend_from_slice(&sub[depth]);
                        input.push(0);
                    }
                    input.push(0);
                    order.push((w, d.clone()));
                }
            }
            let out = git(&self.scratch.path, &["mktree", "-z", "--missing", "--batch"], Some(&input));
            assert!(out.ok, "git mktree failed: {}", String::from_utf8_lossy(&out.stderr));
            let text = String::from_utf8_lossy(&out.stdout).to_string();
            let got: Vec<&str> = text.lines().collect();
            assert_eq!(got.len(), order.len(), "git mktree answered every tree");
            for (k, g) in order.into_iter().zip(got) {
                ids.insert(k, g.to_string());
            }
        }
        for (w, (key, op, real, leaves)) in self.pending.iter().enumerate() {
            rep.git_checked(1);
            let git_root = ids[&(w, Vec::new())].clone();
            let mut git_root = git_root;
            // a sample goes end-to-end through the index as well: flat paths in, root id out
            if self.index_checks_left > 0 && !leaves.is_empty() {
                self.index_checks_left -= 1;
                let idx = self.scratch.join(format!("index-{w}"));
                let mut input = Vec::new();
                for (q, (m, id)) in leaves {
                    input.extend_from_slice(format!("{:o} {}\t", m, hex(id)).as_bytes());
                    input.extend_from_slice(&q.join(&b'/'));
                    input.push(0);
                }
                let mut c = git_cmd(&self.scratch.path);
                c.env("GIT_INDEX_FILE", &idx).args(["update-index", "-z", "--index-info"]);
                let o = run_with_stdin(c, &input);
                assert!(o.0, "git update-index failed: {}", o.2);
                let mut c = git_cmd(&self.scratch.path);
                c.env("GIT_INDEX_FILE", &idx).args(["write-tree", "--missing-ok"]);
                let o = run_with_stdin(c, b"");
                assert!(o.0, "git write-tree failed: {}", o.2);
                let via_index = o.1.trim().to_string();
                assert_eq!(via_index, git_root, "harness self-check: mktree bottom-up and update-index/write-tree disagree");
                git_root = via_index;
                let _ = std::fs::remove_file(idx);
            }
            if &git_root != real {
                rep.oracle_failure(key, &format!("Editor wrote root {real}, git builds {git_root} for the resulting paths {:?}", leaves.keys().map(|q| String::from_utf8_lossy(&q.join(&b'/')).to_string()).collect::<Vec<_>>()), op);
            }
        }
        self.pending.clear();
    }
}

fn run_with_stdin(mut c: std::process::Command, input: &[u8]) -> (bool, String, String) {
    use std::io::Write;
    use std::process::Stdio;
    c.stdin(Stdio::piped()).stdout(Stdio::piped()).stderr(Stdio::piped());
    let mut child = c.spawn().expect("spawn git");
    child.stdin.take().unwrap().write_all(input).expect("write stdin");
    let o = child.wait_with_output().expect("wait");
    (o.status.success(), String::from_utf8_lossy(&o.stdout).to_string(), String::from_utf8_lossy(&o.stderr).to_string())
}

// ------------------------------------------------------------------------------------------------
// judging one history

/// problems found by comparing the real run with the expectation, without git: (description)
fn judge_local(ops: &[Op], real: &RunResult) -> Vec<String> {
    let mut problems = Vec::new();
    let exp = run_expected(ops);
    if let Some(p) = &real.panicked {
        // a panic is a failure whenever the history so far was inside the domain
        // index of the panicking op: `store`/`new`… all produce one observation per op
        let at = real.obs.len().saturating_sub(1).min(ops.len().saturating_sub(1));
        let in_domain = run_expected2(ops).1.get(at).copied().unwrap_or(false);
        if in_domain {
            problems.push(format!("panic: {p}"));
        }
    }
    for w in &real.writes {
        for b in &w.bad_trees {
            problems.push(format!("write #{}: {b}", w.op_index));
        }
        if let Some(Some((in_domain, leaves, _))) = exp.get(w.op_index) {
            if *in_domain {
                let want = build_local(leaves, &Vec::new(), &mut |_, _, _| {});
                if want != w.root.as_bytes() {
                    problems.push(format!(
                        "write #{}: root {} but the resulting paths {:?} build {}",
                        w.op_index,
                        w.root,
                        leaves.keys().map(|q| String::from_utf8_lossy(&q.join(&b'/')).to_string()).collect::<Vec<_>>(),
                        hex(&want)
                    ));
                }
            }
        }
    }
    problems
}

fn shrink(ops: &[Op]) -> Vec<Op> {
    let fails = |o: &[Op]| !judge_local(o, &run_real(o)).is_empty();
    let mut cur = ops.to_vec();
    loop {
        let mut progressed = false;
        let mut i = 0;
        while i < cur.len() {
            let mut cand = cur.clone();
            cand.remove(i);
            if fails(&cand) {
                cur = cand;
                progressed = true;
            } else {
                i += 1;
            }
        }
        // shorten paths
        for i in 0..cur.len() {
            let mut cand = cur.clone();
            let changed = match &mut cand[i] {
                Op::Upsert { path, .. } | Op::Remove { path, .. } | Op::Cursor { path } if path.len() > 1 => {
                    path.remove(0);
                    true
                }
                _ => false,
            };
            if changed && fails(&cand) {
                cur = cand;
                progressed = true;
            }
        }
        if !progressed {
            return cur;
        }
    }
}

fn do_history(rep: &mut Report, git: &mut GitOracle, ops: &[Op], with_git: bool, class: &str) {
    let line = op_line(ops);
    let real = run_real(ops);
    let obs = real.obs.join("|");
    rep.case(&line, &obs, ops.len() > 2);
    rep.bucket(&format!("history:{class}:len{}", match ops.len() { 0..=4 => "<=4", 5..=12 => "5-12", 13..=24 => "13-24", _ => "25+" }));
    for o in &real.obs {
        let k = o.split(':').take(2).collect::<Vec<_>>();
        let k = if k[0] == "W" { "W".to_string() } else { k.join(":") };
        rep.bucket(&format!("obs:{k}"));
    }
    let exp = run_expected(ops);
    let problems = judge_local(ops, &real);
    rep.oracle_checked();
    if !problems.is_empty() {
        let small = shrink(ops);
        let sreal = run_real(&small);
        let sprob = judge_local(&small, &sreal);
        rep.oracle_failure(&format!("history {}", short(&small)), &sprob.join("; "), &op_line(&small));
        return;
    }
    for w in &real.writes {
        if let Some(Some((in_domain, leaves, why))) = exp.get(w.op_index) {
            if *in_domain {
                rep.bucket("write:in-domain");
                if with_git {
                    git.pending.push((format!("history {} write #{}", short(ops), w.op_index), line.clone(), w.root.to_string(), leaves.clone()));
                }
            } else {
                rep.bucket("write:outside-domain");
                rep.outside_domain(&format!("{why}: [{}]", short(ops)));
            }
        }
    }
}

// ------------------------------------------------------------------------------------------------
// generation

const NAMES: [&[u8]; 6] = [b"a", b"b", b"a-b", b"a.b", b"a0", b"c"];
const LEAF_MODES: [u16; 4] = [0o100644, 0o100755, 0o120000, 0o160000];

fn gen_name(r: &mut Rng) -> Vec<u8> {
    match r.below(20) {
        0 => vec![0x01],
        1 => b"a\xff".to_vec(),
        2..=9 => NAMES[r.usize(2)].to_vec(),
        _ => r.pick(&NAMES).to_vec(),
    }
}

fn gen_path(r: &mut Rng) -> Path {
    let d = match r.below(10) {
        0..=2 => 1,
        3..=6 => 2,
        7..=8 => 3,
        _ => 4,
    };
    (0..d).map(|_| gen_name(r)).collect()
}

fn gen_id(r: &mut Rng) -> Vec<u8> {
    vec![1 + r.below(5) as u8; 20]
}

/// a random canonical tree, stored bottom-up: returns the ops that make it known and its root entries
fn gen_stored_tree(r: &mut Rng, ops: &mut Vec<Op>) -> Vec<E> {
    let mut leaves: BTreeMap<Path, (u16, Vec<u8>)> = BTreeMap::new();
    let n = 1 + r.usize(8);
    for _ in 0..n {
        let p = gen_path(r);
        // keep it a valid path set: no leaf may be a prefix of another
        if leaves.keys().any(|q| is_prefix(q, &p) || is_prefix(&p, q)) {
            continue;
        }
        leaves.insert(p, (*r.pick(&LEAF_MODES), gen_id(r)));
    }
    let mut root_entries = Vec::new();
    let mut stores = Vec::new();
    build_local(&leaves, &Vec::new(), &mut |prefix, entries, id| {
        let es: Vec<E> = entries.iter().map(|(n, m, i)| E { mode: *m, name: n.clone(), oid: i.clone() }).collect();
        if prefix.is_empty() {
            root_entries = es;
        } else {
            stores.push(Op::Store { id: id.to_vec(), entries: es });
        }
    });
    ops.extend(stores);
    root_entries
}

fn existing_path(r: &mut Rng, fs: &BTreeMap<Path, (u16, Vec<u8>)>) -> Option<Path> {
    if fs.is_empty() {
        return None;
    }
    let k = r.usize(fs.len());
    fs.keys().nth(k).cloned()
}

fn gen_history(r: &mut Rng) -> Vec<Op> {
    let mut ops = vec![Op::New];
    let mut roots: Vec<Vec<E>> = vec![vec![]];
    if r.chance(2, 5) {
        let root = gen_stored_tree(r, &mut ops);
        ops.push(Op::SetRoot { entries: root.clone() });
        roots.push(root);
    }
    let long = r.chance(1, 4);
    let n = 3 + r.usize(if long { 38 } else { 12 });
    let mut in_cursor = 0usize;
    let mut cursor_base: Path = Vec::new();
    for _ in 0..n {
        // the shadow state only biases the choice of paths
        let exp = run_expected(&[ops.clone(), vec![Op::Write { cur: false }]].concat());
        let shadow: BTreeMap<Path, (u16, Vec<u8>)> = exp.last().and_then(|x| x.clone()).map(|x| x.1).unwrap_or_default();
        let cur = in_cursor > 0;
        if cur {
            in_cursor -= 1;
        }
        let strip = |p: Path| -> Path {
            if cur && is_prefix(&cursor_base, &p) && p.len() > cursor_base.len() {
                p[cursor_base.len()..].to_vec()
            } else {
                p
            }
        };
        let pick_path = |r: &mut Rng| -> Path {
            match r.below(10) {
                0..=2 => gen_path(r),
                3..=4 => existing_path(r, &shadow).map(|p| strip(p)).unwrap_or_else(|| gen_path(r)),
                5..=6 => {
                    // a directory on the way to an existing leaf (file<->directory flips, subtree removal)
                    match existing_path(r, &shadow) {
                        Some(p) if p.len() > 1 => {
                            let k = 1 + r.usize(p.len() - 1);
                            strip(p[..k].to_vec())
                        }
                        Some(p) => strip(p),
                        None => gen_path(r),
                    }
                }
                7..=8 => {
                    // below an existing leaf or next to it
                    match existing_path(r, &shadow) {
                        Some(mut p) => {
                            if r.chance(1, 2) {
                                p.pop();
                            }
                            p.push(gen_name(r));
                            strip(p)
                        }
                        None => gen_path(r),
                    }
                }
                _ => {
                    let mut p = gen_path(r);
                    if r.chance(1, 12) {
                        let i = r.usize(p.len());
                        p[i] = vec![]; // an empty component: Error::EmptyPathComponent
                    }
                    p
                }
            }
        };
        match r.below(100) {
            0..=44 => {
                let path = pick_path(r);
                let (mode, id) = match r.below(160) {
                    0 => (0o040000, empty_tree_id()),
                    1 => (0o040000, null_id()),
                    2 => (*r.pick(&LEAF_MODES), null_id()),
                    3 => {
                        // a tree-kind leaf pointing at a stored tree, if any
                        let stored: Vec<&Vec<u8>> = ops.iter().filter_map(|o| if let Op::Store { id, .. } = o { Some(id) } else { None }).collect();
                        if stored.is_empty() {
                            (0o040000, gen_id(r))
                        } else {
                            (0o040000, (*r.pick(&stored)).clone())
                        }
                    }
                    _ => (*r.pick(&LEAF_MODES), gen_id(r)),
                };
                ops.push(Op::Upsert { cur, mode, id, path });
            }
            45..=69 => {
                let path = pick_path(r);
                ops.push(Op::Remove { cur, path });
            }
            70..=79 => ops.push(Op::Write { cur }),
            80..=91 => {
                let path = pick_path(r);
                cursor_base = path.clone();
                ops.push(Op::Cursor { path });
                in_cursor = 1 + r.usize(5);
            }
            92..=94 => {
                let root = r.pick(&roots).clone();
                ops.push(Op::SetRoot { entries: root });
                in_cursor = 0;
            }
            _ => {
                // the §7-d shape: remove (or overwrite) a directory, then insert below it again
                if let Some(p) = existing_path(r, &shadow) {
                    if p.len() > 1 && !cur {
                        let k = 1 + r.usize(p.len() - 1);
                        let dir = p[..k].to_vec();
                        if r.chance(1, 2) {
                            ops.push(Op::Remove { cur: false, path: dir.clone() });
                        } else {
                            ops.push(Op::Upsert { cur: false, mode: 0o100644, id: gen_id(r), path: dir.clone() });
                        }
                        let mut q = dir;
                        q.push(gen_name(r));
                        ops.push(Op::Upsert { cur: false, mode: *r.pick(&LEAF_MODES), id: gen_id(r), path: q });
                    }
                }
            }
        }
    }
    ops.push(Op::Write { cur: false });
    ops
}

/// every history of `len` steps over a tiny vocabulary, followed by a write
fn exhaustive(rep: &mut Report, git: &mut GitOracle, len: usize, with_git: bool) {
    let p = |s: &[&str]| -> Path { s.iter().map(|c| c.as_bytes().to_vec()).collect() };
    let vocab: Vec<Op> = vec![
        Op::Upsert { cur: false, mode: 0o100644, id: vec![1; 20], path: p(&["a"]) },
        Op::Upsert { cur: false, mode: 0o100755, id: vec![2; 20], path: p(&["a", "b"]) },
        Op::Upsert { cur: false, mode: 0o100644, id: vec![3; 20], path: p(&["a", "a"]) },
        Op::Upsert { cur: false, mode: 0o120000, id: vec![4; 20], path: p(&["a", "b", "a"]) },
        Op::Upsert { cur: false, mode: 0o100644, id: vec![5; 20], path: p(&["a-b"]) },
        Op::Remove { cur: false, path: p(&["a"]) },
        Op::Remove { cur: false, path: p(&["a", "b"]) },
        Op::Write { cur: false },
        Op::Cursor { path: p(&["a"]) },
        Op::Upsert { cur: true, mode: 0o100644, id: vec![1; 20], path: p(&["b"]) },
        Op::Remove { cur: true, path: p(&["b"]) },
        Op::Write { cur: true },
    ];
    let mut idx = vec![0usize; len];
    loop {
        let mut ops = vec![Op::New];
        ops.extend(idx.iter().map(|i| vocab[*i].clone()));
        ops.push(Op::Write { cur: false });
        // cursor ops only make sense while a cursor is alive
        let is_c = |o: &Op| matches!(o, Op::Upsert { cur: true, .. } | Op::Remove { cur: true, .. } | Op::Write { cur: true });
        let sensible = (1..ops.len()).all(|i| !is_c(&ops[i]) || is_c(&ops[i - 1]) || matches!(ops[i - 1], Op::Cursor { .. }));
        if sensible {
            do_history(rep, git, &ops, with_git, "exhaustive");
        }
        let mut k = 0;
        loop {
            if k == len {
                return;
            }
            idx[k] += 1;
            if idx[k] < vocab.len() {
                break;
            }
            idx[k] = 0;
            k += 1;
        }
    }
}

fn main() {
    let args = Args::parse();
    let mut rep = Report::new("C04", &args);
    let mut r = Rng::new(args.seed);
    let mut git = GitOracle::new(args.budget(25, 300));
    if let Some(lines) = replay_ops(&args) {
        for l in lines {
            match parse_line(&l) {
                Some(ops) => do_history(&mut rep, &mut git, &ops, true, "replay"),
                None => rep.note(&format!("replay: unparsable line {}", &l[..l.len().min(60)])),
            }
        }
        git.run(&mut rep);
        rep.finish();
        return;
    }
    // corpus: the shapes of DESIGN §7-d first
    let p = |s: &[&str]| -> Path { s.iter().map(|c| c.as_bytes().to_vec()).collect() };
    let u = |path: Path, b: u8| Op::Upsert { cur: false, mode: 0o100644, id: vec![b; 20], path };
    let corpus: Vec<Vec<Op>> = vec![
        vec![Op::New, u(p(&["a", "b"]), 1), Op::Remove { cur: false, path: p(&["a"]) }, u(p(&["a", "c"]), 2), Op::Write { cur: false }],
        vec![Op::New, u(p(&["a", "b"]), 1), u(p(&["a"]), 3), u(p(&["a", "c"]), 2), Op::Write { cur: false }],
        vec![Op::New, u(p(&["a", "b"]), 1), Op::Write { cur: false }, Op::Cursor { path: p(&["a"]) }, Op::Upsert { cur: true, mode: 0o100644, id: vec![2; 20], path: p(&["c"]) }, Op::Write { cur: true }, Op::Write { cur: false }],
        vec![Op::New, u(p(&["a"]), 1), u(p(&["a-b"]), 2), u(p(&["a", "b"]), 3), Op::Write { cur: false }, u(p(&["a"]), 4), Op::Write { cur: false }],
    ];
    for ops in &corpus {
        do_history(&mut rep, &mut git, ops, true, "corpus");
    }
    // a placeholder directory followed by an edit below it (failed with a find error before the repair)
    {
        let ops = vec![
            Op::New,
            Op::Upsert { cur: false, mode: 0o040000, id: null_id(), path: p(&["a"]) },
            u(p(&["a", "b"]), 1),
            Op::Write { cur: false },
        ];
        do_history(&mut rep, &mut git, &ops, true, "corpus");
    }
    for len in 1..=(if args.thorough { 4 } else { 3 }) {
        exhaustive(&mut rep, &mut git, len, len <= 2);
    }
    let n = args.budget(2_500, 60_000);
    let git_hist = args.budget(600, 2_500);
    for i in 0..n {
        let ops = gen_history(&mut r);
        do_history(&mut rep, &mut git, &ops, i < git_hist, "random");
        if git.pending.len() >= 1_500 {
            git.run(&mut rep);
        }
    }
    git.run(&mut rep);
    rep.finish();
}
