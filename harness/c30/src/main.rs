//! C30 — ref advertisements are understood exactly.
//!
//! * oracle: random server repositories made with the real git; `gix_protocol::handshake` (+ `ls_refs`
//!   for V2) through `gix_transport::client::file` (spawns the local `git-upload-pack`) under protocol
//!   V0 / V1 / V2, with and without `ref-prefix`; the reported refs must be exactly what
//!   `git for-each-ref` + `git symbolic-ref` + `git rev-parse <x>^{}` say about the server.
//! * correspondence (`v1` / `v2` ops): the wire lines `git-upload-pack` printed (captured by running
//!   it once more with the very same environment and request) and mutated variants of them are fed
//!   to the real parsers through an in-memory connection; the Lean model must print the same.
//! * spec validation (`adv1` / `adv2` ops): the Lean transcription of what upload-pack prints for a
//!   given ref set must reproduce the captured lines byte for byte.
use bstr::ByteSlice;
use gix_protocol::handshake::Ref;
use gix_transport::client::git as tgit;
use gix_transport::{Protocol, Service};
use hcommon::*;
use std::io::{Read, Write};
use std::path::Path;

// ------------------------------------------------------------------------------------------------
// canonical rendering

fn ref_token(r: &Ref) -> String {
    match r {
        Ref::Direct { full_ref_name, object } => format!("D:{}:{}", hex(full_ref_name), object),
        Ref::Peeled {
            full_ref_name,
            tag,
            object,
        } => format!("P:{}:{}:{}", hex(full_ref_name), tag, object),
        Ref::Symbolic {
            full_ref_name,
            target,
            tag,
            object,
        } => format!(
            "S:{}:{}:{}:{}",
            hex(full_ref_name),
            hex(target),
            tag.map(|t| t.to_string()).unwrap_or_else(|| "-".into()),
            object
        ),
        Ref::Unborn { full_ref_name, target } => format!("U:{}:{}", hex(full_ref_name), hex(target)),
    }
}

fn parse_err_kind(e: &gix_protocol::handshake::refs::parse::Error) -> &'static str {
    use gix_protocol::handshake::refs::parse::Error as E;
    match e {
        E::Io(_) => "err:io",
        E::DecodePacketline(_) => "err:pkt",
        E::Id(_) => "err:id",
        E::MalformedSymref { .. } => "err:symref",
        E::MalformedV1RefLine(_) => "err:v1line",
        E::MalformedV2RefLine(_) => "err:v2line",
        E::UnknownAttribute { .. } => "err:attr",
        E::InvariantViolation { .. } => "err:invariant",
    }
}

fn transport_err_kind(e: &gix_transport::client::Error) -> &'static str {
    use gix_transport::client::capabilities::Error as C;
    use gix_transport::client::Error as E;
    match e {
        E::Io(_) => "err:io",
        E::Capabilities { err } => match err {
            C::MissingDelimitingNullByte => "err:nul",
            C::NoCapabilities => "err:nocaps",
            _ => "err:caps",
        },
        E::UnsupportedProtocolVersion(_) => "err:version",
        E::ExpectedLine(_) => "err:expected-line",
        E::LineDecode { .. } => "err:pkt",
        _ => "err:transport",
    }
}

fn handshake_err_kind(e: &gix_protocol::handshake::Error) -> &'static str {
    use gix_protocol::handshake::Error as E;
    match e {
        E::Transport(t) => transport_err_kind(t),
        E::ParseRefs(p) => parse_err_kind(p),
        _ => "err:other",
    }
}

fn proto_digit(p: Protocol) -> u8 {
    match p {
        Protocol::V0 => 0,
        Protocol::V1 => 1,
        Protocol::V2 => 2,
    }
}

fn shallow_tokens(s: &[gix_protocol::fetch::response::ShallowUpdate]) -> String {
    use gix_protocol::fetch::response::ShallowUpdate as S;
    if s.is_empty() {
        return "-".into();
    }
    s.iter()
        .map(|u| match u {
            S::Shallow(id) => id.to_string(),
            S::Unshallow(id) => format!("un{id}"),
        })
        .collect::<Vec<_>>()
        .join(",")
}

/// `ok p<proto> sh=<oids> <ref>*` for a V0/V1 handshake outcome
fn v1_obs(out: &gix_protocol::handshake::Outcome) -> String {
    if out.server_protocol_version == Protocol::V2 {
        return "v2-detected".into();
    }
    let mut s = format!(
        "ok p{} sh={}",
        proto_digit(out.server_protocol_version),
        shallow_tokens(out.v1_shallow_updates.as_deref().unwrap_or(&[]))
    );
    for r in out.refs.as_deref().unwrap_or(&[]) {
        s.push(' ');
        s.push_str(&ref_token(r));
    }
    s
}

fn v2_obs(refs: &[Ref]) -> String {
    let mut s = "ok".to_string();
    for r in refs {
        s.push(' ');
        s.push_str(&ref_token(r));
    }
    s
}

// ------------------------------------------------------------------------------------------------
// the real parsers on given wire lines (in-memory connection)

fn encode_lines(lines: &[Vec<u8>]) -> Vec<u8> {
    let mut wire = Vec::new();
    for l in lines {
        wire.extend_from_slice(format!("{:04x}", l.len() + 4).as_bytes());
        wire.extend_from_slice(l);
    }
    wire.extend_from_slice(b"0000");
    wire
}

fn run_v1_lines(lines: &[Vec<u8>]) -> String {
    let wire = encode_lines(lines);
    let res = catch(move || {
        let mut conn = tgit::Connection::new(
            std::io::Cursor::new(wire),
            Vec::<u8>::new(),
            Protocol::V1,
            "/nowhere",
            None::<(&str, Option<u16>)>,
            tgit::ConnectMode::Process,
            false,
        );
        gix_protocol::handshake(
            &mut conn,
            Service::UploadPack,
            |_| unreachable!("no authentication on an in-memory connection"),
            Vec::new(),
            &mut gix_features::progress::Discard,
        )
        .map(|o| v1_obs(&o))
        .map_err(|e| handshake_err_kind(&e).to_string())
    });
    match res {
        Ok(Ok(s)) | Ok(Err(s)) => s,
        Err(_) => "panic".into(),
    }
}

fn run_v2_lines(lines: &[Vec<u8>]) -> String {
    let wire = encode_lines(lines);
    let res = catch(move || {
        let mut rd = gix_packetline::StreamingPeekableIter::new(
            std::io::Cursor::new(wire),
            &[gix_packetline::PacketLineRef::Flush],
            false,
        );
        rd.fail_on_err_lines(true);
        let mut r = rd.as_read();
        gix_protocol::handshake::refs::from_v2_refs(&mut r)
            .map(|refs| v2_obs(&refs))
            .map_err(|e| parse_err_kind(&e).to_string())
    });
    match res {
        Ok(Ok(s)) | Ok(Err(s)) => s,
        Err(_) => "panic".into(),
    }
}

fn lines_op(kind: &str, lines: &[Vec<u8>]) -> String {
    let mut op = kind.to_string();
    for l in lines {
        op.push(' ');
        op.push_str(&hex(l));
    }
    op
}

fn encodable(lines: &[Vec<u8>]) -> bool {
    lines.iter().all(|l| !l.is_empty() && l.len() <= 65516)
        && lines
            .first()
            .map_or(true, |l| !(l.starts_with(b"version 2") && l.trim_end_with(|c| c == '\n').len() == 9))
}

fn case_v1(rep: &mut Report, lines: &[Vec<u8>], bucket: &str) -> String {
    let obs = run_v1_lines(lines);
    rep.case(&lines_op("v1", lines), &obs, true);
    rep.bucket(&format!("{bucket}:{}", obs.split(' ').next().unwrap_or("")));
    obs
}

fn case_v2(rep: &mut Report, lines: &[Vec<u8>], bucket: &str) -> String {
    let obs = run_v2_lines(lines);
    rep.case(&lines_op("v2", lines), &obs, true);
    rep.bucket(&format!("{bucket}:{}", obs.split(' ').next().unwrap_or("")));
    obs
}

// ------------------------------------------------------------------------------------------------
// the server as git's own plumbing describes it

#[derive(Clone, Debug, PartialEq, Eq)]
struct Entry {
    name: Vec<u8>,
    oid: String,
    /// the fully peeled object if `oid` names a tag object
    peeled: Option<String>,
    /// where the symbolic ref finally leads (`git symbolic-ref`, followed to the end)
    sym: Option<Vec<u8>>,
}

#[derive(Debug)]
struct View {
    head: Option<Entry>,
    /// HEAD is a symbolic ref whose final target does not exist
    unborn_head: Option<Vec<u8>>,
    refs: Vec<Entry>,
    shallow: Vec<String>,
    hidden: Vec<Vec<u8>>,
}

fn symref_final(dir: &Path, name: &[u8]) -> Option<Vec<u8>> {
    let mut cur = name.to_vec();
    let mut found = None;
    for _ in 0..8 {
        let o = git(dir, &["symbolic-ref", "-q", cur.to_str().expect("utf8 names")], None);
        if !o.ok {
            break;
        }
        let t = o.stdout.trim_end_with(|c| c == '\n').to_vec();
        found = Some(t.clone());
        cur = t;
    }
    found
}

fn peel_of(dir: &Path, oid: &str) -> Option<String> {
    let t = git_ok(dir, &["cat-file", "-t", oid], None);
    if t == "tag" {
        Some(git_ok(dir, &["rev-parse", &format!("{oid}^{{}}")], None))
    } else {
        None
    }
}

fn is_hidden(hidden: &[Vec<u8>], name: &[u8]) -> bool {
    hidden
        .iter()
        .any(|p| name.starts_with(p) && (name.len() == p.len() || name[p.len()] == b'/'))
}

fn server_view(rep: &mut Report, dir: &Path, hidden: &[Vec<u8>]) -> View {
    let out = git(dir, &["for-each-ref", "--format=%(objectname) %(objecttype) %(refname) %(symref)"], None);
    assert!(out.ok, "for-each-ref works");
    let mut refs = Vec::new();
    let mut tag_oids = Vec::new();
    for l in out.stdout.lines() {
        let mut it = l.splitn(4, |b| *b == b' ');
        let oid = it.next().unwrap().to_str().unwrap().to_string();
        let ty = it.next().unwrap();
        let name = it.next().unwrap().to_vec();
        let fer_sym = it.next().unwrap_or(b"").to_vec();
        if ty == b"tag" {
            tag_oids.push(oid.clone());
        }
        refs.push(Entry {
            name,
            oid,
            peeled: None,
            // for-each-ref's idea of the target; replaced by what `git symbolic-ref` says below
            sym: (!fer_sym.is_empty()).then_some(fer_sym),
        });
    }
    // git rev-parse <tag>^{} for all tags in one call
    if !tag_oids.is_empty() {
        let args: Vec<String> = std::iter::once("rev-parse".to_string())
            .chain(tag_oids.iter().map(|o| format!("{o}^{{}}")))
            .collect();
        let argrefs: Vec<&str> = args.iter().map(String::as_str).collect();
        let peeled = git_ok(dir, &argrefs, None);
        let peeled: Vec<&str> = peeled.lines().collect();
        assert_eq!(peeled.len(), tag_oids.len());
        rep.git_checked(1);
        for e in refs.iter_mut() {
            if let Some(i) = tag_oids.iter().position(|t| *t == e.oid) {
                e.peeled = Some(peeled[i].to_string());
            }
        }
    }
    for e in refs.iter_mut() {
        if let Some(fer) = e.sym.take() {
            e.sym = symref_final(dir, &e.name);
            rep.git_checked(1);
            assert_eq!(e.sym.as_ref(), Some(&fer), "for-each-ref %(symref) and git symbolic-ref agree");
        }
    }
    let head_sym = symref_final(dir, b"HEAD");
    // a branch called refs/heads/HEAD makes a plain `HEAD` ambiguous once the real HEAD dangles
    let head_name = head_sym.as_ref().map_or("HEAD".to_string(), |t| t.to_str().unwrap().to_string());
    let head_oid = git(dir, &["rev-parse", "-q", "--verify", &head_name], None);
    rep.git_checked(2);
    let (head, unborn_head) = if head_oid.ok {
        let oid = head_oid.stdout.trim().to_str().unwrap().to_string();
        let peeled = peel_of(dir, &oid);
        (
            Some(Entry {
                name: b"HEAD".to_vec(),
                oid,
                peeled,
                sym: head_sym,
            }),
            None,
        )
    } else {
        (None, head_sym)
    };
    let shallow = std::fs::read(dir.join("shallow"))
        .map(|b| b.lines().map(|l| l.to_str().unwrap().to_string()).collect())
        .unwrap_or_default();
    let vis = |e: &Entry| !is_hidden(hidden, &e.name);
    View {
        head: head.filter(vis),
        unborn_head: unborn_head.filter(|_| !is_hidden(hidden, b"HEAD")),
        refs: refs.into_iter().filter(vis).collect(),
        shallow,
        hidden: hidden.to_vec(),
    }
}

fn entry_expected(e: &Entry, with_sym: bool) -> String {
    let n = hex(&e.name);
    match (&e.sym, with_sym) {
        (Some(t), true) => match &e.peeled {
            Some(p) => format!("S:{}:{}:{}:{}", n, hex(t), e.oid, p),
            None => format!("S:{}:{}:-:{}", n, hex(t), e.oid),
        },
        _ => match &e.peeled {
            Some(p) => format!("P:{}:{}:{}", n, e.oid, p),
            None => format!("D:{}:{}", n, e.oid),
        },
    }
}

/// what a V0/V1 client can know: only HEAD carries its symbolic target (capability `symref=HEAD:…`)
fn expected_v1(v: &View) -> Vec<String> {
    let mut out = Vec::new();
    if let Some(h) = &v.head {
        out.push(entry_expected(h, true));
    }
    for e in &v.refs {
        out.push(entry_expected(e, false));
    }
    out
}

fn prefix_ok(prefixes: &[Vec<u8>], name: &[u8]) -> bool {
    prefixes.is_empty() || prefixes.iter().any(|p| name.starts_with(p))
}

fn expected_v2(v: &View, prefixes: &[Vec<u8>], unborn_supported: bool) -> Vec<String> {
    let mut out = Vec::new();
    if prefix_ok(prefixes, b"HEAD") {
        if let Some(h) = &v.head {
            out.push(entry_expected(h, true));
        } else if let (Some(t), true) = (&v.unborn_head, unborn_supported) {
            out.push(format!("U:{}:{}", hex(b"HEAD"), hex(t)));
        }
    }
    for e in &v.refs {
        if prefix_ok(prefixes, &e.name) {
            out.push(entry_expected(e, true));
        }
    }
    out
}

fn entry_token(e: &Entry) -> String {
    format!(
        "{}:{}:{}:{}",
        hex(&e.name),
        e.oid,
        e.peeled.as_deref().unwrap_or("-"),
        e.sym.as_deref().map(hex).unwrap_or_else(|| "-".into())
    )
}

// ------------------------------------------------------------------------------------------------
// capturing what git-upload-pack writes (same program, same environment, same request)

struct Captured {
    /// V0/V1: the ref advertisement; V2: the capability advertisement
    first: Vec<Vec<u8>>,
    /// V2: the ls-refs answer
    second: Vec<Vec<u8>>,
}

fn split_pkts(mut data: &[u8]) -> Vec<Option<Vec<u8>>> {
    let mut out = Vec::new();
    while data.len() >= 4 {
        let n = usize::from_str_radix(std::str::from_utf8(&data[..4]).unwrap_or("zzzz"), 16).expect("hex length");
        if n < 4 {
            out.push(None);
            data = &data[4..];
        } else {
            out.push(Some(data[4..n].to_vec()));
            data = &data[n..];
        }
    }
    out
}

fn capture(path: &Path, proto: Protocol, ls_args: Option<&[Vec<u8>]>) -> Captured {
    let mut cmd = std::process::Command::new("git-upload-pack");
    cmd.arg(path)
        .stdin(std::process::Stdio::piped())
        .stdout(std::process::Stdio::piped())
        .stderr(std::process::Stdio::null());
    if proto != Protocol::V1 {
        cmd.env("GIT_PROTOCOL", format!("version={}", proto_digit(proto)));
    }
    let mut child = cmd.spawn().expect("spawn git-upload-pack");
    let mut request = Vec::new();
    if let Some(args) = ls_args {
        request.extend_from_slice(b"0014command=ls-refs\n0001");
        for a in args {
            request.extend_from_slice(format!("{:04x}", a.len() + 5).as_bytes());
            request.extend_from_slice(a);
            request.push(b'\n');
        }
    }
    request.extend_from_slice(b"0000");
    {
        let mut si = child.stdin.take().unwrap();
        let _ = si.write_all(&request);
    }
    let mut out = Vec::new();
    child.stdout.take().unwrap().read_to_end(&mut out).expect("read upload-pack");
    let _ = child.wait();
    let pkts = split_pkts(&out);
    let mut sections: Vec<Vec<Vec<u8>>> = vec![Vec::new()];
    for p in pkts {
        match p {
            Some(l) => sections.last_mut().unwrap().push(l),
            None => sections.push(Vec::new()),
        }
    }
    let mut it = sections.into_iter();
    Captured {
        first: it.next().unwrap_or_default(),
        second: it.next().unwrap_or_default(),
    }
}

// ------------------------------------------------------------------------------------------------
// the real handshake through the file transport

struct RealOut {
    proto: Protocol,
    refs: Vec<String>,
    shallow: String,
}

fn real_handshake(path: &Path, proto: Protocol, prefixes: Option<Vec<Vec<u8>>>) -> Result<RealOut, String> {
    let path = path.to_path_buf();
    let r = with_deadline(std::time::Duration::from_secs(60), move || -> Result<RealOut, String> {
        let mut transport = gix_transport::client::file::connect(
            gix_transport::bstr::BString::from(path.to_str().unwrap()),
            proto,
            false,
        )
        .expect("infallible");
        let out = gix_protocol::handshake(
            &mut transport,
            Service::UploadPack,
            |_| unreachable!("file transport does not authenticate"),
            Vec::new(),
            &mut gix_features::progress::Discard,
        )
        .map_err(|e| handshake_err_kind(&e).to_string())?;
        let shallow = shallow_tokens(out.v1_shallow_updates.as_deref().unwrap_or(&[]));
        let refs = match out.refs {
            Some(r) => r,
            None => gix_protocol::ls_refs(
                &mut transport,
                &out.capabilities,
                |_caps, args, _features| {
                    for p in prefixes.iter().flatten() {
                        let mut a = b"ref-prefix ".to_vec();
                        a.extend_from_slice(p);
                        args.push(a.into());
                    }
                    Ok(gix_protocol::ls_refs::Action::Continue)
                },
                &mut gix_features::progress::Discard,
                false,
            )
            .map_err(|e| match e {
                gix_protocol::ls_refs::Error::Parse(p) => parse_err_kind(&p).to_string(),
                gix_protocol::ls_refs::Error::Transport(t) => transport_err_kind(&t).to_string(),
                gix_protocol::ls_refs::Error::Io(_) => "err:io".to_string(),
            })?,
        };
        let _ = gix_protocol::indicate_end_of_interaction(&mut transport, false);
        Ok(RealOut {
            proto: out.server_protocol_version,
            refs: refs.iter().map(ref_token).collect(),
            shallow,
        })
    });
    match r {
        None => Err("hang".into()),
        Some(Err(_)) => Err("panic".into()),
        Some(Ok(x)) => x,
    }
}

// ------------------------------------------------------------------------------------------------
// server repositories

#[derive(Default, Debug)]
struct Plan {
    empty: bool,
    commits: usize,
    branches: Vec<&'static str>,
    lightweight: Vec<&'static str>,
    annotated: bool,
    nested: usize,
    tag_of_tree: bool,
    other_refs: bool,
    symrefs: Vec<(&'static str, &'static str)>,
    /// how HEAD is set up
    head: &'static str,
    shallow: bool,
    hidden: Vec<&'static str>,
    pack_refs: bool,
}

const BRANCHES: &[&str] = &[
    "a",
    "b/c",
    "dev",
    "z-last",
    "nb\u{a0}",
    "wide\u{3000}",
    "nel\u{85}",
    "\u{e9}t\u{e9}",
    "(null)",
    "HEAD",
    "capabilities",
    "sp\u{2003}mid",
    // legal in ref names, special somewhere in the wire format
    "a=b",
    "x,y;z",
    "p+q%r",
    "at@sign",
    "(par)=(q)",
];

fn corpus_plans() -> Vec<Plan> {
    let base = || Plan {
        commits: 2,
        branches: vec!["main"],
        head: "main",
        ..Default::default()
    };
    vec![
        Plan {
            empty: true,
            head: "main",
            ..Default::default()
        },
        Plan {
            empty: true,
            head: "unborn",
            ..Default::default()
        },
        base(),
        Plan {
            lightweight: vec!["lw"],
            annotated: true,
            nested: 2,
            tag_of_tree: true,
            other_refs: true,
            ..base()
        },
        Plan {
            annotated: true,
            head: "to-annotated-tag",
            ..base()
        },
        Plan {
            annotated: true,
            head: "detached-tag",
            ..base()
        },
        Plan {
            head: "detached",
            branches: vec!["main", "a"],
            ..base()
        },
        Plan {
            head: "unborn",
            branches: vec!["main", "dev"],
            annotated: true,
            ..base()
        },
        Plan {
            symrefs: vec![
                ("refs/heads/sym", "refs/heads/main"),
                ("refs/heads/sym2", "refs/heads/sym"),
                ("refs/heads/dangling", "refs/heads/nothing"),
                ("refs/heads/symtag", "refs/tags/ann"),
                ("refs/remotes/origin/HEAD", "refs/remotes/origin/main"),
            ],
            annotated: true,
            other_refs: true,
            head: "via-symref",
            ..base()
        },
        Plan {
            branches: vec!["main", "nb\u{a0}", "wide\u{3000}", "nel\u{85}", "\u{e9}t\u{e9}", "sp\u{2003}mid"],
            ..base()
        },
        Plan {
            hidden: vec!["HEAD"],
            ..base()
        },
        Plan {
            hidden: vec!["refs/tags/ann", "refs/pull"],
            annotated: true,
            other_refs: true,
            ..base()
        },
        Plan {
            shallow: true,
            commits: 3,
            annotated: true,
            ..base()
        },
        Plan {
            branches: vec!["main", "(null)", "HEAD", "capabilities"],
            symrefs: vec![("refs/heads/tonull", "refs/heads/(null)")],
            ..base()
        },
        Plan {
            pack_refs: true,
            annotated: true,
            nested: 1,
            lightweight: vec!["lw", "v1.0"],
            ..base()
        },
        Plan {
            branches: vec!["main", "a=b", "x,y;z", "p+q%r", "at@sign", "(par)=(q)"],
            lightweight: vec!["v=1;2,3+4%5@6(7)"],
            symrefs: vec![("refs/heads/sym=eq", "refs/heads/a=b"), ("refs/heads/sym2", "refs/heads/(par)=(q)")],
            head: "other-branch",
            ..base()
        },
        Plan {
            branches: vec!["(par)=(q)", "main"],
            head: "other-branch",
            other_refs: true,
            ..base()
        },
    ]
}

fn random_plan(r: &mut Rng) -> Plan {
    if r.chance(1, 14) {
        return Plan {
            empty: true,
            head: if r.chance(1, 2) { "main" } else { "unborn" },
            ..Default::default()
        };
    }
    let mut branches = vec![];
    if r.chance(5, 6) {
        branches.push("main");
    }
    for _ in 0..r.usize(4) {
        let b = *r.pick(BRANCHES);
        if !branches.contains(&b) {
            branches.push(b);
        }
    }
    let annotated = r.chance(1, 2);
    let mut symrefs = Vec::new();
    if r.chance(1, 3) {
        symrefs.push(("refs/heads/sym", "refs/heads/main"));
        if r.chance(1, 2) {
            symrefs.push(("refs/heads/sym2", "refs/heads/sym"));
        }
    }
    if r.chance(1, 6) {
        symrefs.push(("refs/heads/dangling", "refs/heads/nothing"));
    }
    if annotated && r.chance(1, 4) {
        symrefs.push(("refs/heads/symtag", "refs/tags/ann"));
    }
    let other_refs = r.chance(1, 3);
    if other_refs && r.chance(1, 2) {
        symrefs.push(("refs/remotes/origin/HEAD", "refs/remotes/origin/main"));
    }
    let head = match r.below(12) {
        0..=4 => "main",
        5 => "other-branch",
        6 => "detached",
        7 => "unborn",
        8 if annotated => "to-annotated-tag",
        9 if annotated => "detached-tag",
        10 if symrefs.iter().any(|s| s.0 == "refs/heads/sym") => "via-symref",
        _ => "main",
    };
    let mut hidden = Vec::new();
    if r.chance(1, 6) {
        hidden.push(*r.pick(&["refs/pull", "refs/tags/ann", "HEAD", "refs/heads/a", "refs/tags", "refs/heads/main"]));
    }
    Plan {
        empty: false,
        commits: 1 + r.usize(4),
        branches,
        lightweight: match r.below(4) {
            0 => vec![],
            1 => vec!["lw"],
            2 => vec!["lw", "v1.0"],
            _ => vec!["v1.0"],
        },
        annotated,
        nested: if annotated { r.usize(3) } else { 0 },
        tag_of_tree: r.chance(1, 5),
        other_refs,
        symrefs,
        head,
        shallow: r.chance(1, 7),
        hidden,
        pack_refs: r.chance(1, 3),
    }
}

fn build_server(r: &mut Rng, dir: &Path, plan: &Plan) {
    std::fs::create_dir_all(dir).unwrap();
    git_ok(dir, &["init", "-q", "--bare", "."], None);
    if plan.empty {
        if plan.head == "unborn" {
            git_ok(dir, &["symbolic-ref", "HEAD", "refs/heads/unborn"], None);
        }
        return;
    }
    let tree = git_ok(dir, &["hash-object", "-t", "tree", "-w", "--stdin"], Some(b""));
    let mut commits: Vec<String> = Vec::new();
    for i in 0..plan.commits.max(1) {
        let msg = format!("c{i}");
        let mut args = vec!["commit-tree", tree.as_str(), "-m", msg.as_str()];
        let parent;
        if i > 0 {
            parent = commits[if r.chance(3, 4) { i - 1 } else { r.usize(i) }].clone();
            args.push("-p");
            args.push(parent.as_str());
        }
        commits.push(git_ok(dir, &args, None));
    }
    let pick = |r: &mut Rng| commits[r.usize(commits.len())].clone();
    let mut batch = String::new();
    for b in &plan.branches {
        batch.push_str(&format!("create refs/heads/{b} {}\n", pick(r)));
    }
    for t in &plan.lightweight {
        batch.push_str(&format!("create refs/tags/{t} {}\n", pick(r)));
    }
    if plan.other_refs {
        batch.push_str(&format!("create refs/notes/commits {}\n", pick(r)));
        batch.push_str(&format!("create refs/pull/1/head {}\n", pick(r)));
        batch.push_str(&format!("create refs/remotes/origin/main {}\n", pick(r)));
    }
    git_ok(dir, &["update-ref", "--stdin"], Some(batch.as_bytes()));
    if plan.annotated {
        let target = pick(r);
        git_ok(dir, &["tag", "-a", "-m", "annotated", "ann", &target], None);
        let mut prev = "ann".to_string();
        for i in 0..plan.nested {
            let name = format!("nested{i}");
            git_ok(dir, &["-c", "advice.nestedTag=false", "tag", "-a", "-m", "nested", &name, &prev], None);
            prev = name;
        }
    }
    if plan.tag_of_tree {
        git_ok(dir, &["tag", "-a", "-m", "tree tag", "treetag", &tree], None);
    }
    for (name, target) in &plan.symrefs {
        git_ok(dir, &["symbolic-ref", name, target], None);
    }
    match plan.head {
        "main" => {}
        "other-branch" => {
            if let Some(b) = plan.branches.iter().find(|b| **b != "main") {
                git_ok(dir, &["symbolic-ref", "HEAD", &format!("refs/heads/{b}")], None);
            }
        }
        "detached" => {
            git_ok(dir, &["update-ref", "--no-deref", "HEAD", &pick(r)], None);
        }
        "detached-tag" => {
            let t = git_ok(dir, &["rev-parse", "refs/tags/ann"], None);
            // update-ref refuses to put a non-commit into HEAD; the file can hold it nevertheless
            std::fs::write(dir.join("HEAD"), format!("{t}\n")).unwrap();
        }
        "unborn" => {
            git_ok(dir, &["symbolic-ref", "HEAD", "refs/heads/unborn"], None);
        }
        "to-annotated-tag" => {
            git_ok(dir, &["symbolic-ref", "HEAD", "refs/tags/ann"], None);
        }
        "via-symref" => {
            let s = if plan.symrefs.iter().any(|s| s.0 == "refs/heads/sym2") {
                "refs/heads/sym2"
            } else {
                "refs/heads/sym"
            };
            git_ok(dir, &["symbolic-ref", "HEAD", s], None);
        }
        other => panic!("unknown head mode {other}"),
    }
    if plan.pack_refs {
        git_ok(dir, &["pack-refs", "--all"], None);
    }
    if plan.shallow {
        // a commit with a parent becomes the shallow boundary the server announces
        if let Some(c) = commits.get(1) {
            std::fs::write(dir.join("shallow"), format!("{c}\n")).unwrap();
        }
    }
    for h in &plan.hidden {
        git_ok(dir, &["config", "--add", "transfer.hideRefs", h], None);
    }
}

// ------------------------------------------------------------------------------------------------
// mutations of captured lines (the malformed stream)

fn mutate(r: &mut Rng, lines: &[Vec<u8>], v2: bool) -> Vec<Vec<u8>> {
    let mut ls: Vec<Vec<u8>> = lines.to_vec();
    let some_oid = b"1234567890abcdef1234567890abcdef12345678".to_vec();
    let n = ls.len();
    match r.below(if n == 0 { 3 } else { 26 }) {
        22..=25 if !v2 => {
            // a name is advertised again — preferably one a symref capability mentions
            let first = ls[0].clone();
            let body = first.trim_end_with(|c| c == '\n');
            let mut names: Vec<Vec<u8>> = Vec::new();
            if let Some(z) = body.find_byte(0) {
                for cap in body[z + 1..].split(|b| *b == b' ') {
                    if let Some(v) = cap.strip_prefix(b"symref=") {
                        if let Some(c) = v.find_byte(b':') {
                            names.push(v[..c].to_vec());
                        }
                    }
                }
            }
            if names.is_empty() || r.chance(1, 4) {
                for l in lines {
                    let l = l.trim_end_with(|c| c == '\n');
                    if let Some(sp) = l.find_byte(b' ') {
                        let p = &l[sp + 1..];
                        let p = p.find_byte(0).map_or(p, |z| &p[..z]);
                        names.push(p.to_vec());
                    }
                }
            }
            let name = r.pick(&names).clone();
            for _ in 0..1 + r.usize(2) {
                let at = 1 + r.usize(ls.len());
                let suffix: &[u8] = if r.chance(1, 5) { b"^{}\n" } else { b"\n" };
                ls.insert(at.min(ls.len()), [&some_oid[..], b" ", &name[..], suffix].concat());
            }
        }
        0 => ls.push([&some_oid[..], b" refs/heads/extra\n"].concat()),
        1 => ls.push(b"shallow 1234567890abcdef1234567890abcdef12345678\n".to_vec()),
        2 => ls.insert(0, b"ERR no such repository\n".to_vec()),
        3 => {
            ls.remove(r.usize(n));
        }
        4 => {
            let i = r.usize(n);
            let l = ls[i].clone();
            ls.insert(i, l);
        }
        5 if n >= 2 => {
            let i = r.usize(n - 1);
            ls.swap(i, i + 1);
        }
        6 => {
            let i = r.usize(n);
            let j = r.usize(ls[i].len());
            ls[i][j] ^= 1 << r.below(8);
        }
        7 => {
            let i = r.usize(n);
            let j = r.usize(ls[i].len());
            ls[i].truncate(j.max(1));
        }
        8 => {
            let i = r.usize(n);
            let j = r.usize(40.min(ls[i].len()));
            ls[i][j] = *r.pick(b"ABCDEFg 0");
        }
        9 => {
            let i = r.usize(n);
            let l = &mut ls[i];
            if l.last() == Some(&b'\n') {
                l.pop();
            }
            l.extend_from_slice(*r.pick(&[
                &b" \n"[..],
                b"\r\n",
                b"\xc2\xa0\n",
                b"\t",
                b"\n\n",
                b"",
                b"\xe3\x80\x80",
                b"\xc2\x85\n",
                b"\xe2\x80\x8a\n",
                b"\xa0\n",
            ]));
        }
        10 => {
            let i = r.usize(n);
            let l = &mut ls[i];
            if l.last() == Some(&b'\n') {
                l.pop();
            }
            l.extend_from_slice(*r.pick(&[
                &b" symref-target:(null)\n"[..],
                b" symref-target:refs/heads/main\n",
                b" peeled:1234567890abcdef1234567890abcdef12345678\n",
                b" peeled:\n",
                b" peeled\n",
                b" foo:bar\n",
                b" symref-target:a peeled:1234567890abcdef1234567890abcdef12345678 extra\n",
                b" \n",
                b" symref-target:x:y\n",
                b" peeled:1234\n",
                b"^{}\n",
            ]));
        }
        11 => {
            let i = r.usize(n);
            let sp = ls[i].find_byte(b' ').unwrap_or(0);
            let rest = ls[i][sp..].to_vec();
            ls[i] = [*r.pick(&[&b"unborn"[..], b"shallow", b"0000000000000000000000000000000000000000", b""]), &rest[..]].concat();
        }
        12 => {
            // the dummy line of an empty repository
            let caps = if v2 { &b"\n"[..] } else { b"\0multi_ack symref=HEAD:refs/heads/main agent=x\n" };
            ls.insert(
                if r.chance(1, 2) { 0 } else { r.usize(n + 1) },
                [&b"0000000000000000000000000000000000000000 capabilities^{}"[..], caps].concat(),
            );
        }
        13..=19 if !v2 => {
            // play with the capabilities of the first line
            let l = ls[0].clone();
            let body = if l.last() == Some(&b'\n') { &l[..l.len() - 1] } else { &l[..] };
            let names: Vec<Vec<u8>> = lines
                .iter()
                .filter_map(|l| {
                    let l = l.trim_end_with(|c| c == '\n');
                    let sp = l.find_byte(b' ')?;
                    let p = &l[sp + 1..];
                    let p = p.find_byte(0).map_or(p, |z| &p[..z]);
                    (!p.ends_with(b"^{}")).then(|| p.to_vec())
                })
                .collect();
            let name = if names.is_empty() || r.chance(1, 5) {
                b"refs/heads/not-there".to_vec()
            } else {
                r.pick(&names).clone()
            };
            let extra: Vec<u8> = match r.below(10) {
                0 => b" symref=HEAD".to_vec(),
                1 => b" symref=:x".to_vec(),
                2 => b" symref=HEAD:".to_vec(),
                3 => [b" symref=".as_slice(), &name, b":(null)"].concat(),
                4 => b" symref".to_vec(),
                5 => b"  symref=a:b".to_vec(),
                6 => [b" symref=".as_slice(), &name, b":refs/x symref=", &name, b":refs/y"].concat(),
                _ => {
                    let mut e = Vec::new();
                    for _ in 0..1 + r.usize(3) {
                        let nm = if r.chance(1, 6) { b"refs/heads/not-there".to_vec() } else { r.pick(&names.iter().cloned().chain(std::iter::once(name.clone())).collect::<Vec<_>>()).clone() };
                        e.extend_from_slice(b" symref=");
                        e.extend_from_slice(&nm);
                        e.extend_from_slice(b":refs/target/");
                        e.push(b'a' + r.below(26) as u8);
                    }
                    e
                }
            };
            let mut nl = body.to_vec();
            match r.below(8) {
                0 => {
                    // no capabilities at all
                    if let Some(z) = nl.find_byte(0) {
                        nl.truncate(z + r.usize(2));
                    }
                }
                1 => {
                    // the symref capability git sent is dropped
                    if let Some(p) = nl.find(b" symref=") {
                        let end = nl[p + 1..].find_byte(b' ').map_or(nl.len(), |e| p + 1 + e);
                        nl.drain(p..end);
                    }
                }
                _ => {
                    if nl.find_byte(0).is_none() {
                        nl.push(0);
                        nl.extend_from_slice(b"multi_ack");
                    }
                    nl.extend_from_slice(&extra);
                }
            }
            if r.chance(9, 10) {
                nl.push(b'\n');
            }
            ls[0] = nl;
        }
        _ => {
            let i = r.usize(n);
            let j = r.usize(ls[i].len() + 1);
            ls[i].insert(j, *r.pick(b" :^{}\0\n\r=a0"));
        }
    }
    ls
}

// ------------------------------------------------------------------------------------------------
// one scenario: a server, all protocol variants

fn split_caps(first_line: &[u8]) -> Option<(Vec<u8>, Vec<u8>, Vec<(Vec<u8>, Vec<u8>)>)> {
    let l = first_line.trim_end_with(|c| c == '\n');
    let z = l.find_byte(0)?;
    let toks: Vec<&[u8]> = l[z + 1..].split(|b| *b == b' ').collect();
    let first_sym = toks.iter().position(|t| t.starts_with(b"symref="));
    let last_sym = toks.iter().rposition(|t| t.starts_with(b"symref="));
    let (pre, syms, post) = match (first_sym, last_sym) {
        (Some(a), Some(b)) => (&toks[..a], &toks[a..=b], &toks[b + 1..]),
        _ => (&toks[..], &toks[..0], &toks[..0]),
    };
    let mut sym_pairs = Vec::new();
    for s in syms {
        let v = s.strip_prefix(b"symref=")?;
        let c = v.find_byte(b':')?;
        sym_pairs.push((v[..c].to_vec(), v[c + 1..].to_vec()));
    }
    Some((pre.join(&b' '), post.join(&b' '), sym_pairs))
}

fn diff_key(expected: &[String], got: &[String]) -> String {
    for (i, e) in expected.iter().enumerate() {
        match got.get(i) {
            Some(g) if g == e => {}
            Some(g) => {
                let name = |t: &str| t.split(':').nth(1).and_then(unhex).map(|b| String::from_utf8_lossy(&b).into_owned()).unwrap_or_default();
                return format!("differs at {} (reported as {})", name(e), name(g));
            }
            None => return "refs missing at the end".into(),
        }
    }
    "extra refs reported".into()
}

fn scenario(rep: &mut Report, scratch: &Scratch, seed: u64, idx: u64, plan: Option<Plan>, mutations: usize) {
    let mut r = Rng::new(seed.wrapping_mul(1_000_003).wrapping_add(idx));
    let plan = plan.unwrap_or_else(|| random_plan(&mut r));
    let dir = scratch.join(format!("srv{idx}"));
    let _ = std::fs::remove_dir_all(&dir);
    build_server(&mut r, &dir, &plan);
    let hidden: Vec<Vec<u8>> = plan.hidden.iter().map(|h| h.as_bytes().to_vec()).collect();
    let view = server_view(rep, &dir, &hidden);
    let replay_op = format!("scenario {seed} {idx}");
    let desc = format!(
        "head={} empty={} ann={} nested={} symrefs={} hidden={:?} shallow={} packed={}",
        plan.head,
        plan.empty,
        plan.annotated,
        plan.nested,
        plan.symrefs.len(),
        plan.hidden,
        plan.shallow,
        plan.pack_refs
    );
    rep.bucket(&format!("head:{}", plan.head));
    if plan.empty {
        rep.bucket("repo:empty");
    }
    if plan.annotated {
        rep.bucket(&format!("tags:annotated+nested{}", plan.nested));
    }
    if !plan.symrefs.is_empty() {
        rep.bucket("repo:extra-symrefs");
    }
    if !plan.hidden.is_empty() {
        rep.bucket("repo:hideRefs");
    }
    if plan.shallow {
        rep.bucket("repo:shallow");
    }

    // ---- V0 and V1 ----------------------------------------------------------------------------
    for proto in [Protocol::V0, Protocol::V1] {
        let pname = format!("V{}", proto_digit(proto));
        let cap = capture(&dir, proto, None);
        let lines = cap.first.clone();
        let expected = expected_v1(&view);
        let expected_shallow = if view.shallow.is_empty() { "-".to_string() } else { view.shallow.join(",") };
        rep.oracle_only(&format!("{pname} handshake against {desc}"), true);
        rep.oracle_checked();
        match real_handshake(&dir, proto, None) {
            Ok(out) => {
                if out.refs != expected {
                    rep.oracle_failure(
                        &format!("{pname} head={} refs {}", plan.head, diff_key(&expected, &out.refs)),
                        &format!("server ({desc}) has {expected:?}, handshake reported {:?}", out.refs),
                        &replay_op,
                    );
                } else if out.shallow != expected_shallow {
                    rep.oracle_failure(
                        &format!("{pname} shallow boundary differs"),
                        &format!("server shallow file {expected_shallow}, handshake reported {}", out.shallow),
                        &replay_op,
                    );
                }
                // the same lines through the in-memory connection must give the same answer
                let mut want = format!("ok p{} sh={}", proto_digit(out.proto), out.shallow);
                for t in &out.refs {
                    want.push(' ');
                    want.push_str(t);
                }
                if encodable(&lines) {
                    let obs = case_v1(rep, &lines, &format!("{pname}:git"));
                    if obs != want {
                        rep.oracle_failure(
                            &format!("{pname} file transport and in-memory parse disagree"),
                            &format!("file transport: {want}; in-memory on the captured lines: {obs}"),
                            &replay_op,
                        );
                    }
                }
            }
            Err(kind) => {
                rep.oracle_failure(
                    &format!("{pname} head={} hidden={:?} handshake fails with {kind}", plan.head, plan.hidden),
                    &format!("server ({desc}) advertises {expected:?} but the handshake ends with {kind}"),
                    &replay_op,
                );
                if encodable(&lines) {
                    case_v1(rep, &lines, &format!("{pname}:git"));
                }
            }
        }
        // the Lean transcription of upload-pack's v0 advertisement vs the captured lines
        if let Some(first) = lines.first() {
            if let Some((pre, post, syms)) = split_caps(first) {
                let mut op = format!(
                    "adv1 {} {} {}",
                    hex(&pre),
                    hex(&post),
                    if view.shallow.is_empty() { "-".to_string() } else { view.shallow.join(",") }
                );
                // the symref capabilities git sends: HEAD only, and only if HEAD resolves
                let want_syms: Vec<(Vec<u8>, Vec<u8>)> = match plan_head_sym(&dir, &view, &hidden) {
                    Some(t) => vec![(b"HEAD".to_vec(), t)],
                    None => vec![],
                };
                if syms != want_syms {
                    rep.oracle_failure(
                        &format!("{pname} spec: symref capabilities differ from git's"),
                        &format!("git sent {syms:?}, plumbing says {want_syms:?}"),
                        &replay_op,
                    );
                }
                op.push_str(&format!(" {}", if want_syms.is_empty() { "-".to_string() } else { hex(&want_syms[0].1) }));
                if let Some(h) = &view.head {
                    op.push(' ');
                    op.push_str(&entry_token(h));
                }
                for e in &view.refs {
                    op.push(' ');
                    op.push_str(&entry_token(e));
                }
                let obs = lines.iter().map(|l| hex(l)).collect::<Vec<_>>().join(" ");
                rep.case(&op, &obs, true);
                rep.bucket("adv1");
            }
        } else {
            rep.bucket(&format!("{pname}:no-lines"));
        }
        // malformed stream
        for _ in 0..mutations {
            let m = mutate(&mut r, &lines, false);
            if encodable(&m) {
                case_v1(rep, &m, "v1:mutated");
            }
        }
    }

    // ---- V2 -----------------------------------------------------------------------------------
    let names: Vec<Vec<u8>> = view.refs.iter().map(|e| e.name.clone()).collect();
    let mut prefix_sets: Vec<Option<Vec<Vec<u8>>>> = vec![None];
    let pset: Vec<Vec<u8>> = match r.below(6) {
        0 => vec![b"refs/heads/".to_vec()],
        1 => vec![b"refs/tags/".to_vec(), b"HEAD".to_vec()],
        2 => vec![b"HEAD".to_vec()],
        3 if !names.is_empty() => {
            let n = r.pick(&names).clone();
            let k = 1 + r.usize(n.len());
            vec![n[..k].to_vec()]
        }
        4 => vec![b"refs/heads/ma".to_vec(), b"refs/nothing".to_vec(), b"H".to_vec()],
        _ => vec![b"refs/".to_vec()],
    };
    prefix_sets.push(Some(pset));
    let caps = capture(&dir, Protocol::V2, None).first;
    for prefixes in prefix_sets {
        let pname = if prefixes.is_some() { "V2+prefix" } else { "V2" };
        let unborn_supported = caps.iter().any(|l| {
            let l = l.trim_end_with(|c| c == '\n');
            l.strip_prefix(b"ls-refs=")
                .map_or(false, |v| v.split(|b| *b == b' ').any(|t| t == b"unborn"))
        });
        let mut ls_args: Vec<Vec<u8>> = vec![b"symrefs".to_vec(), b"peel".to_vec()];
        if unborn_supported {
            ls_args.push(b"unborn".to_vec());
        }
        for p in prefixes.iter().flatten() {
            ls_args.push([b"ref-prefix ".as_slice(), p].concat());
        }
        let lines = capture(&dir, Protocol::V2, Some(&ls_args)).second;
        let pfx = prefixes.clone().unwrap_or_default();
        let expected = expected_v2(&view, &pfx, unborn_supported);
        rep.oracle_only(&format!("{pname} {:?} against {desc}", pfx.iter().map(|p| String::from_utf8_lossy(p).into_owned()).collect::<Vec<_>>()), true);
        rep.oracle_checked();
        match real_handshake(&dir, Protocol::V2, Some(pfx.clone())) {
            Ok(out) => {
                if out.proto != Protocol::V2 {
                    rep.oracle_failure(&format!("{pname} server answered with protocol {}", proto_digit(out.proto)), &desc, &replay_op);
                }
                if out.refs != expected {
                    rep.oracle_failure(
                        &format!("{pname} head={} refs {}", plan.head, diff_key(&expected, &out.refs)),
                        &format!("server ({desc}) has {expected:?}, ls-refs reported {:?}", out.refs),
                        &replay_op,
                    );
                }
                let mut want = "ok".to_string();
                for t in &out.refs {
                    want.push(' ');
                    want.push_str(t);
                }
                if encodable(&lines) {
                    let obs = case_v2(rep, &lines, "V2:git");
                    if obs != want {
                        rep.oracle_failure(
                            &format!("{pname} file transport and in-memory parse disagree"),
                            &format!("file transport: {want}; in-memory on the captured lines: {obs}"),
                            &replay_op,
                        );
                    }
                }
            }
            Err(kind) => {
                rep.oracle_failure(
                    &format!("{pname} head={} hidden={:?} ls-refs fails with {kind}", plan.head, plan.hidden),
                    &format!("server ({desc}) has {expected:?} but handshake + ls-refs end with {kind}"),
                    &replay_op,
                );
                if encodable(&lines) {
                    case_v2(rep, &lines, "V2:git");
                }
            }
        }
        // Lean transcription of ls-refs vs the captured lines
        let mut op = format!(
            "adv2 {} {} {}",
            if unborn_supported { "1" } else { "0" },
            view.unborn_head.as_deref().map(hex).unwrap_or_else(|| "-".into()),
            if pfx.is_empty() { "-".to_string() } else { pfx.iter().map(|p| hex(p)).collect::<Vec<_>>().join(",") }
        );
        if let Some(h) = &view.head {
            op.push(' ');
            op.push_str(&entry_token(h));
        }
        for e in &view.refs {
            op.push(' ');
            op.push_str(&entry_token(e));
        }
        let obs = if lines.is_empty() { "-".to_string() } else { lines.iter().map(|l| hex(l)).collect::<Vec<_>>().join(" ") };
        rep.case(&op, &obs, true);
        rep.bucket("adv2");
        for _ in 0..mutations {
            let m = mutate(&mut r, &lines, true);
            if encodable(&m) {
                case_v2(rep, &m, "v2:mutated");
            }
        }
    }
    let _ = view.hidden.len();
    let _ = std::fs::remove_dir_all(&dir);
}

/// the target `symref=HEAD:<target>` must carry: HEAD is symbolic and resolves (hiding HEAD does not
/// remove the capability — upload-pack collects it before looking at hideRefs)
fn plan_head_sym(dir: &Path, view: &View, hidden: &[Vec<u8>]) -> Option<Vec<u8>> {
    if let Some(h) = &view.head {
        return h.sym.clone();
    }
    if is_hidden(hidden, b"HEAD") && git(dir, &["rev-parse", "-q", "--verify", "HEAD"], None).ok {
        return symref_final(dir, b"HEAD");
    }
    None
}

fn hand_made(rep: &mut Report) {
    let a = "1111111111111111111111111111111111111111";
    let b = "2222222222222222222222222222222222222222";
    let c = "3333333333333333333333333333333333333333";
    let l = |s: String| s.into_bytes();
    let v1: Vec<Vec<Vec<u8>>> = vec![
        vec![],
        vec![l(format!("{a} HEAD\0multi_ack symref=HEAD:refs/heads/main\n")), l(format!("{a} refs/heads/main\n"))],
        // several symref capabilities: the lookup entries are swap_remove'd, refs get reordered
        vec![
            l(format!("{a} refs/heads/a\0symref=refs/heads/c:refs/heads/a symref=refs/heads/b:refs/heads/a x\n")),
            l(format!("{b} refs/heads/b\n")),
            l(format!("{c} refs/heads/c\n")),
            l(format!("{a} refs/tags/t\n")),
            l(format!("{b} refs/tags/t^{{}}\n")),
        ],
        // a symref capability for a ref that is not advertised
        vec![l(format!("{a} refs/heads/main\0symref=HEAD:refs/heads/main agent=x\n"))],
        // HEAD is symbolic and points to an annotated tag
        vec![
            l(format!("{a} HEAD\0symref=HEAD:refs/tags/t\n")),
            l(format!("{b} HEAD^{{}}\n")),
            l(format!("{a} refs/tags/t\n")),
            l(format!("{b} refs/tags/t^{{}}\n")),
        ],
        // the ref a symref capability names is advertised twice (adjacent / with other refs between / three times)
        vec![
            l(format!("{a} HEAD\0multi_ack symref=HEAD:refs/heads/main\n")),
            l(format!("{a} HEAD\n")),
            l(format!("{a} refs/heads/main\n")),
        ],
        vec![
            l(format!("{a} HEAD\0multi_ack symref=HEAD:refs/heads/main\n")),
            l(format!("{a} refs/heads/main\n")),
            l(format!("{b} HEAD\n")),
            l(format!("{c} HEAD\n")),
        ],
        vec![
            l(format!("{a} refs/heads/a\0symref=refs/heads/b:refs/heads/a x\n")),
            l(format!("{b} refs/heads/b\n")),
            l(format!("{c} refs/heads/c\n")),
            l(format!("{b} refs/heads/b\n")),
        ],
        // two capabilities for one name, the name advertised once / twice
        vec![
            l(format!("{a} HEAD\0symref=HEAD:refs/heads/x symref=HEAD:refs/heads/y\n")),
            l(format!("{a} refs/heads/x\n")),
        ],
        vec![
            l(format!("{a} HEAD\0symref=HEAD:refs/heads/x symref=HEAD:refs/heads/y\n")),
            l(format!("{a} HEAD\n")),
            l(format!("{a} HEAD\n")),
        ],
        // a plain ref advertised twice; a tag twice with one peeled line; peeled line far from its tag
        vec![l(format!("{a} refs/heads/x\0agent=x\n")), l(format!("{a} refs/heads/x\n"))],
        vec![
            l(format!("{a} refs/tags/t\0agent=x\n")),
            l(format!("{a} refs/tags/t\n")),
            l(format!("{b} refs/tags/t^{{}}\n")),
            l(format!("{b} refs/tags/t^{{}}\n")),
        ],
        vec![
            l(format!("{a} refs/tags/t\0agent=x\n")),
            l(format!("{c} refs/heads/z\n")),
            l(format!("{b} refs/tags/t^{{}}\n")),
        ],
        // `^{{}}` for the symref'd ref, twice / after a duplicate
        vec![
            l(format!("{a} HEAD\0symref=HEAD:refs/tags/t\n")),
            l(format!("{b} HEAD^{{}}\n")),
            l(format!("{b} HEAD^{{}}\n")),
        ],
        vec![
            l(format!("{a} HEAD\0symref=HEAD:refs/tags/t\n")),
            l(format!("{a} HEAD\n")),
            l(format!("{b} HEAD^{{}}\n")),
        ],
        vec![l(format!("0000000000000000000000000000000000000000 capabilities^{{}}\0agent=x\n"))],
        vec![l(format!("{a} capabilities^{{}}\0agent=x\n"))],
        vec![l(format!("{a} refs/heads/x\0agent=x\n")), l(format!("shallow {b}\n")), l(format!("shallow {c}"))],
        vec![l(format!("{a} refs/heads/x\0agent=x\n")), l("shallow 123\n".to_string())],
        vec![l(format!("{a} refs/heads/x\n"))],
        vec![l(format!("{a} refs/heads/x\0"))],
        vec![l(format!("{a} refs/heads/x\0\n"))],
        vec![l("version 1\n".to_string()), l(format!("{a} refs/heads/x\0agent=x\n"))],
        vec![l("version 3\n".to_string())],
        vec![l("version 10\n".to_string())],
        vec![l(format!("{a} \0agent=x\n"))],
        vec![l(format!("{a}\0agent=x\n"))],
        vec![l(format!("{a}  refs/heads/x\0agent=x\n"))],
        vec![l(format!("{a} refs/heads/nb\u{a0}\0agent=x\n")), l(format!("{b} refs/heads/wide\u{3000}\n")), l(format!("{c} refs/heads/z \t\r\n"))],
        vec![l(format!("{} refs/heads/x\0agent=x\n", a.to_uppercase().replace('1', "A")))],
        vec![l(format!("{a} refs/heads/x\0symref=refs/heads/x:(null)\n")), l(format!("{b} refs/heads/x^{{}}\n"))],
        vec![l(format!("{a} refs/heads/x\0symref=refs/heads/x:(null)\n"))],
        vec![l(format!("{a} refs/heads/x^{{}}\0agent=x\n"))],
        vec![l(format!("{a} refs/heads/x\0agent=x\n")), l(format!("{b} refs/heads/y^{{}}\n"))],
        vec![l(format!("{a} refs/heads/x\0agent=x\n")), l(format!("zz refs/heads/x^{{}}\n"))],
        vec![l("ERR access denied\n".to_string())],
        vec![l(format!("{a} refs/heads/x\0agent=x\n")), l("ERR later\n".to_string())],
    ];
    for lines in &v1 {
        case_v1(rep, lines, "v1:hand");
    }
    let v2: Vec<Vec<Vec<u8>>> = vec![
        vec![],
        vec![l(format!("{a} HEAD symref-target:refs/heads/main\n")), l(format!("{a} refs/heads/main\n"))],
        vec![l("unborn HEAD symref-target:refs/heads/main\n".to_string())],
        vec![l("unborn HEAD\n".to_string())],
        vec![l(format!("unborn HEAD peeled:{a}\n"))],
        vec![l("unborn HEAD symref-target:(null)\n".to_string())],
        vec![l(format!("unborn HEAD symref-target:(null) peeled:{a}\n"))],
        vec![l(format!("{a} refs/tags/t peeled:{b}\n"))],
        vec![l(format!("{a} refs/heads/s symref-target:refs/tags/t peeled:{b}\n"))],
        vec![l(format!("{a} refs/heads/s peeled:{b} symref-target:refs/tags/t\n"))],
        vec![l(format!("{a} refs/heads/s symref-target:(null) peeled:{b}\n"))],
        vec![l(format!("{a} refs/heads/s symref-target:(null)\n"))],
        vec![l(format!("{a} refs/heads/s symref-target:x symref-target:y\n"))],
        vec![l(format!("{a} refs/heads/s peeled:{b} peeled:{c}\n"))],
        vec![l(format!("{a} refs/heads/s peeled:{b} peeled:{c} x\n"))],
        vec![l(format!("{a} refs/heads/s foo:bar\n"))],
        vec![l(format!("{a} refs/heads/s peeled:\n"))],
        vec![l(format!("{a} refs/heads/s peeled\n"))],
        vec![l(format!("{a} refs/heads/s \n"))],
        vec![l(format!("{a} \n"))],
        vec![l(format!("{a}\n"))],
        vec![l(format!("{a}  x\n"))],
        vec![l(format!("{a} refs/heads/nb\u{a0}\n")), l(format!("{b} refs/heads/wide\u{3000}\n")), l(format!("{c} refs/heads/z symref-target:refs/heads/nb\u{a0}\n"))],
        vec![l(format!("{a} refs/heads/s symref-target:a:b\n"))],
        vec![l(format!("{a} refs/heads/s peeled:123\n"))],
        vec![l(format!("{a} refs/heads/s symref-target:x peeled:123\n"))],
        vec![l("ERR nope\n".to_string())],
    ];
    for lines in &v2 {
        case_v2(rep, lines, "v2:hand");
    }
}

fn main() {
    if let Err(msg) = catch(run) {
        eprintln!("c30 harness panicked: {msg}");
        std::process::exit(101);
    }
}

fn run() {
    // the spawned git-upload-pack inherits this process' environment: make it the oracle's
    for (k, _) in std::env::vars_os() {
        if k.to_string_lossy().starts_with("GIT_") {
            std::env::remove_var(k);
        }
    }
    std::env::set_var("GIT_CONFIG_NOSYSTEM", "1");
    std::env::set_var("GIT_CONFIG_GLOBAL", "/dev/null");
    std::env::set_var("LC_ALL", "C");
    // the capability VALUE git lets us choose: bytes that are special elsewhere on the wire
    std::env::set_var("GIT_USER_AGENT", "git/2.39=verif:a,b;c+d%e@f(g)");
    let args = Args::parse();
    let mut rep = Report::new("C30", &args);
    let scratch = Scratch::new("c30");
    std::env::set_var("HOME", &scratch.path);
    if let Some(ops) = replay_ops(&args) {
        for op in ops {
            let a: Vec<&str> = op.split(' ').collect();
            let lines = || -> Option<Vec<Vec<u8>>> { a[1..].iter().map(|h| unhex(h)).collect() };
            match a[0] {
                "scenario" if a.len() == 3 => {
                    let (seed, idx): (u64, u64) = (a[1].parse().unwrap_or(1), a[2].parse().unwrap_or(0));
                    let corpus = corpus_plans();
                    let plan = corpus.into_iter().nth(idx as usize);
                    scenario(&mut rep, &scratch, seed, idx, plan, 2);
                }
                "v1" => {
                    if let Some(l) = lines() {
                        case_v1(&mut rep, &l, "replay");
                    }
                }
                "v2" => {
                    if let Some(l) = lines() {
                        case_v2(&mut rep, &l, "replay");
                    }
                }
                _ => rep.note(&format!("replay: op kind {} needs its scenario; use the `scenario <seed> <idx>` line", a[0])),
            }
        }
        rep.finish();
        return;
    }
    hand_made(&mut rep);
    let corpus = corpus_plans();
    let ncorpus = corpus.len() as u64;
    let mutations = if args.thorough { 6 } else { 4 };
    for (i, plan) in corpus.into_iter().enumerate() {
        scenario(&mut rep, &scratch, args.seed, i as u64, Some(plan), mutations);
    }
    let n = args.budget(14, 110);
    for i in 0..n {
        scenario(&mut rep, &scratch, args.seed, ncorpus + i, None, mutations);
    }
    rep.finish();
}
