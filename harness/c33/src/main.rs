//! C33 — URLs serialize to strings that parse back to the same URL.
//!
//! Operation sent to the Lean driver (`Model/C33.lean`):
//!   parse <input> <utf8?> <k> (<query> none | <query> some <scheme> <username> <password|~> <host|~> <port|~> <path> <cbab>)…
//! i.e. `gix_url::parse(input)` + `to_bstring()`; the table holds the answers of the REAL `url` crate
//! (`url::Url::parse` + the accessors gix-url reads) for the strings gix-url may hand to it, so that the
//! model runs with the same parameter `P`. Observation: the parsed fields and the serialisation.
//! Oracle: parse → to_bstring → parse gives an equal `Url` (and to_bstring does not panic), on the real code.
//! The hypotheses the Lean theorems make about `P` are tested on the real crate for every parsed case.
use bstr::ByteSlice;
use hcommon::*;

fn show(b: &[u8]) -> String {
    b.iter()
        .map(|c| {
            if (0x21..0x7f).contains(c) && !b"\\[]".contains(c) {
                (*c as char).to_string()
            } else {
                format!("\\x{c:02x}")
            }
        })
        .collect()
}

/// short, stable identification of an input for failure keys
fn key_of(input: &[u8]) -> String {
    if input.len() <= 64 {
        format!("input={}", show(input))
    } else {
        let mut h: u64 = 0xcbf29ce484222325;
        for b in input {
            h ^= *b as u64;
            h = h.wrapping_mul(0x100000001b3);
        }
        format!("input={}...(len={} fnv={h:016x})", show(&input[..32]), input.len())
    }
}

/// the MAX_LEN pre-check of `parse::url`, on a string known to contain `://` at `pe`
fn exceeds_max_len(input: &[u8], pe: usize) -> bool {
    let bytes_to_path = input[pe + 3..]
        .iter()
        .filter(|b| !b.is_ascii_whitespace())
        .skip_while(|b| **b == b'/' || **b == b'\\')
        .position(|b| *b == b'/')
        .unwrap_or(input.len() - pe);
    bytes_to_path > 1024 || pe > 1024
}

fn p_answer(q: &[u8]) -> String {
    let parsed = std::str::from_utf8(q).ok().and_then(|s| url::Url::parse(s).ok());
    match parsed {
        None => format!("{} none", hex(q)),
        Some(u) => format!(
            "{} some {} {} {} {} {} {} {}",
            hex(q),
            hex(u.scheme().as_bytes()),
            hex(u.username().as_bytes()),
            u.password().map(|p| hex(p.as_bytes())).unwrap_or_else(|| "~".into()),
            u.host_str().map(|h| hex(h.as_bytes())).unwrap_or_else(|| "~".into()),
            u.port().map(|p| p.to_string()).unwrap_or_else(|| "~".into()),
            hex(u.path().as_bytes()),
            u.cannot_be_a_base() as u8
        ),
    }
}

fn scheme_str(s: &gix_url::Scheme) -> String {
    match s {
        gix_url::Scheme::File => "file".into(),
        gix_url::Scheme::Git => "git".into(),
        gix_url::Scheme::Ssh => "ssh".into(),
        gix_url::Scheme::Http => "http".into(),
        gix_url::Scheme::Https => "https".into(),
        gix_url::Scheme::Ext(n) => format!("ext:{}", hex(n.as_bytes())),
        _ => "other".into(),
    }
}

fn opt(s: Option<&str>) -> String {
    match s {
        None => "~".into(),
        Some(s) => format!("={}", hex(s.as_bytes())),
    }
}

/// is `serialize_alternative_form` set? (private field: observable through the serialisation only)
fn alt_of(u: &gix_url::Url) -> bool {
    let plain = u.clone().serialize_alternate_form(false);
    plain != *u
}

fn err_kind(e: &gix_url::parse::Error) -> &'static str {
    use gix_url::parse::Error as E;
    match e {
        E::Utf8 { .. } => "err:Utf8",
        E::Url { .. } => "err:Url",
        E::TooLong { .. } => "err:TooLong",
        E::MissingRepositoryPath { .. } => "err:MissingRepositoryPath",
        E::RelativeUrl { .. } => "err:RelativeUrl",
    }
}

/// One correspondence case; returns the parsed URL and its serialisation (None if it panicked).
fn do_parse(rep: &mut Report, input: &[u8]) -> Option<(gix_url::Url, Option<Vec<u8>>)> {
    // the strings gix-url may hand to the url crate for this input
    let mut queries: Vec<Vec<u8>> = vec![input.to_vec()];
    if let Some(colon) = input.find_byte(b':') {
        let mut q = b"ssh://".to_vec();
        q.extend_from_slice(&input[..colon]);
        queries.push(q);
    }
    let mut op = format!("parse {} {} {}", hex(input), std::str::from_utf8(input).is_ok() as u8, queries.len());
    for q in &queries {
        op.push(' ');
        op.push_str(&p_answer(q));
    }
    let inp = input.to_vec();
    let r = catch(move || gix_url::parse(inp.as_bstr()));
    let (obs, out) = match r {
        Err(msg) => {
            rep.oracle_failure(&format!("parse-panic {}", key_of(input)), &msg, &op);
            ("panic".to_string(), None)
        }
        Ok(Err(e)) => (err_kind(&e).to_string(), None),
        Ok(Ok(u)) => {
            let u2 = u.clone();
            let w = catch(move || u2.to_bstring().to_vec()).ok();
            let obs = format!(
                "ok {} {} {} {} {} {} {} W {}",
                alt_of(&u) as u8,
                scheme_str(&u.scheme),
                opt(u.user()),
                opt(u.password()),
                opt(u.host()),
                u.port.map(|p| p.to_string()).unwrap_or_else(|| "~".into()),
                hex(&u.path),
                match &w {
                    None => "panic".to_string(),
                    Some(b) => hex(b),
                }
            );
            (obs, Some((u, w)))
        }
    };
    rep.case(&op, &obs, out.is_some());
    out
}

fn class_of(input: &[u8]) -> &'static str {
    if let Some(pe) = input.find("://") {
        if input[..pe].eq_ignore_ascii_case(b"file") {
            "file-url"
        } else {
            "url"
        }
    } else if let Some(colon) = input.find_byte(b':') {
        if input[..colon].contains(&b'/') {
            "local"
        } else {
            "scp"
        }
    } else {
        "local"
    }
}

/// The assumed contract of the `url` crate (the named hypotheses of Lemmas/C33.lean), tested on the real
/// crate for this case. A violation is reported as outside the theorems' domain (it is a fact about the
/// external crate), the round-trip oracle below judges gitoxide independently.
fn check_hypotheses(rep: &mut Report, input: &[u8], u: &gix_url::Url, written: &[u8]) {
    let class = class_of(input);
    if class != "url" && class != "scp" {
        return;
    }
    let bad = |s: Option<&str>, set: &[u8]| s.map_or(false, |s| s.bytes().any(|b| set.contains(&b)));
    // P_fields_clean: user, password and host never contain the separators write_to relies on
    if bad(u.user(), b":/@") || bad(u.password(), b"/@") {
        rep.outside_domain(&format!("hypothesis P_fields_clean does not hold (user/password contain a separator) for {}", show(input)));
        rep.bucket("hyp:fields-clean-violated");
    }
    // cred_host: credentials come with a host
    if u.user().is_some() && u.host().is_none() {
        rep.outside_domain(&format!("hypothesis cred_host does not hold for {}", show(input)));
        rep.bucket("hyp:cred-host-violated");
    }
    // scp_shape: `ssh://` + a host part without `:` gives scheme ssh, no port, no password, clean user and host
    if class == "scp" {
        let colon = input.find_byte(b':').unwrap_or(0);
        if let Ok(h) = std::str::from_utf8(&input[..colon]) {
            if let Ok(p) = url::Url::parse(&format!("ssh://{h}")) {
                let clean = |s: &str| !s.bytes().any(|b| b == b':' || b == b'/');
                if p.scheme() != "ssh" || p.port().is_some() || p.password().is_some() || !clean(p.username()) || !p.host_str().map_or(true, clean) {
                    rep.outside_domain(&format!("hypothesis scp_shape does not hold for {}", show(input)));
                    rep.bucket("hyp:scp-shape-violated");
                }
            }
        }
    }
    // render_url / render_scp: parsing gix-url's own serialisation gives the same fields back
    if let Ok(s) = std::str::from_utf8(written) {
        let q: String = if class == "scp" {
            let colon = s.find(':').unwrap_or(s.len());
            format!("ssh://{}", &s[..colon])
        } else {
            s.to_string()
        };
        match url::Url::parse(&q) {
            Ok(p) => {
                let same = p.host_str() == u.host() && p.port() == u.port && p.password() == u.password() && (class == "scp" || p.path().as_bytes() == u.path.as_slice());
                if !same {
                    rep.outside_domain(&format!("hypothesis P_render does not hold for {}", show(input)));
                    rep.bucket("hyp:render-violated");
                } else {
                    rep.bucket("hyp:ok");
                }
            }
            Err(_) => {
                rep.outside_domain(&format!("hypothesis P_render does not hold (own serialisation rejected by the url crate) for {}", show(input)));
                rep.bucket("hyp:render-violated");
            }
        }
    }
}

fn do_roundtrip(rep: &mut Report, input: &[u8], witness: bool) {
    let class = class_of(input);
    let Some((u, w)) = do_parse(rep, input) else {
        rep.bucket(&format!("{class}:rejected"));
        return;
    };
    rep.bucket(&format!("{class}:parsed"));
    rep.oracle_checked();
    let op = format!("parse {}", hex(input));
    let Some(w) = w else {
        rep.oracle_failure(&format!("to-bstring-panic {}", key_of(input)), "Url::to_bstring() panics on a URL that gix_url::parse produced", &op);
        return;
    };
    check_hypotheses(rep, input, &u, &w);
    // known finding (one witness in the corpus): percent-encoding by the url crate can push the authority of
    // the serialisation over the MAX_LEN guard of parse::url although the input passed it
    if !witness && class == "url" {
        if let Some(pe) = w.find("://") {
            if exceeds_max_len(&w, pe) {
                rep.bucket("url:known-class:serialisation-exceeds-MAX_LEN");
                rep.outside_domain(&format!("known class: the serialisation exceeds MAX_LEN for {}", key_of(input)));
                let _ = do_parse(rep, &w);
                return;
            }
        }
    }
    match do_parse(rep, &w) {
        Some((u2, _)) if u2 == u => {}
        Some((u2, _)) => rep.oracle_failure(
            &format!("roundtrip-differs {}", key_of(input)),
            &format!("parse({:?}) = {:?}; to_bstring = {:?}; parsing that gives {:?}", show(input), u, show(&w), u2),
            &op,
        ),
        None => rep.oracle_failure(
            &format!("roundtrip-rejected {}", key_of(input)),
            &format!("parse({:?}) = {:?}; to_bstring = {:?} is rejected by parse ({})", show(input), u, show(&w), match gix_url::parse(w.as_bstr()) {
                Err(e) => err_kind(&e).to_string(),
                Ok(_) => "?".into(),
            }),
            &op,
        ),
    }
}

const SCHEMES: &[&str] = &["ssh", "git", "http", "https", "file", "ext", "ssh+git", "git+ssh", "FILE", "Http", "SSH", "rad", "File", "ftp", "x-y.z", ""];
const USERS: &[&str] = &["", "user", "git", "us er", "us:er", "us@er", "üser", "us%20er", "-oProxy", "a/b", "u\ts", "USER", "a;b=c", "[u]"];
const PASSWORDS: &[&str] = &["", "pw", "p w", "p:w", "p@w", "p/w", "%41", "ü"];
const HOSTS: &[&str] = &[
    "host", "host.xy", "HOST.XY", "[::1]", "[fe80::1%25eth0]", "127.0.0.1", "", "ho st", "hö.st", "xn--hst-sna.st", "h%41st", "ho\tst", "a.b.c", "x", "-host",
    "host.", "1.2.3", "0x7f.1", "ho^st", "ho|st", "[::1", "h[o]st",
];
const PORTS: &[&str] = &["", "22", "80", "443", "0", "65535", "65536", "9418", "x", "022", " 22"];
const PATHS: &[&str] = &[
    "", "/", "/repo", "/re po", "/a/b.git", "/~user/x", "//double", "/a%20b", "/a%2Fb", "/ä", "/a?q=1", "/a#frag", "/a?q#f", "/a:b", "/a://b", "/a\\b", "/.", "/..",
    "/a/../b", "/a/./b", "/%", "/%zz", "/a\tb", "/a\nb", "/ ", "/a;b", "/C:/x", "/c|/x", "/a@b", "/[x]", "/{x}", "/a^b", "/a`b", "/\"q\"", "/<x>",
];
const SCP_PATHS: &[&str] = &[
    "repo", "/abs/repo", "~/repo", "~user/repo", "a:b", "a b", "ä", "re\tpo", "", ".", "..", "a/../b", "a//b", "/", "a%20b", "a?b#c", "a@b", "-x", "a\\b", "a://b",
];
const LOCALS: &[&str] = &[
    "/abs/path", "rel/path", "./a:b", "../x", ".", "/", "a", "", "/a b", "/ä", "C:/x", "./C:/x", "/a:b/c", "a/b:c", "/path/with://inside", "~", "~/x", "/\u{0}x", " ", "\t",
    "./-x", "a\\b", "/a?b#c", "/a%20b",
];

const BASE_SCHEMES: &[&str] = &["http", "https", "ssh", "git", "file", "ftp", "ftps"];

/// every spelling of a scheme for which an alias in `Scheme::from` is plausible: `s`, `git+s`, `s+git`,
/// `ssh+git`, `git+ssh`, `svn+ssh` for each known scheme `s`
fn scheme_variants() -> Vec<String> {
    let mut v: Vec<String> = Vec::new();
    for s in BASE_SCHEMES {
        for x in [s.to_string(), format!("git+{s}"), format!("{s}+git"), format!("svn+{s}"), format!("{s}+ssh")] {
            if !v.contains(&x) {
                v.push(x);
            }
        }
    }
    for x in ["ssh+git", "git+ssh", "svn+ssh"] {
        if !v.iter().any(|y| y == x) {
            v.push(x.to_string());
        }
    }
    v
}

fn respell(s: &str, how: u64) -> String {
    match how % 4 {
        0 => s.to_string(),
        1 => s.to_ascii_uppercase(),
        2 => {
            let mut c = s.chars();
            match c.next() {
                Some(f) => f.to_ascii_uppercase().to_string() + c.as_str(),
                None => String::new(),
            }
        }
        _ => s.chars().enumerate().map(|(i, c)| if i % 2 == 1 { c.to_ascii_uppercase() } else { c }).collect(),
    }
}

fn gen_scheme(r: &mut Rng) -> String {
    if r.chance(1, 2) {
        r.pick(SCHEMES).to_string()
    } else {
        let v = scheme_variants();
        let how = r.below(4);
        respell(r.pick(&v[..]).as_str(), how)
    }
}

fn gen_url_form(r: &mut Rng) -> Vec<u8> {
    let mut s = String::new();
    s.push_str(&gen_scheme(r));
    s.push_str(if r.chance(29, 30) { "://" } else { ":/" });
    let user = *r.pick(USERS);
    let pw = *r.pick(PASSWORDS);
    match r.below(6) {
        0 | 1 => {}
        2 | 3 => {
            s.push_str(user);
            s.push('@');
        }
        4 => {
            s.push_str(user);
            s.push(':');
            s.push_str(pw);
            s.push('@');
        }
        _ => {
            s.push(':');
            s.push_str(pw);
            s.push('@');
        }
    }
    if r.chance(1, 40) {
        // long authority: the MAX_LEN check
        let n = *r.pick(&[300usize, 340, 341, 342, 511, 512, 513, 1020, 1024, 1025, 1030]);
        let unit = *r.pick(&["a", "é", "%41", " "]);
        for _ in 0..n / unit.len().max(1) {
            s.push_str(unit);
        }
        if r.chance(1, 2) {
            s.push('@');
        }
    }
    s.push_str(*r.pick(HOSTS));
    let port = *r.pick(PORTS);
    if r.chance(1, 3) {
        s.push(':');
        s.push_str(port);
    }
    s.push_str(*r.pick(PATHS));
    if r.chance(1, 12) {
        s.push_str(*r.pick(PATHS));
    }
    s.into_bytes()
}

fn gen_scp_form(r: &mut Rng) -> Vec<u8> {
    let mut s = String::new();
    if r.chance(1, 2) {
        s.push_str(*r.pick(USERS));
        s.push('@');
    }
    s.push_str(*r.pick(HOSTS));
    s.push(':');
    s.push_str(*r.pick(SCP_PATHS));
    s.into_bytes()
}

fn gen_input(r: &mut Rng) -> Vec<u8> {
    let mut v = match r.below(20) {
        0..=8 => gen_url_form(r),
        9..=13 => gen_scp_form(r),
        14..=16 => r.pick(LOCALS).as_bytes().to_vec(),
        17 => {
            // file URLs
            let mut s = String::from(*r.pick(&["file://", "FILE://", "File://", "file:/", "file:"]));
            s.push_str(*r.pick(&["", "host", "/", "ho st", "x:", "user@host", "host:22"]));
            s.push_str(*r.pick(PATHS));
            s.into_bytes()
        }
        18 => r.over(b"ab:/@.[]%? \t~-\\#", 10),
        _ => {
            let n = r.usize(10);
            r.bytes(n)
        }
    };
    if r.chance(1, 25) && !v.is_empty() {
        // malformed stream: splice in a raw byte
        let p = r.usize(v.len());
        v[p] = *r.pick(&[0xffu8, 0x00, 0x80, b'\n', b' ', b':', b'/', b'@']);
    }
    if r.chance(1, 40) {
        v.insert(0, *r.pick(b" \t\n"));
    }
    if r.chance(1, 40) {
        v.push(*r.pick(b" \t\n"));
    }
    v
}

fn main() {
    let args = Args::parse();
    let mut rep = Report::new("C33", &args);
    let mut r = Rng::new(args.seed);
    if let Some(ops) = replay_ops(&args) {
        for op in ops {
            let a: Vec<&str> = op.split(' ').collect();
            if a[0] == "parse" && a.len() >= 2 {
                if let Some(input) = unhex(a[1]) {
                    do_roundtrip(&mut rep, &input, true);
                }
            }
        }
        rep.finish();
        return;
    }
    // ---- corpus: the documented forms and the boundary cases of every branch ---------------------------
    for s in [
        "ssh://user@host.xy:2222/repo", "ssh://host.xy/~user/repo", "git://host/repo", "https://user:pw@host/repo.git", "http://host:80/x", "https://host:443/x",
        "http://host:8080/x", "file:///abs/repo", "file://host/abs/repo", "FILE:///abs", "file://", "file://host", "ext::sh -c x", "ext://host/x", "ext://host",
        "ssh+git://host/x", "git+ssh://host/x", "ssh://host", "ssh://host/", "git://host", "user@host.xy:repo", "host.xy:repo", "host:/abs", "host:~user/x", "@host:x",
        "user@:x", ":x", "host:", "[::1]:repo", "ssh://[::1]/repo", "ssh://[::1]:22/repo", "/abs/path", "rel/path", "./a:b", "a:b", "a/b:c", "", "ssh://user@/x",
        "ssh://:pw@host/x", "ssh://@host/x", "ssh://us er@ho st/x", "ssh://host/a b", "ssh://host/a?b#c", "https://HOST/Path", "ssh://HOST/Path", "user@HOST:Path",
        "a://b", "://x", "x://", "ssh:///x", "ssh:////x", "http:///x", "http:/\\host/x", "ssh://host\\x/y", "ssh://ho\tst/x", " ssh://host/x", "ssh://host/x ",
        "ssh://host:65536/x", "ssh://host:x/x", "us:er@host:path", "user@ho:st:path", "ho st:path", "hö.st:path", "üser@host:path", "ssh://üser@hö.st/ä",
        "mailto:x@y", "data:text/plain,x", "ssh://host/%2e%2e/x", "ssh://host/a/../b",
    ] {
        do_roundtrip(&mut rep, s.as_bytes(), false);
    }
    // every scheme spelling x the things the url crate normalises for its "special" schemes only: upper-case
    // hosts, default ports, empty paths, trailing dots — an alias to or from a special scheme breaks the round trip
    for scheme in scheme_variants() {
        for how in 0..4u64 {
            let sch = respell(&scheme, how);
            for host in ["HOST.XY", "host.", "Host", "h"] {
                for port in ["", ":80", ":443", ":22", ":9418", ":21"] {
                    for path in ["", "/", "/Repo"] {
                        do_roundtrip(&mut rep, format!("{sch}://{host}{port}{path}").as_bytes(), false);
                    }
                }
            }
            do_roundtrip(&mut rep, format!("{sch}://User:Pw@HOST.XY:443").as_bytes(), false);
        }
    }
    for n in [340usize, 341, 342, 1023, 1024, 1025] {
        for unit in ["a", "é", " "] {
            let user: String = unit.repeat(n / unit.len());
            do_roundtrip(&mut rep, format!("ssh://{user}@host/x").as_bytes(), false);
            do_roundtrip(&mut rep, format!("ssh://{user}/x").as_bytes(), false);
        }
    }
    do_roundtrip(&mut rep, b"ssh://host/\xff", false);
    do_roundtrip(&mut rep, b"host:\xff", false);
    do_roundtrip(&mut rep, b"/local/\xff", false);
    do_roundtrip(&mut rep, b"file:///\xff", false);
    // the witness of the known finding: 342 x "é" as user is 684 bytes, its percent-encoding 2052
    do_roundtrip(&mut rep, format!("ssh://{}@host/x", "é".repeat(342)).as_bytes(), true);
    // ---- random ------------------------------------------------------------------------------------------
    let n = args.budget(20_000, 400_000);
    for _ in 0..n {
        let input = gen_input(&mut r);
        do_roundtrip(&mut rep, &input, false);
    }
    rep.finish();
}
