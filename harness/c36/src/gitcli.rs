//! The git 2.39.5 binary as oracle for wildmatch, in batches.
//!
//! * `attr_facts`: ONE `git check-attr --stdin -a` process per case mode decides N patterns × M
//!   paths: every pattern is a `.gitattributes` line setting its own attribute. git's attr.c uses
//!   dir.c's `match_basename` / `match_pathname`, i.e. (after comparing the glob-free prefix
//!   literally) `wildmatch(rest-of-pattern, rest-of-path, WM_PATHNAME | casefold)`.
//! * `ls_facts`: one `git ls-files -- <pathspec>` per pattern and mode against an index holding
//!   the texts; pathspecs reach all four flag combinations (`:(glob)` ⇒ WM_PATHNAME, `:(icase)` ⇒
//!   WM_CASEFOLD), again on the rest behind the glob-free prefix.
//!
//! A *fact* is `(mode, pattern, text, git's answer)` at the level of the wildmatch() call git made.
use hcommon::*;
use std::collections::{BTreeMap, BTreeSet};
use std::os::unix::ffi::OsStrExt;

pub struct Fact {
    pub m: u8,
    pub pat: Vec<u8>,
    pub text: Vec<u8>,
    pub git_says: bool,
    pub via: String,
}

pub fn is_glob_special(c: u8) -> bool {
    matches!(c, b'*' | b'?' | b'[' | b'\\')
}

pub fn run_with_stdin(mut c: std::process::Command, input: &[u8]) -> (bool, Vec<u8>, Vec<u8>) {
    use std::io::Write;
    use std::process::Stdio;
    c.stdin(Stdio::piped()).stdout(Stdio::piped()).stderr(Stdio::piped());
    let mut child = c.spawn().expect("spawn git");
    let mut si = child.stdin.take().unwrap();
    let data = input.to_vec();
    let th = std::thread::spawn(move || {
        let _ = si.write_all(&data);
    });
    let out = child.wait_with_output().expect("wait");
    let _ = th.join();
    (out.status.success(), out.stdout, out.stderr)
}

/// valid repository-relative paths only: no empty / `.` / `..` / `.git` components, no NUL
pub fn valid_path(t: &[u8]) -> bool {
    !t.is_empty()
        && !t.contains(&0)
        && t.split(|c| *c == b'/')
            .all(|c| !c.is_empty() && c != b"." && c != b".." && !c.eq_ignore_ascii_case(b".git"))
}

fn c_quote(p: &[u8]) -> Vec<u8> {
    let mut o = vec![b'"'];
    for b in p {
        o.extend_from_slice(format!("\\{:03o}", b).as_bytes());
    }
    o.push(b'"');
    o
}

/// a pattern that can be written as an attribute line without meaning something else
pub fn attr_safe(p: &[u8]) -> bool {
    !p.is_empty()
        && !p.contains(&0)
        && !p.contains(&b'\n')
        && !p.contains(&b'\r')
        && p[0] != b'!'
        && !p.starts_with(b"[attr]")
        && p.len() < 1000
}

fn eq_case(a: &[u8], b: &[u8], icase: bool) -> bool {
    if icase {
        a.eq_ignore_ascii_case(b)
    } else {
        a == b
    }
}

/// What git's dir.c makes of one (pattern, path) pair before calling wildmatch().
/// `None`: git decides without wildmatch (or the pattern can never match a file) — no fact.
fn dirc_call(p: &[u8], name: &[u8], icase: bool) -> Option<(u8, Vec<u8>, Vec<u8>)> {
    let mut pat = p;
    if pat.last() == Some(&b'/') {
        return None; // MUSTBEDIR: never matches the plain files we ask about
    }
    let nodir = !pat.contains(&b'/');
    let mut n = pat.iter().position(|c| is_glob_special(*c)).unwrap_or(pat.len());
    if n == pat.len() {
        return None; // no wildcard: plain comparison
    }
    let ic = if icase { 2 } else { 0 };
    if nodir {
        if pat[0] == b'*' && !pat[1..].iter().any(|c| is_glob_special(*c)) {
            return None; // ENDSWITH shortcut
        }
        let base = name.rsplit(|c| *c == b'/').next().unwrap();
        return Some((ic, pat.to_vec(), base.to_vec()));
    }
    if pat[0] == b'/' {
        pat = &pat[1..];
        n = n.saturating_sub(1);
        if pat.is_empty() {
            return None;
        }
    }
    if n > name.len() || !eq_case(&pat[..n], &name[..n], icase) {
        return None;
    }
    Some((1 | ic, pat[n..].to_vec(), name[n..].to_vec()))
}

/// N patterns × M paths through one `git check-attr` per case mode.
pub fn attr_facts(patterns: &[Vec<u8>], texts: &[Vec<u8>], rep: &mut Report) -> Vec<Fact> {
    let scratch = Scratch::new("c36a");
    git_ok(&scratch.path, &["init", "-q", "."], None);
    let pats: Vec<&Vec<u8>> = patterns.iter().filter(|p| attr_safe(p)).collect();
    let texts: Vec<&Vec<u8>> = texts.iter().filter(|t| valid_path(t) && !t.contains(&b'\n')).collect();
    let mut file = Vec::new();
    for (k, p) in pats.iter().enumerate() {
        file.extend_from_slice(&c_quote(p));
        file.extend_from_slice(format!(" p{k}\n").as_bytes());
    }
    std::fs::write(scratch.join(".gitattributes"), &file).expect("write .gitattributes");
    let mut stdin = Vec::new();
    for t in &texts {
        stdin.extend_from_slice(t);
        stdin.push(0);
    }
    let mut facts = Vec::new();
    for icase in [false, true] {
        let mut c = git_cmd(&scratch.path);
        c.args(["-c", if icase { "core.ignorecase=true" } else { "core.ignorecase=false" }]);
        c.args(["check-attr", "--stdin", "-z", "-a"]);
        let (ok, out, err) = run_with_stdin(c, &stdin);
        if !ok {
            rep.note(&format!("git check-attr failed: {}", String::from_utf8_lossy(&err)));
            continue;
        }
        let mut set: BTreeMap<Vec<u8>, BTreeSet<usize>> = BTreeMap::new();
        let fields: Vec<&[u8]> = out.split(|c| *c == 0).collect();
        for tr in fields.chunks(3) {
            if let [path, attr, _info] = tr {
                if let Some(k) = std::str::from_utf8(attr).ok().and_then(|a| a.strip_prefix('p')).and_then(|k| k.parse::<usize>().ok()) {
                    set.entry(path.to_vec()).or_default().insert(k);
                }
            }
        }
        for t in &texts {
            let hit = set.get(*t);
            for (k, p) in pats.iter().enumerate() {
                let git_says = hit.map_or(false, |h| h.contains(&k));
                match dirc_call(p, t, icase) {
                    Some((m, pat, text)) => facts.push(Fact {
                        m,
                        pat,
                        text,
                        git_says,
                        via: format!("git check-attr: attribute pattern {:?} on path {:?} ignorecase={icase}", lossy(p), lossy(t)),
                    }),
                    None => rep.bucket("git:attr-decided-without-wildmatch"),
                }
            }
        }
    }
    facts
}

pub fn lossy(b: &[u8]) -> String {
    String::from_utf8_lossy(b).replace('\t', "\\t").replace('\n', "\\n").replace('\r', "\\r")
}

/// may this pattern be handed to git as a pathspec without git normalising it away?
pub fn pathspec_safe(p: &[u8]) -> bool {
    !p.is_empty()
        && !p.contains(&0)
        && p[0] != b'/'
        && !p.windows(2).any(|w| w == b"//")
        && !p.contains(&b'.')
        && p.iter().any(|c| is_glob_special(*c))
}

/// one `git ls-files` per (pattern, mode); `modes` ⊆ 0..4
pub fn ls_facts(patterns: &[Vec<u8>], texts: &[Vec<u8>], modes: &[u8], rep: &mut Report) -> Vec<Fact> {
    let scratch = Scratch::new("c36l");
    git_ok(&scratch.path, &["init", "-q", "."], None);
    let blob = git_ok(&scratch.path, &["hash-object", "-w", "--stdin"], Some(b""));
    // one conflict-free index: no path is a leading directory of another, none equal ignoring case
    let mut names: Vec<Vec<u8>> = Vec::new();
    for t in texts.iter().filter(|t| valid_path(t)) {
        let conflict = names.iter().any(|o| {
            let (a, b) = if o.len() < t.len() { (o, t) } else { (t, o) };
            (b.len() > a.len() && b[a.len()] == b'/' && b[..a.len()].eq_ignore_ascii_case(a)) || a.eq_ignore_ascii_case(b)
        });
        if !conflict {
            names.push(t.clone());
        }
    }
    let mut input = Vec::new();
    for t in &names {
        input.extend_from_slice(format!("100644 {blob} 0\t").as_bytes());
        input.extend_from_slice(t);
        input.push(0);
    }
    let mut c = git_cmd(&scratch.path);
    c.args(["update-index", "-z", "--index-info"]);
    let out = run_with_stdin(c, &input);
    assert!(out.0, "update-index: {}", String::from_utf8_lossy(&out.2));
    let mut c = git_cmd(&scratch.path);
    c.args(["ls-files", "-z"]);
    let out = run_with_stdin(c, b"");
    let listed = out.1.split(|c| *c == 0).filter(|s| !s.is_empty()).count();
    assert_eq!(listed, names.len(), "the index holds every text");
    rep.note(&format!("git ls-files pool: {} paths", names.len()));

    let pats: Vec<&Vec<u8>> = patterns.iter().filter(|p| pathspec_safe(p)).collect();
    let jobs: Vec<(usize, u8)> = (0..pats.len()).flat_map(|i| modes.iter().map(move |m| (i, *m))).collect();
    let ls = |m: u8, pattern: &[u8]| -> Option<BTreeSet<Vec<u8>>> {
        let magic: &[u8] = match m {
            0 => b":(top)",
            1 => b":(top,glob)",
            2 => b":(top,icase)",
            _ => b":(top,glob,icase)",
        };
        let mut spec = magic.to_vec();
        spec.extend_from_slice(pattern);
        let mut c = git_cmd(&scratch.path);
        c.args(["ls-files", "-z", "--"]);
        c.arg(std::ffi::OsStr::from_bytes(&spec));
        let out = run_with_stdin(c, b"");
        if !out.0 {
            return None;
        }
        Some(out.1.split(|c| *c == 0).filter(|s| !s.is_empty()).map(|n| n.to_vec()).collect())
    };
    let mut answers: Vec<Option<BTreeSet<Vec<u8>>>> = Vec::with_capacity(jobs.len());
    let nthreads = 8usize;
    let chunk = (jobs.len() + nthreads - 1) / nthreads;
    if chunk > 0 {
        std::thread::scope(|s| {
            let hs: Vec<_> = jobs
                .chunks(chunk)
                .map(|js| {
                    let pats = &pats;
                    let ls = &ls;
                    s.spawn(move || js.iter().map(|(i, m)| ls(*m, pats[*i])).collect::<Vec<_>>())
                })
                .collect();
            for h in hs {
                answers.extend(h.join().expect("git worker"));
            }
        });
    }
    let mut facts = Vec::new();
    for ((i, m), listed) in jobs.iter().zip(answers) {
        let p = pats[*i];
        let Some(listed) = listed else {
            rep.bucket("git:pathspec-rejected");
            continue;
        };
        let n = p.iter().position(|c| is_glob_special(*c)).unwrap();
        let (lit, rest) = p.split_at(n);
        let icase = m & 2 != 0;
        for name in &names {
            if name.len() < n || !eq_case(&name[..n], lit, icase) {
                if listed.contains(name) {
                    rep.note(&format!("git lists {:?} for pathspec {:?} although the literal prefix differs", lossy(name), lossy(p)));
                }
                continue;
            }
            // exact / leading-directory matches are decided by git before wildmatch is asked
            let full_eq = name.len() >= p.len() && eq_case(&name[..p.len()], p, icase);
            if full_eq && (name.len() == p.len() || p[p.len() - 1] == b'/' || name[p.len()] == b'/') {
                rep.bucket("git:ls-decided-before-wildmatch");
                continue;
            }
            facts.push(Fact {
                m: *m,
                pat: rest.to_vec(),
                text: name[n..].to_vec(),
                git_says: listed.contains(name),
                via: format!("git ls-files: pathspec {:?} (mode {m}) on path {:?}", lossy(p), lossy(name)),
            });
        }
    }
    facts
}
