//! A line-by-line Rust port of git 2.39's `wildmatch.c` (`dowild`), working on NUL-free byte
//! strings with an implicit NUL terminator — the second, independent transcription of git's rule.
//! It is validated on every run (a) against the Lean `Spec.dowild` through the correspondence
//! stream (`spec` ops) and (b) against the `git` binary for the sub-language reachable from the CLI.
//! git's `sane_ctype` classes are used (isspace = SP,HT,LF,CR; isblank = SP,HT).

pub const WM_CASEFOLD: u32 = 1;
pub const WM_PATHNAME: u32 = 2;

#[derive(Debug, Clone, Copy, PartialEq, Eq)]
pub enum Wm {
    Match,
    NoMatch,
    AbortAll,
    AbortToStarStar,
}

impl Wm {
    pub fn name(self) -> &'static str {
        match self {
            Wm::Match => "match",
            Wm::NoMatch => "nomatch",
            Wm::AbortAll => "abortall",
            Wm::AbortToStarStar => "aborttostarstar",
        }
    }
}

fn at(s: &[u8], i: usize) -> u8 {
    s.get(i).copied().unwrap_or(0)
}
fn isupper(c: u8) -> bool {
    c.is_ascii_uppercase()
}
fn islower(c: u8) -> bool {
    c.is_ascii_lowercase()
}
fn isspace(c: u8) -> bool {
    c == b' ' || c == b'\t' || c == b'\n' || c == b'\r'
}
fn isblank(c: u8) -> bool {
    c == b' ' || c == b'\t'
}
fn isprint(c: u8) -> bool {
    (0x20..=0x7e).contains(&c)
}
fn iscntrl(c: u8) -> bool {
    c < 0x20 || c == 0x7f
}
fn ispunct(c: u8) -> bool {
    isprint(c) && c != b' ' && !c.is_ascii_alphanumeric()
}
fn is_glob_special(c: u8) -> bool {
    c == b'*' || c == b'?' || c == b'[' || c == b'\\'
}
fn strchr(s: &[u8], from: usize, c: u8) -> Option<usize> {
    (from..s.len()).find(|i| s[*i] == c)
}

/// `dowild(p, text, flags)`; `p`/`text` are the strings of this invocation (index 0 = `pattern`).
pub fn dowild(pat: &[u8], txt: &[u8], flags: u32) -> Wm {
    dowild_x(pat, txt, flags, false)
}

/// With `gix_fold`, the one deliberate deviation of gitoxide is switched on (its own test-suite
/// marks it `git-inconsistency`): under WM_CASEFOLD *every* pattern byte is lowered before it is
/// looked at — also escaped ones and bracket members — and a range additionally matches when the
/// upper-cased text byte lies between the upper-cased bounds in either order. Used only to tell
/// the known deviation apart from new failures.
pub fn dowild_x(pat: &[u8], txt: &[u8], flags: u32, gix_fold: bool) -> Wm {
    let fold = gix_fold && flags & WM_CASEFOLD != 0;
    let lowered: Vec<u8>;
    let raw = pat;
    let pat: &[u8] = if fold {
        lowered = pat.to_ascii_lowercase();
        &lowered
    } else {
        pat
    };
    let mut p = 0usize;
    let mut text = 0usize;
    loop {
        let mut p_ch = at(pat, p);
        if p_ch == 0 {
            break;
        }
        let mut t_ch = at(txt, text);
        if t_ch == 0 && p_ch != b'*' {
            return Wm::AbortAll;
        }
        if flags & WM_CASEFOLD != 0 && isupper(t_ch) {
            t_ch = t_ch.to_ascii_lowercase();
        }
        if flags & WM_CASEFOLD != 0 && isupper(p_ch) {
            p_ch = p_ch.to_ascii_lowercase();
        }
        match p_ch {
            b'?' => {
                if flags & WM_PATHNAME != 0 && t_ch == b'/' {
                    return Wm::NoMatch;
                }
            }
            b'*' => {
                let match_slash;
                p += 1;
                if at(pat, p) == b'*' {
                    // prev_p = p - 2 (the char before the first star), `prev_p < pattern` iff p < 2
                    let prev_is_start_or_slash = p < 2 || at(pat, p - 2) == b'/';
                    loop {
                        p += 1;
                        if at(pat, p) != b'*' {
                            break;
                        }
                    }
                    if flags & WM_PATHNAME == 0 {
                        match_slash = true;
                    } else if prev_is_start_or_slash
                        && (at(pat, p) == 0 || at(pat, p) == b'/' || (at(pat, p) == b'\\' && at(pat, p + 1) == b'/'))
                    {
                        if at(pat, p) == b'/' && dowild_x(&raw[p + 1..], &txt[text.min(txt.len())..], flags, gix_fold) == Wm::Match {
                            return Wm::Match;
                        }
                        match_slash = true;
                    } else {
                        match_slash = false;
                    }
                } else {
                    match_slash = flags & WM_PATHNAME == 0;
                }
                if at(pat, p) == 0 {
                    if !match_slash && strchr(txt, text, b'/').is_some() {
                        return Wm::NoMatch;
                    }
                    return Wm::Match;
                } else if !match_slash && at(pat, p) == b'/' {
                    match strchr(txt, text, b'/') {
                        None => return Wm::NoMatch,
                        Some(s) => text = s,
                    }
                    // the slash is consumed by the top-level for loop
                    text += 1;
                    p += 1;
                    continue;
                }
                loop {
                    if t_ch == 0 {
                        break;
                    }
                    if !is_glob_special(at(pat, p)) {
                        p_ch = at(pat, p);
                        if flags & WM_CASEFOLD != 0 && isupper(p_ch) {
                            p_ch = p_ch.to_ascii_lowercase();
                        }
                        loop {
                            t_ch = at(txt, text);
                            if !(t_ch != 0 && (match_slash || t_ch != b'/')) {
                                break;
                            }
                            if flags & WM_CASEFOLD != 0 && isupper(t_ch) {
                                t_ch = t_ch.to_ascii_lowercase();
                            }
                            if t_ch == p_ch {
                                break;
                            }
                            text += 1;
                        }
                        if t_ch != p_ch {
                            return Wm::NoMatch;
                        }
                    }
                    let matched = dowild_x(&raw[p..], &txt[text.min(txt.len())..], flags, gix_fold);
                    if matched != Wm::NoMatch {
                        if !match_slash || matched != Wm::AbortToStarStar {
                            return matched;
                        }
                    } else if !match_slash && t_ch == b'/' {
                        return Wm::AbortToStarStar;
                    }
                    text += 1;
                    t_ch = at(txt, text);
                }
                return Wm::AbortAll;
            }
            b'[' => {
                p += 1;
                p_ch = at(pat, p);
                if p_ch == b'^' {
                    p_ch = b'!';
                }
                let negated = p_ch == b'!';
                if negated {
                    p += 1;
                    p_ch = at(pat, p);
                }
                let mut prev_ch = 0u8;
                let mut matched = false;
                loop {
                    // do { … } while (prev_ch = p_ch, (p_ch = *++p) != ']');
                    let mut skip_tail = false; // `continue` inside the do-while body jumps to the condition
                    if p_ch == 0 {
                        return Wm::AbortAll;
                    }
                    if p_ch == b'\\' {
                        p += 1;
                        p_ch = at(pat, p);
                        if p_ch == 0 {
                            return Wm::AbortAll;
                        }
                        if t_ch == p_ch {
                            matched = true;
                        }
                    } else if p_ch == b'-' && prev_ch != 0 && at(pat, p + 1) != 0 && at(pat, p + 1) != b']' {
                        p += 1;
                        p_ch = at(pat, p);
                        if p_ch == b'\\' {
                            p += 1;
                            p_ch = at(pat, p);
                            if p_ch == 0 {
                                return Wm::AbortAll;
                            }
                        }
                        if t_ch <= p_ch && t_ch >= prev_ch {
                            matched = true;
                        } else if flags & WM_CASEFOLD != 0 && islower(t_ch) {
                            let t_ch_upper = t_ch.to_ascii_uppercase();
                            if !fold && t_ch_upper <= p_ch && t_ch_upper >= prev_ch {
                                matched = true;
                            }
                            if fold {
                                let (lo, hi) = (prev_ch.to_ascii_uppercase(), p_ch.to_ascii_uppercase());
                                if (t_ch_upper <= hi && t_ch_upper >= lo) || (t_ch_upper <= lo && t_ch_upper >= hi) {
                                    matched = true;
                                }
                            }
                        }
                        p_ch = 0;
                    } else if p_ch == b'[' && at(pat, p + 1) == b':' {
                        p += 2;
                        let s = p;
                        loop {
                            p_ch = at(pat, p);
                            if p_ch == 0 || p_ch == b']' {
                                break;
                            }
                            p += 1;
                        }
                        if p_ch == 0 {
                            return Wm::AbortAll;
                        }
                        let i = p as isize - s as isize - 1;
                        if i < 0 || at(pat, p - 1) != b':' {
                            // Didn't find ":]", so treat like a normal set.
                            p = s - 2;
                            p_ch = b'[';
                            if t_ch == p_ch {
                                matched = true;
                            }
                            skip_tail = true;
                        }
                        if !skip_tail {
                            let class = &raw[s..s + i as usize];
                            let hit = match class {
                                b"alnum" => t_ch.is_ascii_alphanumeric(),
                                b"alpha" => t_ch.is_ascii_alphabetic(),
                                b"blank" => isblank(t_ch),
                                b"cntrl" => iscntrl(t_ch),
                                b"digit" => t_ch.is_ascii_digit(),
                                b"graph" => isprint(t_ch) && !isspace(t_ch),
                                b"lower" => islower(t_ch),
                                b"print" => isprint(t_ch),
                                b"punct" => ispunct(t_ch),
                                b"space" => isspace(t_ch),
                                b"upper" => isupper(t_ch) || (flags & WM_CASEFOLD != 0 && islower(t_ch)),
                                b"xdigit" => t_ch.is_ascii_hexdigit(),
                                _ => return Wm::AbortAll,
                            };
                            if hit {
                                matched = true;
                            }
                            p_ch = 0;
                        }
                    } else if t_ch == p_ch {
                        matched = true;
                    }
                    prev_ch = p_ch;
                    p += 1;
                    p_ch = at(pat, p);
                    if p_ch == b']' {
                        break;
                    }
                }
                if matched == negated || (flags & WM_PATHNAME != 0 && t_ch == b'/') {
                    return Wm::NoMatch;
                }
            }
            _ => {
                if p_ch == b'\\' {
                    p += 1;
                    p_ch = at(pat, p);
                }
                if t_ch != p_ch {
                    return Wm::NoMatch;
                }
            }
        }
        text += 1;
        p += 1;
    }
    if at(txt, text) != 0 {
        Wm::NoMatch
    } else {
        Wm::Match
    }
}

pub fn wildmatch(pat: &[u8], txt: &[u8], flags: u32) -> bool {
    dowild(pat, txt, flags) == Wm::Match
}
