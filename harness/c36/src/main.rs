//! C36 — wildcard matching: real `gix_glob::wildmatch` / `Pattern::matches` / `parse::pattern`
//! vs the Lean model (correspondence), vs a Rust port of git's wildmatch.c (`gitwm`, itself tied to
//! the Lean `Spec.dowild` by `spec` ops), vs the git binary (`git ls-files` pathspecs in all four
//! flag combinations, `git check-ignore --no-index` for git's dir.c layer).
mod gitcli;
mod gitwm;

use gix_glob::wildmatch::Mode;
use hcommon::*;
use std::collections::BTreeSet;

pub fn mode_of(m: u8) -> Mode {
    let mut mode = Mode::empty();
    if m & 1 != 0 {
        mode |= Mode::NO_MATCH_SLASH_LITERAL;
    }
    if m & 2 != 0 {
        mode |= Mode::IGNORE_CASE;
    }
    mode
}

pub fn flags_of(m: u8) -> u32 {
    (if m & 1 != 0 { gitwm::WM_PATHNAME } else { 0 }) | (if m & 2 != 0 { gitwm::WM_CASEFOLD } else { 0 })
}

fn gix_wm(m: u8, p: &[u8], t: &[u8]) -> Result<bool, String> {
    catch(|| gix_glob::wildmatch(p.into(), t.into(), mode_of(m)))
}

fn b01(r: &Result<bool, String>) -> String {
    match r {
        Ok(true) => "1".into(),
        Ok(false) => "0".into(),
        Err(_) => "panic".into(),
    }
}

fn star_groups(p: &[u8]) -> usize {
    p.iter().filter(|c| **c == b'*').count()
}

const CLASSES: &[&str] = &[
    "alnum", "alpha", "blank", "cntrl", "digit", "graph", "lower", "print", "punct", "space", "upper", "xdigit",
];

const LITS: &[u8] = b"abzABZ019 ._-\t]";

/// the members a bracket expression is composed of (every kind the matcher distinguishes)
const BR_LIT: &[&[u8]] = &[b"a", b"q", b"z", b"5", b"A", b"_", b".", b":", b"!", b"^", b"/", b"["];
const BR_ESC: &[&[u8]] = &[b"\\a", b"\\-", b"\\]", b"\\\\", b"\\A", b"\\["];
const BR_RANGE: &[&[u8]] = &[
    b"a-f", b"f-a", b"0-9", b"A-Z", b"a-z", b"B-a", b"Z-y", b"_-z", b"a-a", b"---", b" -~", b"a-\\f", b"\\a-f", b"+--",
];
const BR_CLASS_ODD: &[&[u8]] = &[b"[:foo:]", b"[:ALPHA:]", b"[::]", b"[:digit", b"[:digit:", b"[:", b"[:]", b"[:alpha]"];

fn gen_member(r: &mut Rng, out: &mut Vec<u8>) {
    match r.below(16) {
        0..=3 => out.extend_from_slice(*r.pick(BR_LIT)),
        4..=5 => out.extend_from_slice(*r.pick(BR_ESC)),
        6..=8 => out.extend_from_slice(*r.pick(BR_RANGE)),
        9..=11 => {
            out.extend_from_slice(b"[:");
            out.extend_from_slice(r.pick(CLASSES).as_bytes());
            out.extend_from_slice(b":]");
        }
        12 => out.extend_from_slice(*r.pick(BR_CLASS_ODD)),
        _ => out.push(b'-'),
    }
}

/// grammar-based: `[` negation? `]`? member* `]`? with the members in every order
fn gen_bracket(r: &mut Rng, out: &mut Vec<u8>) {
    out.push(b'[');
    match r.below(6) {
        0 => out.push(b'!'),
        1 => out.push(b'^'),
        _ => {}
    }
    if r.chance(1, 8) {
        out.push(b']');
    }
    if r.chance(1, 8) {
        out.push(b'-');
    }
    let n = 1 + r.usize(4);
    for _ in 0..n {
        gen_member(r, out);
    }
    if r.chance(1, 8) {
        out.push(b'-');
    }
    if !r.chance(1, 12) {
        out.push(b']');
    }
}

/// every bracket expression made of up to `len` members of `vocab`, with the given openings
fn bracket_sequences(vocab: &[&[u8]], len: usize, openings: &[&[u8]]) -> Vec<Vec<u8>> {
    let mut seqs: Vec<Vec<u8>> = vec![vec![]];
    let mut last: Vec<Vec<u8>> = vec![vec![]];
    for _ in 0..len {
        let mut next = Vec::new();
        for s in &last {
            for m in vocab {
                let mut x = s.clone();
                x.extend_from_slice(m);
                next.push(x);
            }
        }
        seqs.extend(next.iter().cloned());
        last = next;
    }
    let mut out = Vec::new();
    for o in openings {
        for s in &seqs {
            if s.is_empty() && o.len() <= 1 {
                continue;
            }
            let mut p = o.to_vec();
            p.extend_from_slice(s);
            p.push(b']');
            out.push(p);
        }
    }
    out
}

/// a structured pattern; also returns one text instantiated from it (a likely match)
fn gen_pattern(r: &mut Rng) -> Vec<u8> {
    let mut out = Vec::new();
    let n = 1 + r.usize(6);
    for _ in 0..n {
        match r.below(20) {
            0..=5 => out.push(*r.pick(LITS)),
            6..=7 => out.push(b'/'),
            8..=9 => out.push(b'*'),
            10 => out.extend_from_slice(b"**"),
            11 => out.extend_from_slice(b"**/"),
            12 => out.extend_from_slice(b"/**"),
            13 => out.push(b'?'),
            14..=16 => gen_bracket(r, &mut out),
            17 => {
                out.push(b'\\');
                out.push(*r.pick(b"a*?[\\/A]"));
            }
            18 => out.extend_from_slice(*r.pick(&[&b"***"[..], b"*?", b"?*", b"*[", b"\\", b"*/", b"/*/", b"**\\/", b"a**", b"**a"])),
            _ => out.push(*r.pick(b"abAB")),
        }
    }
    out
}

/// a text that walks the pattern and emits something plausible for each token, with mutations
fn instantiate(r: &mut Rng, p: &[u8]) -> Vec<u8> {
    let mut t = Vec::new();
    let mut i = 0;
    while i < p.len() {
        let c = p[i];
        match c {
            b'*' => {
                let k = r.usize(3);
                for _ in 0..k {
                    t.push(*r.pick(b"abxA/"));
                }
            }
            b'?' => t.push(*r.pick(b"abA/ .")),
            b'\\' => {
                i += 1;
                if i < p.len() {
                    t.push(p[i]);
                }
            }
            b'[' => {
                // pick some member-ish byte from inside the bracket or a random one
                let end = p[i + 1..].iter().position(|c| *c == b']').map(|e| i + 1 + e);
                match end {
                    Some(e) if e > i + 1 => {
                        let inner = &p[i + 1..e];
                        t.push(match r.below(4) {
                            0 => *r.pick(b"abmzAMZ059 \t_]-[:"),
                            _ => *r.pick(inner),
                        });
                        // a class may have nested "]" — jump behind the first one only sometimes
                        i = e;
                    }
                    _ => t.push(b'['),
                }
            }
            c => t.push(c),
        }
        i += 1;
    }
    match r.below(10) {
        0 if !t.is_empty() => {
            let k = r.usize(t.len());
            t.remove(k);
        }
        1 => {
            let k = r.usize(t.len() + 1);
            t.insert(k, *r.pick(b"ab/A"));
        }
        2 if !t.is_empty() => {
            let k = r.usize(t.len());
            t[k] = if t[k].is_ascii_lowercase() { t[k].to_ascii_uppercase() } else { t[k].to_ascii_lowercase() };
        }
        _ => {}
    }
    t
}

struct Ctx {
    rep: Report,
}

impl Ctx {
    /// one (mode, pattern, text) triple through every in-process check
    fn triple(&mut self, m: u8, p: &[u8], t: &[u8], nontrivial: bool) {
        let rep = &mut self.rep;
        let nul = p.contains(&0) || t.contains(&0);
        let stars = star_groups(p);
        let g = gix_wm(m, p, t);
        let op = format!("wm {m} {} {}", hex(p), hex(t));
        rep.case(&op, &b01(&g), nontrivial);
        rep.bucket(&format!("wm:mode{m}"));
        if p.contains(&b'[') {
            rep.bucket("pat:bracket");
        }
        if p.windows(2).any(|w| w == b"**") {
            rep.bucket("pat:starstar");
        } else if p.contains(&b'*') {
            rep.bucket("pat:star");
        } else {
            rep.bucket("pat:starfree");
        }
        if nul {
            rep.bucket("malformed:nul");
            if g.is_err() {
                rep.outside_domain(&format!("panic on NUL input {op}"));
            }
            return;
        }
        let w = gitwm::dowild(p, t, flags_of(m));
        rep.case(&format!("spec {m} {} {}", hex(p), hex(t)), w.name(), false);
        rep.bucket(&format!("git-rule:{}", w.name()));
        if stars >= 64 {
            rep.bucket("outside:64+stars");
            if g != Ok(w == gitwm::Wm::Match) {
                rep.outside_domain(&format!("beyond the recursion bound: {op} gix={} git-rule={}", b01(&g), w.name()));
            }
            return;
        }
        rep.oracle_checked();
        match &g {
            Err(e) => rep.oracle_failure(
                &format!("wildmatch panics m={m} p={} t={}", hex(p), hex(t)),
                &format!("gix_glob::wildmatch panicked ({e}) on pattern {:?} text {:?}", bs(p), bs(t)),
                &op,
            ),
            Ok(b) => {
                if *b != (w == gitwm::Wm::Match) && m & 2 != 0 && *b == (gitwm::dowild_x(p, t, flags_of(m), true) == gitwm::Wm::Match) {
                    known_icase(rep);
                } else if *b != (w == gitwm::Wm::Match) {
                    rep.oracle_failure(
                        &format!("wildmatch m={m} p={} t={}", hex(p), hex(t)),
                        &format!(
                            "gix_glob::wildmatch({:?}, {:?}, mode={m}) = {b}, git's wildmatch rule gives {}",
                            bs(p),
                            bs(t),
                            w.name()
                        ),
                        &op,
                    )
                }
            }
        }
        // the shortcut layer: Pattern::matches must equal plain wildmatch on the parsed text
        let pm = catch(|| gix_glob::Pattern::from_bytes_without_negation(p).map(|pat| (pat.matches(t.into(), mode_of(m)), pat)));
        let op2 = format!("pm {m} {} {}", hex(p), hex(t));
        match &pm {
            Err(_) => {
                rep.case(&op2, "panic", nontrivial);
                rep.oracle_failure(
                    &format!("Pattern::matches panics m={m} p={} t={}", hex(p), hex(t)),
                    "Pattern::from_bytes_without_negation(..).matches(..) panicked",
                    &op2,
                );
            }
            Ok(None) => rep.case(&op2, "none", false),
            Ok(Some((b, pat))) => {
                rep.case(&op2, if *b { "1" } else { "0" }, nontrivial);
                rep.oracle_checked();
                let plain = gix_wm(m, pat.text.as_ref(), t);
                if plain != Ok(*b) {
                    rep.oracle_failure(
                        &format!("shortcut m={m} p={} t={}", hex(p), hex(t)),
                        &format!(
                            "Pattern::matches({:?} on {:?}, mode={m}) = {b} but wildmatch on the same text = {}",
                            bs(p),
                            bs(t),
                            b01(&plain)
                        ),
                        &op2,
                    );
                }
                if pat.mode.contains(gix_glob::pattern::Mode::ENDS_WITH) {
                    rep.bucket("shortcut:ends_with");
                } else if pat.first_wildcard_pos.is_none() {
                    rep.bucket("shortcut:literal");
                } else if pat.first_wildcard_pos != Some(0) {
                    rep.bucket("shortcut:prefix");
                }
            }
        }
    }

    fn parse_case(&mut self, p: &[u8]) {
        let rep = &mut self.rep;
        for alter in [true, false] {
            let r = catch(|| {
                if alter {
                    gix_glob::Pattern::from_bytes(p)
                } else {
                    gix_glob::Pattern::from_bytes_without_negation(p)
                }
            });
            let obs = match r {
                Err(_) => "panic".to_string(),
                Ok(None) => "none".to_string(),
                Ok(Some(pat)) => format!(
                    "{} {} {}",
                    hex(pat.text.as_ref()),
                    pat.mode.bits(),
                    pat.first_wildcard_pos.map_or("none".to_string(), |p| p.to_string())
                ),
            };
            rep.case(&format!("parse {} {}", alter as u8, hex(p)), &obs, true);
        }
    }
}

/// The deliberate deviation (see `gitwm::dowild_x`): reported once, under one key, with its
/// smallest witness; anything that is NOT explained by it keeps its own key.
pub const KNOWN_ICASE_KEY: &str = "icase: pattern bytes inside brackets and after a backslash are case-folded (git reads them as written)";
fn known_icase(rep: &mut Report) {
    rep.bucket("known:icase-bracket-escape-deviation");
    rep.oracle_failure(
        KNOWN_ICASE_KEY,
        "with IGNORE_CASE gix_glob::wildmatch(\"[A]\", \"a\") = true and (\"\\A\", \"a\") = true, (\"[c-a]\", \"b\") = true; git's wildmatch gives nomatch for all three (git lowers the text and literally compared pattern bytes only); gix-pathspec's baseline marks `:(icase)G[O][o]` as git-inconsistency",
        "wm 2 5b415d 61",
    );
}

fn bs(b: &[u8]) -> String {
    String::from_utf8_lossy(b).replace('\t', "\\t")
}

/// git's answers (facts at the level of git's own wildmatch() calls) against the real code and,
/// through `git` ops, against the Lean Spec.
fn judge_facts(cx: &mut Ctx, facts: Vec<gitcli::Fact>, cap: usize) {
    let mut seen = BTreeSet::new();
    for f in facts {
        if !seen.insert((f.m, f.pat.clone(), f.text.clone())) {
            continue;
        }
        let g = gix_wm(f.m, &f.pat, &f.text);
        let mut bad = g != Ok(f.git_says) && star_groups(&f.pat) < 64;
        if bad && f.m & 2 != 0 && g == Ok(gitwm::dowild_x(&f.pat, &f.text, flags_of(f.m), true) == gitwm::Wm::Match) {
            known_icase(&mut cx.rep);
            bad = false;
        }
        if seen.len() <= cap || bad {
            cx.rep.case(&format!("git {} {} {}", f.m, hex(&f.pat), hex(&f.text)), if f.git_says { "1" } else { "0" }, true);
        }
        cx.rep.git_checked(1);
        cx.rep.bucket(&format!("git:mode{}:{}", f.m, if f.git_says { "match" } else { "nomatch" }));
        if gitwm::wildmatch(&f.pat, &f.text, flags_of(f.m)) != f.git_says {
            // a defect of the transcription of git's rule (our side), never a gitoxide violation
            cx.rep.bucket("SPEC-DEFECT:port-vs-git");
            cx.rep.note(&format!("SPEC-DEFECT: the port of wildmatch.c disagrees with git: m={} p={:?} t={:?} git={} ({})", f.m, bs(&f.pat), bs(&f.text), f.git_says, f.via));
        }
        if bad {
            cx.rep.oracle_failure(
                &format!("wildmatch-vs-git m={} p={} t={}", f.m, hex(&f.pat), hex(&f.text)),
                &format!(
                    "gix_glob::wildmatch({:?}, {:?}, mode={}) = {} but git says {} ({})",
                    bs(&f.pat),
                    bs(&f.text),
                    f.m,
                    b01(&g),
                    f.git_says,
                    f.via
                ),
                &format!("wm {} {} {}", f.m, hex(&f.pat), hex(&f.text)),
            );
        }
    }
}

fn corpus() -> Vec<(Vec<u8>, Vec<u8>)> {
    let v: &[(&str, &str)] = &[
        ("foo", "foo"),
        ("foo", "bar"),
        ("", ""),
        ("???", "foo"),
        ("??", "foo"),
        ("*", "foo"),
        ("f*", "foo"),
        ("*f", "foo"),
        ("*foo*", "foo"),
        ("*ob*a*r*", "foobar"),
        ("*ab", "aaaaaaabababab"),
        ("foo\\*", "foo*"),
        ("foo\\*bar", "foobar"),
        ("f\\\\oo", "f\\oo"),
        ("*[al]?", "ball"),
        ("[ten]", "ten"),
        ("**[!te]", "ten"),
        ("**[!ten]", "ten"),
        ("t[a-g]n", "ten"),
        ("t[!a-g]n", "ten"),
        ("t[!a-g]n", "ton"),
        ("t[^a-g]n", "ton"),
        ("a[]]b", "a]b"),
        ("a[]-]b", "a-b"),
        ("a[]-]b", "a]b"),
        ("a[]-]b", "aab"),
        ("a[]a-]b", "aab"),
        ("]", "]"),
        ("foo*bar", "foo/baz/bar"),
        ("foo**bar", "foo/baz/bar"),
        ("foo/**/bar", "foo/baz/bar"),
        ("foo/**/**/bar", "foo/b/a/z/bar"),
        ("foo/**/bar", "foo/bar"),
        ("foo?bar", "foo/bar"),
        ("foo[/]bar", "foo/bar"),
        ("foo[^a-z]bar", "foo/bar"),
        ("f[^eiu][^eiu][^eiu][^eiu][^eiu]r", "foo/bar"),
        ("f[^eiu][^eiu][^eiu][^eiu][^eiu]r", "foo-bar"),
        ("**/foo", "foo"),
        ("**/foo", "XXX/foo"),
        ("**/foo", "bar/baz/foo"),
        ("*/foo", "bar/baz/foo"),
        ("**/bar*", "foo/bar/baz"),
        ("**/bar/*", "deep/foo/bar/baz"),
        ("**/bar/*", "deep/foo/bar/baz/"),
        ("**/bar/**", "deep/foo/bar/baz/"),
        ("**/bar/*", "deep/foo/bar"),
        ("**/bar/**", "deep/foo/bar/"),
        ("**/bar**", "foo/bar/baz"),
        ("*/bar/**", "foo/bar/baz/x"),
        ("*/bar/**", "deep/foo/bar/baz/x"),
        ("**/bar/*/*", "deep/foo/bar/baz/x"),
        ("a[c-c]st", "acrt"),
        ("a[c-c]rt", "acrt"),
        ("[!]-]", "]"),
        ("[!]-]", "a"),
        ("\\", ""),
        ("\\", "\\"),
        ("*/\\", "XXX/\\"),
        ("*/\\\\", "XXX/\\"),
        ("foo", "foo"),
        ("@foo", "@foo"),
        ("@foo", "foo"),
        ("\\[ab]", "[ab]"),
        ("[[]ab]", "[ab]"),
        ("[[:]ab]", "[ab]"),
        ("[[::]ab]", "[ab]"),
        ("[[:digit]ab]", "[ab]"),
        ("[\\[:]ab]", "[ab]"),
        ("\\??\\?b", "?a?b"),
        ("\\a\\b\\c", "abc"),
        ("", "foo"),
        ("**/t[o]", "foo/bar/baz/to"),
        ("[[:alpha:]][[:digit:]][[:upper:]]", "a1B"),
        ("[[:digit:][:upper:][:space:]]", "a"),
        ("[[:digit:][:upper:][:space:]]", "A"),
        ("[[:digit:][:upper:][:space:]]", " "),
        ("[[:digit:][:upper:][:space:]]", "\t"),
        ("[[:space:]]", "\r"),
        ("[[:space:]]", "\n"),
        ("[[:space:]]", "\x0b"),
        ("[[:space:]]", "\x0c"),
        ("[[:blank:]]", "\t"),
        ("[[:blank:]]", " "),
        ("[[:blank:]]", "\n"),
        ("[[:blank:]]", "\r"),
        ("[[:blank:]]", "\x0c"),
        ("[[:digit:][:punct:][:space:]]", "."),
        ("[[:xdigit:]]", "5"),
        ("[[:xdigit:]]", "f"),
        ("[[:xdigit:]]", "D"),
        ("[[:alnum:][:alpha:][:blank:][:cntrl:][:digit:][:graph:][:lower:][:print:][:punct:][:space:][:upper:][:xdigit:]]", "_"),
        ("[^[:alnum:][:alpha:][:blank:][:cntrl:][:digit:][:lower:][:space:][:upper:][:xdigit:]]", "."),
        ("[a-c[:digit:]x-z]", "5"),
        ("[a-c[:digit:]x-z]", "b"),
        ("[a-c[:digit:]x-z]", "y"),
        ("[a-c[:digit:]x-z]", "q"),
        ("[\\\\-^]", "]"),
        ("[\\\\-^]", "["),
        ("[\\-_]", "-"),
        ("[\\]]", "]"),
        ("[\\]]", "\\]"),
        ("[\\]]", "\\"),
        ("a[]b", "ab"),
        ("a[]b", "a[]b"),
        ("ab[", "ab["),
        ("[!", "ab"),
        ("[-", "ab"),
        ("[-]", "-"),
        ("[a-", "-"),
        ("[!a-", "-"),
        ("[--A]", "-"),
        ("[--A]", "5"),
        ("[ --]", " "),
        ("[ --]", "$"),
        ("[ --]", "-"),
        ("[ --]", "0"),
        ("[---]", "-"),
        ("[------]", "-"),
        ("[a-e-n]", "j"),
        ("[a-e-n]", "-"),
        ("[!------]", "a"),
        ("[]-a]", "["),
        ("[]-a]", "^"),
        ("[!]-a]", "^"),
        ("[!]-a]", "["),
        ("[a^bc]", "^"),
        ("[a-]b]", "-b]"),
        ("[\\]", "\\"),
        ("[\\\\]", "\\"),
        ("[!\\\\]", "\\"),
        ("[A-\\\\]", "G"),
        ("b*a", "aaabbb"),
        ("*ba*", "aabcaa"),
        ("[,]", ","),
        ("[\\\\,]", ","),
        ("[\\\\,]", "\\"),
        ("[,-.]", "-"),
        ("[,-.]", "+"),
        ("[,-.]", "-.]"),
        ("[\\1-\\3]", "2"),
        ("[\\1-\\3]", "3"),
        ("[\\1-\\3]", "4"),
        ("[[-\\]]", "\\"),
        ("[[-\\]]", "["),
        ("[[-\\]]", "]"),
        ("[[-\\]]", "-"),
        ("-*-*-*-*-*-*-12-*-*-*-m-*-*-*", "-adobe-courier-bold-o-normal--12-120-75-75-m-70-iso8859-1"),
        ("-*-*-*-*-*-*-12-*-*-*-m-*-*-*", "-adobe-courier-bold-o-normal--12-120-75-75-X-70-iso8859-1"),
        ("-*-*-*-*-*-*-12-*-*-*-m-*-*-*", "-adobe-courier-bold-o-normal--12-120-75-75-/-70-iso8859-1"),
        ("XXX/*/*/*/*/*/*/12/*/*/*/m/*/*/*", "XXX/adobe/courier/bold/o/normal//12/120/75/75/m/70/iso8859/1"),
        ("XXX/*/*/*/*/*/*/12/*/*/*/m/*/*/*", "XXX/adobe/courier/bold/o/normal//12/120/75/75/X/70/iso8859/1"),
        ("**/*a*b*g*n*t", "abcd/abcdefg/abcdefghijk/abcdefghijklmnop.txt"),
        ("**/*a*b*g*n*t", "abcd/abcdefg/abcdefghijk/abcdefghijklmnop.txtz"),
        ("*/*/*", "foo"),
        ("*/*/*", "foo/bar"),
        ("*/*/*", "foo/bba/arr"),
        ("*/*/*", "foo/bb/aa/rr"),
        ("**/**/**", "foo/bb/aa/rr"),
        ("*X*i", "abcXdefXghi"),
        ("*X*i", "ab/cXd/efXg/hi"),
        ("*/*X*/*/*i", "ab/cXd/efXg/hi"),
        ("**/*X*/**/*i", "ab/cXd/efXg/hi"),
        ("fo", "foo"),
        ("foo/bar", "foo/bar"),
        ("foo/*", "foo/bar"),
        ("foo/*", "foo/bba/arr"),
        ("foo/**", "foo/bba/arr"),
        ("foo*", "foo/bba/arr"),
        ("foo**", "foo/bba/arr"),
        ("foo/*arr", "foo/bba/arr"),
        ("foo/**arr", "foo/bba/arr"),
        ("foo/*z", "foo/bba/arr"),
        ("foo/**z", "foo/bba/arr"),
        ("foo?bar", "foo/bar"),
        ("foo[/]bar", "foo/bar"),
        ("foo[^a-z]bar", "foo/bar"),
        ("*Xg*i", "ab/cXd/efXg/hi"),
        ("[A-Z]", "a"),
        ("[A-Z]", "A"),
        ("[a-z]", "A"),
        ("[a-z]", "a"),
        ("[[:upper:]]", "a"),
        ("[[:upper:]]", "A"),
        ("[[:lower:]]", "A"),
        ("[[:lower:]]", "a"),
        ("[B-Za]", "A"),
        ("[B-Za]", "a"),
        ("[B-a]", "A"),
        ("[B-a]", "a"),
        ("[Z-y]", "z"),
        ("[Z-y]", "Z"),
        // `-` next to a POSIX class: the class resets the range start
        ("[a[:digit:]-z]", "q"),
        ("[a[:digit:]-z]", "-"),
        ("[a[:digit:]-z]", "z"),
        ("[a[:digit:]-z]", "5"),
        ("[[:digit:]-z]", "q"),
        ("[[:digit:]-z]", "-"),
        ("[a-[:digit:]]", "5"),
        ("[a-[:digit:]]", "["),
        ("[a-[:digit:]]", "]"),
        ("[[:alpha:]-[:digit:]]", "-"),
        ("[[:alpha:]-[:digit:]]", "5"),
        ("[[:digit:]-]", "-"),
        ("[-[:digit:]]", "-"),
        ("[a-f-z]", "q"),
        ("[a-f-z]", "-"),
        ("[!a[:digit:]-z]", "q"),
        ("[][:digit:]-z]", "q"),
        ("[][:digit:]-z]", "]"),
        ("[[:foo:]-z]", "q"),
        ("[a[:digit]-z]", "q"),
        ("[\\a[:digit:]-z]", "q"),
        // witnesses of the defects repaired for this property
        ("[[:x]*b", "xb"),
        ("[[:x]a", "xa"),
        ("[a[:x]*[:y]*b", "aqb"),
        ("[A]", "a"),
        ("[A]", "A"),
        ("\\A", "a"),
        ("x\\A", "xA"),
        ("[c-a]", "b"),
        ("[C-A]", "b"),
        ("[\\A-C]", "b"),
        ("[[:ALPHA:]]", "a"),
        ("a**/b", "ax/y/b"),
        ("a**/b", "a/b"),
        ("**\\/b", "a/b"),
        ("**\\/b", "/b"),
        ("a/**\\/b", "a/b"),
        ("*\\", "a\\"),
        ("**", ""),
        ("*", ""),
        ("*/", "/"),
        ("**/", "/"),
        ("**/", "a/"),
        ("/**", "/"),
        ("a/**", "a"),
        ("a/**", "a/"),
        ("*a", "xa/a"),
        ("*/a", "x/y/a"),
        ("*[a]", "x/a"),
        ("*?", "x/a"),
        ("*A", "xa"),
        ("*a", "xA"),
    ];
    v.iter().map(|(p, t)| (p.as_bytes().to_vec(), t.as_bytes().to_vec())).collect()
}

/// every string over `alpha` with length ≤ n
fn all_strings(alpha: &[u8], n: usize) -> Vec<Vec<u8>> {
    let mut out = vec![vec![]];
    let mut last = vec![vec![]];
    for _ in 0..n {
        let mut next = Vec::new();
        for s in &last {
            for c in alpha {
                let mut x: Vec<u8> = s.clone();
                x.push(*c);
                next.push(x);
            }
        }
        out.extend(next.iter().cloned());
        last = next;
    }
    out
}

fn main() {
    let args = Args::parse();
    let mut cx = Ctx {
        rep: Report::new("C36", &args),
    };
    let mut r = Rng::new(args.seed);

    if let Some(ops) = replay_ops(&args) {
        for op in ops {
            let f: Vec<&str> = op.split(' ').collect();
            match f.as_slice() {
                ["wm" | "pm" | "spec" | "git", m, p, t] => {
                    if let (Ok(m), Some(p), Some(t)) = (m.parse::<u8>(), unhex(p), unhex(t)) {
                        cx.triple(m & 3, &p, &t, true);
                    }
                }
                ["parse", _, p] => {
                    if let Some(p) = unhex(p) {
                        cx.parse_case(&p);
                    }
                }
                _ => {}
            }
        }
        cx.rep.finish();
        return;
    }

    let mut texts: BTreeSet<Vec<u8>> = BTreeSet::new();
    let mut patterns: Vec<Vec<u8>> = Vec::new();

    // 1. corpus, all four modes
    for (p, t) in corpus() {
        for m in 0..4 {
            cx.triple(m, &p, &t, true);
        }
        cx.parse_case(&p);
        texts.insert(t);
        patterns.push(p);
    }

    // 2. random structured patterns with instantiated and random texts
    let n = args.budget(2500, 25_000);
    for _ in 0..n {
        let p = gen_pattern(&mut r);
        let k = 1 + r.usize(3);
        for _ in 0..k {
            let t = if r.chance(3, 4) { instantiate(&mut r, &p) } else { r.over(b"ab/AB.z-] \t", 6) };
            let m = r.below(4) as u8;
            cx.triple(m, &p, &t, true);
            if r.chance(1, 3) {
                cx.triple(m ^ 2, &p, &t, true);
            }
            if texts.len() < 600 {
                texts.insert(t);
            }
        }
        if r.chance(1, 4) {
            cx.parse_case(&p);
        }
        if patterns.len() < args.budget(450, 3000) as usize {
            patterns.push(p);
        }
    }

    // 3. parser stream (leading !, \!, \#, slashes, blanks)
    for _ in 0..args.budget(400, 4000) {
        let mut p = Vec::new();
        match r.below(8) {
            0 => p.push(b'!'),
            1 => p.extend_from_slice(b"\\!"),
            2 => p.extend_from_slice(b"\\#"),
            3 => p.push(b'/'),
            4 => p.extend_from_slice(b"!/"),
            5 => p.push(b'\\'),
            _ => {}
        }
        p.extend(r.over(b"ab*?[]\\/ \t!#", 5));
        if r.chance(1, 4) {
            p.push(b'/');
        }
        cx.parse_case(&p);
    }

    // 4. malformed stream: NUL bytes, high bytes, very many stars
    for _ in 0..args.budget(100, 1000) {
        let mut p = gen_pattern(&mut r);
        let mut t = instantiate(&mut r, &p);
        match r.below(4) {
            0 => {
                let k = r.usize(p.len() + 1);
                p.insert(k, 0);
            }
            1 => {
                let k = r.usize(t.len() + 1);
                t.insert(k, 0);
            }
            2 => {
                let k = r.usize(p.len() + 1);
                p.insert(k, 0x80 + r.below(128) as u8);
                let k = r.usize(t.len() + 1);
                t.insert(k, 0x80 + r.below(128) as u8);
            }
            _ => {
                // around the recursion bound: 62..66 star groups
                let stars = 62 + r.usize(5);
                p.clear();
                t.clear();
                for i in 0..stars {
                    p.extend_from_slice(if i % 7 == 3 { b"*a/" } else { b"*a" });
                    t.extend_from_slice(if i % 7 == 3 { b"xa/" } else { b"a" });
                }
                if r.chance(1, 2) {
                    // too short: ends in AbortAll quickly (a trailing mismatch would backtrack exponentially)
                    t.pop();
                }
            }
        }
        cx.triple(r.below(4) as u8, &p, &t, true);
    }

    let t0 = std::time::Instant::now();
    // 5. exhaustive small-alphabet enumeration
    let (plen, tlen) = if args.thorough { (4, 3) } else { (3, 2) };
    let pats = all_strings(b"*/a[]\\?", plen);
    let txts = all_strings(b"a/]", tlen);
    for p in &pats {
        for t in &txts {
            for m in [0u8, 1] {
                cx.triple(m, p, t, false);
            }
        }
    }
    cx.rep.bucket(&format!("exhaustive:{}x{}x2", pats.len(), txts.len()));
    // every order of bracket members: literal, escaped literal, range, reversed range, classes (known,
    // unknown, unterminated), `-` — behind every opening (`[`, `[!`, `[^`, `[]`, `[!]`)
    let vocab_q: &[&[u8]] = &[b"a", b"q", b"\\-", b"a-f", b"f-a", b"[:digit:]", b"[:alpha:]", b"[:foo:]", b"-", b"z"];
    let vocab_t: &[&[u8]] = &[
        b"a", b"q", b"\\-", b"\\]", b"a-f", b"f-a", b"0-9", b"[:digit:]", b"[:alpha:]", b"[:upper:]", b"[:foo:]", b"[:digit", b"-", b"z",
    ];
    let grammar = if args.thorough {
        let mut g = bracket_sequences(vocab_t, 3, &[b"[", b"[!", b"[^", b"[]", b"[!]"]);
        g.extend(bracket_sequences(vocab_q, 4, &[b"["]));
        g
    } else {
        bracket_sequences(vocab_q, 3, &[b"[", b"[!", b"[]"])
    };
    for (k, p) in grammar.iter().enumerate() {
        for t in [&b"q"[..], b"-", b"5", b"a", b"z", b"]", b"A", b":", b"d"] {
            cx.triple(1, p, t, false);
            if k % 7 == 0 {
                cx.triple(2, p, t, false);
            }
        }
        if k % 5 == 0 {
            // the same expression without its closing bracket, and followed by a literal
            cx.triple(1, &p[..p.len() - 1], b"q", false);
            let mut q = p.clone();
            q.push(b'x');
            cx.triple(0, &q, b"qx", false);
            cx.triple(0, &q, b"-x", false);
        }
    }
    cx.rep.bucket(&format!("exhaustive:bracket-grammar:{}", grammar.len()));
    let pats2 = all_strings(b"[]!-ac:\\", if args.thorough { 5 } else { 4 });
    for p in &pats2 {
        for t in [&b"a"[..], b"b", b"c", b"-", b"]", b"[", b":", b"!", b"\\", b"B"] {
            cx.triple(if p.len() % 2 == 0 { 1 } else { 3 }, p, t, false);
        }
    }

    if std::env::var_os("C36_TRACE").is_some() { eprintln!("phase5 done {:?}", t0.elapsed()); }
    // 6. the git binary
    for t in all_strings(b"a/]", 3) {
        texts.insert(t);
    }
    for t in [&b"a]"[..], b"]/a", b"A", b"Ab", b"a/B", b"xa", b"x/a", b"x/y/a", b"\t", b" ", b"\r", b"\x0b", b"\x0c", b"a\tb", b"-", b"[", b":", b"!", b"\\", b"a\\", b"b", b"c", b"B", b"ab", b"aqb", b"xb", b"*", b"a*", b"?", b"ax/y/b", b"a/b", b"x/b", b"x/y/b"] {
        texts.insert(t.to_vec());
    }
    let texts: Vec<Vec<u8>> = texts.into_iter().collect();
    let mut gp: Vec<Vec<u8>> = patterns.clone();
    gp.extend(all_strings(b"*/a[]\\?", if args.thorough { 4 } else { 3 }));
    gp.extend(all_strings(b"[]!-ac:\\", if args.thorough { 4 } else { 3 }));
    // path mode, both case modes: two git processes for everything
    let (ap, at): (Vec<Vec<u8>>, Vec<Vec<u8>>) = if args.thorough {
        // every pattern; the exhaustive short texts and the hand-picked ones plus a sample of the rest
        let mut at = texts.clone();
        r.shuffle(&mut at);
        at.sort_by_key(|t| t.len() > 3);
        at.truncate(380);
        (gp.clone(), at)
    } else {
        // quick: the corpus plus a deterministic sample
        let keep = corpus().len();
        let mut rest: Vec<Vec<u8>> = gp[keep..].to_vec();
        r.shuffle(&mut rest);
        rest.truncate(450);
        let mut ap = gp[..keep].to_vec();
        ap.extend(rest);
        let mut at = texts.clone();
        r.shuffle(&mut at);
        at.truncate(160);
        (ap, at)
    };
    let facts = gitcli::attr_facts(&ap, &at, &mut cx.rep);
    if std::env::var_os("C36_TRACE").is_some() { eprintln!("attr done {:?} facts={}", t0.elapsed(), facts.len()); }
    judge_facts(&mut cx, facts, args.budget(20_000, 250_000) as usize);
    // all four modes through pathspecs: one process per pattern and mode
    let keep = corpus().len();
    let mut rest: Vec<Vec<u8>> = gp.split_off(keep);
    r.shuffle(&mut rest);
    rest.truncate(args.budget(12, 1200) as usize);
    let mut lp: Vec<Vec<u8>> = gp.into_iter().filter(|p| gitcli::pathspec_safe(p)).collect();
    r.shuffle(&mut lp);
    lp.truncate(args.budget(12, 280) as usize);
    lp.extend(rest);
    let facts = gitcli::ls_facts(&lp, &texts, if args.thorough { &[0, 1, 2, 3] } else { &[0, 2] }, &mut cx.rep);
    if std::env::var_os("C36_TRACE").is_some() { eprintln!("ls done {:?} facts={}", t0.elapsed(), facts.len()); }
    judge_facts(&mut cx, facts, args.budget(10_000, 180_000) as usize);
    if std::env::var_os("C36_TRACE").is_some() { eprintln!("all done {:?}", t0.elapsed()); }
    cx.rep.finish();
}
