//! C35 — credential helper wire format: `Context::write_to` / `Context::from_bytes`.
//!
//! ops (fields are `none` or hex, `-` = empty string):
//!   credwrite <url> <path> <protocol> <host> <username> <password>  -> `ok <bytes>` | `err <bytes written before the refusal>`
//!   credread <bytes>  -> `ok <url> <path> <protocol> <host> <username> <password> <quit>` | `err:<kind>`
//! oracle (independent of the Lean model), for every generated context:
//!   * a present value containing LF, NUL or CR  <=>  write_to returns Err (and nothing but complete
//!     lines of earlier, valid fields was written before). CR: every reader strips a CR in front of
//!     the LF, so a value ending in CR cannot round-trip; git (credential.protectProtocol) and,
//!     since the `fix:` commit for this property, gitoxide refuse CR in values;
//!   * otherwise the output splits on LF into exactly one `key=value` piece per present field, in
//!     the documented order (no injected attribute), and `from_bytes(output)` is the same context.
use bstr::{BString, ByteSlice};
use gix_credentials::protocol::Context;
use hcommon::*;

const KEYS: [&str; 6] = ["url", "path", "protocol", "host", "username", "password"];

fn fields(c: &Context) -> [Option<Vec<u8>>; 6] {
    [
        c.url.as_ref().map(|v| v.to_vec()),
        c.path.as_ref().map(|v| v.to_vec()),
        c.protocol.as_ref().map(|v| v.as_bytes().to_vec()),
        c.host.as_ref().map(|v| v.as_bytes().to_vec()),
        c.username.as_ref().map(|v| v.as_bytes().to_vec()),
        c.password.as_ref().map(|v| v.as_bytes().to_vec()),
    ]
}

fn opt_hex(v: &Option<Vec<u8>>) -> String {
    match v {
        None => "none".into(),
        Some(b) => hex(b),
    }
}

fn show_ctx(c: &Context) -> String {
    let f = fields(c);
    format!(
        "ok {} {} {} {} {} {} {}",
        opt_hex(&f[0]),
        opt_hex(&f[1]),
        opt_hex(&f[2]),
        opt_hex(&f[3]),
        opt_hex(&f[4]),
        opt_hex(&f[5]),
        match c.quit {
            None => "none",
            Some(true) => "1",
            Some(false) => "0",
        }
    )
}

fn read_obs(input: &[u8]) -> (String, Option<Context>) {
    use gix_credentials::protocol::context::decode::Error as E;
    match catch(|| Context::from_bytes(input)) {
        Err(_) => ("panic".into(), None),
        Ok(Ok(c)) => (show_ctx(&c), Some(c)),
        Ok(Err(E::IllformedUtf8InValue { .. })) => ("err:utf8".into(), None),
        Ok(Err(E::Encoding(_))) => ("err:encoding".into(), None),
        Ok(Err(E::Syntax { .. })) => ("err:syntax".into(), None),
    }
}

fn do_read(rep: &mut Report, input: &[u8], class: &str) -> Option<Context> {
    let op = format!("credread {}", hex(input));
    let (obs, c) = read_obs(input);
    rep.case(&op, &obs, !input.is_empty());
    rep.bucket(&format!("read:{class}:{}", obs.split(' ').next().unwrap()));
    if obs == "panic" {
        rep.oracle_failure(&format!("read-panic {}", hex(input)), "from_bytes panicked", &op);
    }
    c
}

fn do_write(rep: &mut Report, c: &Context) {
    let f = fields(c);
    let op = format!(
        "credwrite {} {} {} {} {} {}",
        opt_hex(&f[0]),
        opt_hex(&f[1]),
        opt_hex(&f[2]),
        opt_hex(&f[3]),
        opt_hex(&f[4]),
        opt_hex(&f[5])
    );
    let mut out = Vec::new();
    let res = match catch(|| c.write_to(&mut out)) {
        Ok(r) => r,
        Err(msg) => {
            rep.case(&op, "panic", true);
            rep.oracle_failure(&format!("write-panic {op}"), &msg, &op);
            return;
        }
    };
    let obs = format!("{} {}", if res.is_ok() { "ok" } else { "err" }, hex(&out));
    let present: Vec<(usize, &Vec<u8>)> = f.iter().enumerate().filter_map(|(i, v)| v.as_ref().map(|v| (i, v))).collect();
    rep.case(&op, &obs, !present.is_empty());
    let bad = |v: &[u8]| v.contains(&b'\n') || v.contains(&0) || v.contains(&b'\r');
    let has = |b: u8| present.iter().any(|(_, v)| v.contains(&b));
    rep.bucket(&format!(
        "write:{}:n{}{}{}{}{}",
        if res.is_ok() { "ok" } else { "err" },
        present.len(),
        if has(b'\n') { ":lf" } else { "" },
        if has(0) { ":nul" } else { "" },
        if has(b'\r') { ":cr" } else { "" },
        if present.iter().any(|(_, v)| v.last() == Some(&b'\r')) { ":trailing-cr" } else { "" },
    ));
    rep.oracle_checked();
    let first_bad = present.iter().position(|(_, v)| bad(v));
    if let (Ok(()), Some(i)) = (&res, first_bad) {
        let (k, v) = present[i];
        rep.oracle_failure(
            &format!("not-refused {}={}", KEYS[k], hex(v)),
            &format!("value {:?} of {} contains LF/NUL/CR but was written: {:?}", v.as_bstr(), KEYS[k], out.as_bstr()),
            &op,
        );
    }
    match (&res, first_bad) {
        (Err(_), None) => {
            rep.oracle_failure(&format!("refused-clean {op}"), "a context without LF/NUL/CR in any value was refused", &op);
        }
        (Err(_), Some(_)) => check_partial(rep, &op, &present, &out),
        (Ok(()), _) => {
            // no injection: exactly one `key=value` piece per present field, in order
            let mut pieces: Vec<&[u8]> = out.split(|b| *b == b'\n').collect();
            let last = pieces.pop();
            if last != Some(&b""[..]) {
                rep.oracle_failure(&format!("unterminated {op}"), "output does not end with LF", &op);
            }
            let expect: Vec<Vec<u8>> = present
                .iter()
                .map(|(k, v)| {
                    let mut l = KEYS[*k].as_bytes().to_vec();
                    l.push(b'=');
                    l.extend_from_slice(v);
                    l
                })
                .collect();
            if pieces.len() != expect.len() || pieces.iter().zip(&expect).any(|(a, b)| *a != b.as_slice()) {
                rep.oracle_failure(
                    &format!("injection {op}"),
                    &format!("output {:?} is not one key=value line per present field", out.as_bstr()),
                    &op,
                );
            }
            // round trip
            let mut want = c.clone();
            want.quit = None;
            match Context::from_bytes(&out) {
                Ok(back) if back == want => {}
                other => {
                    // canonical key: the first field that differs
                    let key = match &other {
                        Ok(back) => {
                            let fb = fields(back);
                            let i = (0..6).find(|i| fb[*i] != f[*i]).unwrap_or(0);
                            format!("roundtrip {}={} read-back={}", KEYS[i], opt_hex(&f[i]), opt_hex(&fb[i]))
                        }
                        Err(e) => format!("roundtrip-error {op}: {e}"),
                    };
                    rep.oracle_failure(
                        &key,
                        &format!("from_bytes(write_to(ctx)) != ctx; wire = {:?}; got {:?}", out.as_bstr(), other.map(|c| show_ctx(&c))),
                        &op,
                    );
                }
            }
        }
    }
    // what was written (complete or partial) is also a read case
    if !out.is_empty() {
        do_read(rep, &out, "written");
    }
}

/// after a refusal only complete lines of the earlier (valid) fields may have been written
fn check_partial(rep: &mut Report, op: &str, present: &[(usize, &Vec<u8>)], out: &[u8]) {
    let mut acc: Vec<u8> = Vec::new();
    let mut ok = false;
    for (k, v) in present {
        let dirty = v.contains(&b'\n') || v.contains(&0) || v.contains(&b'\r');
        if acc == out {
            // the refusal point: this is the value that must have been refused
            ok = dirty;
            break;
        }
        if dirty {
            break; // cannot have been written
        }
        acc.extend_from_slice(KEYS[*k].as_bytes());
        acc.push(b'=');
        acc.extend_from_slice(v);
        acc.push(b'\n');
    }
    if !ok {
        rep.oracle_failure(
            &format!("partial-write {op}"),
            &format!("after the refusal {:?} had been written, which is not the complete lines of the valid fields before the refused one", out.as_bstr()),
            op,
        );
    }
}

fn gen_string(r: &mut Rng) -> String {
    let n = match r.below(8) {
        0 => 0,
        1 => 1,
        _ => r.usize(9),
    };
    let mut s = String::new();
    for _ in 0..n {
        match r.below(24) {
            0 => s.push('\n'),
            1 => s.push('\0'),
            2 | 3 => s.push('\r'),
            4 | 5 => s.push('='),
            6 => s.push(' '),
            7 => s.push('é'),
            8 => s.push('𝄞'),
            9 => s.push_str("\r\n"),
            _ => s.push(*r.pick(&['a', 'b', 'z', '0', ':', '/', '@', '.', 'q'])),
        }
    }
    // trailing CR is the boundary of the line reader
    if r.chance(1, 12) {
        s.push('\r');
    }
    s
}

fn gen_bytes(r: &mut Rng) -> BString {
    if r.chance(3, 4) {
        return gen_string(r).into();
    }
    let mut v = gen_string(r).into_bytes();
    let k = 1 + r.usize(3);
    for _ in 0..k {
        let i = r.usize(v.len() + 1);
        v.insert(i, *r.pick(&[0xffu8, 0x80, 0xc3, 0xe2, 0xf0, 0xed]));
    }
    v.into()
}

fn gen_ctx(r: &mut Rng) -> Context {
    // mostly clean values so that the success path dominates; dirt is injected per field
    let clean = |r: &mut Rng| -> String {
        let n = r.usize(8);
        (0..n).map(|_| *r.pick(&['a', 'b', '=', ' ', 'é', '.', '/', ':'])).collect()
    };
    let s = |r: &mut Rng| -> Option<String> {
        match r.below(10) {
            0..=2 => None,
            3..=7 => Some(clean(r)),
            _ => Some(gen_string(r)),
        }
    };
    let protocol = s(r);
    let host = s(r);
    let username = s(r);
    let password = s(r);
    let b = |r: &mut Rng| -> Option<BString> {
        match r.below(10) {
            0..=3 => None,
            4..=7 => Some(gen_string(r).replace(['\n', '\0', '\r'], "_").into()),
            _ => Some(gen_bytes(r)),
        }
    };
    Context {
        protocol,
        host,
        username,
        password,
        path: b(r),
        url: b(r),
        quit: if r.chance(1, 10) { Some(r.chance(1, 2)) } else { None },
    }
}

/// wire text as a helper might send it
fn gen_wire(r: &mut Rng) -> Vec<u8> {
    let mut out = Vec::new();
    let n = r.usize(7);
    for _ in 0..n {
        match r.below(14) {
            0 => {} // empty line: stops the reader
            1 => out.extend_from_slice(&r.over(b"abc \xff", 5)), // no '='
            2 => {
                out.extend_from_slice(*r.pick(&[&b"quit"[..], b"Quit", b"quit "]));
                out.push(b'=');
                out.extend_from_slice(*r.pick(&[
                    &b"true"[..], b"TRUE", b"yes", b"On", b"no", b"off", b"False", b"", b"1", b"0", b"-0", b"+7", b"-", b"+", b"2x", b"00", b"9223372036854775807",
                    b"9223372036854775808", b"-9223372036854775808", b"-9223372036854775809", b"\xff", b"maybe",
                ]));
            }
            3 => {
                // unknown / odd keys
                out.extend_from_slice(&r.over(b"ab\0\xff\xc3\xa9", 4));
                out.push(b'=');
                out.extend_from_slice(&r.over(b"xy=\0", 4));
            }
            _ => {
                out.extend_from_slice(r.pick(&KEYS).as_bytes());
                if r.chance(1, 15) {
                    out.push(b' ');
                }
                out.push(b'=');
                out.extend_from_slice(&gen_bytes(r).replace("\n", "").replace("\0", if r.chance(1, 8) { "\0" } else { "" }));
            }
        }
        match r.below(8) {
            0 => out.extend_from_slice(b"\r\n"),
            1 => {} // no terminator (only sensible at the end, but try anyway)
            2 => out.extend_from_slice(b"\r"),
            _ => out.push(b'\n'),
        }
    }
    out
}

fn ctx_of_op(a: &[&str]) -> Option<Context> {
    let f = |s: &str| -> Option<Option<Vec<u8>>> {
        if s == "none" {
            Some(None)
        } else {
            unhex(s).map(Some)
        }
    };
    let st = |v: Option<Vec<u8>>| -> Option<Option<String>> {
        match v {
            None => Some(None),
            Some(b) => String::from_utf8(b).ok().map(Some),
        }
    };
    Some(Context {
        url: f(a[1])?.map(Into::into),
        path: f(a[2])?.map(Into::into),
        protocol: st(f(a[3])?)?,
        host: st(f(a[4])?)?,
        username: st(f(a[5])?)?,
        password: st(f(a[6])?)?,
        quit: None,
    })
}

fn main() {
    let args = Args::parse();
    let mut rep = Report::new("C35", &args);
    let mut r = Rng::new(args.seed);
    if let Some(ops) = replay_ops(&args) {
        for op in ops {
            let a: Vec<&str> = op.split(' ').collect();
            match a[0] {
                "credwrite" if a.len() == 7 => match ctx_of_op(&a) {
                    Some(c) => do_write(&mut rep, &c),
                    None => rep.note("credwrite op with a non-UTF-8 string field cannot be built"),
                },
                "credread" if a.len() == 2 => {
                    if let Some(b) = unhex(a[1]) {
                        do_read(&mut rep, &b, "replay");
                    }
                }
                _ => rep.note(&format!("unknown op {op}")),
            }
        }
        rep.finish();
        return;
    }
    // ---- corpus -------------------------------------------------------------------------------
    let base = Context {
        protocol: Some("https".into()),
        host: Some("example.com:8080".into()),
        path: Some("a/b.git".into()),
        username: Some("user".into()),
        password: Some("pass=word".into()),
        url: Some("https://user@example.com:8080/a/b.git".into()),
        quit: None,
    };
    do_write(&mut rep, &base);
    do_write(&mut rep, &Context::default());
    for dirt in ["\n", "\0", "\r", "a\nhost=evil", "a\0b", "abc\r", "a\rb", "\r\n", " ", "", "=", "a=b=c", "é\r"] {
        for field in 0..6 {
            let mut c = base.clone();
            match field {
                0 => c.url = Some(dirt.into()),
                1 => c.path = Some(dirt.into()),
                2 => c.protocol = Some(dirt.into()),
                3 => c.host = Some(dirt.into()),
                4 => c.username = Some(dirt.into()),
                _ => c.password = Some(dirt.into()),
            }
            do_write(&mut rep, &c);
            // and alone
            let mut c = Context::default();
            match field {
                0 => c.url = Some(dirt.into()),
                1 => c.path = Some(dirt.into()),
                2 => c.protocol = Some(dirt.into()),
                3 => c.host = Some(dirt.into()),
                4 => c.username = Some(dirt.into()),
                _ => c.password = Some(dirt.into()),
            }
            do_write(&mut rep, &c);
        }
    }
    for w in [
        &b""[..], b"\n", b"url=x", b"url=x\n", b"url=x\r\n", b"url=x\r", b"url=x\r\r\n", b"=v\n", b"k\n", b"host=a\n\nhost=b\n", b"host=a\nhost=b\n", b"quit=1\n", b"quit=\n",
        b"password=\xff\n", b"url=\xff\n", b"\xff=1\n", b"a\0=1\n", b"host=a\0\n", b"username==\n", b"protocol=a=b\n",
    ] {
        do_read(&mut rep, w, "edge");
    }
    // ---- random -------------------------------------------------------------------------------
    let n = args.budget(12_000, 400_000);
    for _ in 0..n {
        if r.chance(2, 3) {
            let c = gen_ctx(&mut r);
            do_write(&mut rep, &c);
        } else {
            let w = gen_wire(&mut r);
            do_read(&mut rep, &w, "wire");
        }
    }
    rep.finish();
}
